"""C17 round 2: generators + comparisons for the families of Model/C17Py.lean — the PYTHON-side wrappers, driven on the
real code path in the worker sub-process:

  rootfs:{consistent,partial,hostile}   _pslinux.RootFsDeviceFinder (the three strategies one by one AND find()) over a scripted
                                        /proc/partitions + /sys/dev/block + /sys/class/block tree (files under the worker's scratch
                                        dir; open_text / glob.iglob / os.path.exists redirected; glob order scripted)
  netifstats                            psutil.net_if_stats() over a scripted /proc/net/dev and per-NIC, per-ioctl scripted answers
                                        (shim2: SIOCGIFMTU / SIOCGIFFLAGS / SIOCETHTOOL succeed or fail with a chosen errno)
  netifaddrs_front:{…}                  psutil.net_if_addrs() (psutil/__init__.py: sort, AF_LINK padding, grouping) over a
                                        scripted getifaddrs() list

The trees of the `consistent` family are rendered HERE (Python, from the kernel's printf formats), independently of the
Lean rendering used in the theorems.
"""
from harness.props import c17_ext as X

ROOT_FAMILIES = ["consistent", "consistent", "partial", "hostile"]
DEVNAMES = [b"sda", b"sda1", b"sdb", b"vda", b"vda1", b"nvme0n1", b"nvme0n1p1", b"dm-0", b"loop0", b"mmcblk0p2", b"md127", b"xvda1", b"sr0", b"zram0"]
NIS_ERRNOS = [19, 19, 1, 13, 22, 95, 6, 100]


def _part_text(devs, header=True):
    t = b"major minor  #blocks  name\n\n" if header else b""
    for M, m, blocks, name in devs:
        t += b"%4d  %7d %10d %s\n" % (M, m, blocks, name)
    return t


def _uevent_text(M, m, name, typ=b"disk"):
    return b"MAJOR=%d\nMINOR=%d\nDEVNAME=%s\nDEVTYPE=%s\n" % (M, m, name, typ)


def gen_rootfs_case(rng, fam):
    n = rng.choice([1, 2, 3, 6, 12])
    nums = set()
    devs = []
    names = rng.sample(DEVNAMES, min(n, len(DEVNAMES)))
    for name in names:
        while True:
            M, m = rng.choice([8, 8, 253, 259, 7, 0, 202]), rng.choice([0, 1, 2, 16, 17, 255, 1048575])
            if (M, m) not in nums:
                nums.add((M, m))
                break
        devs.append((M, m, rng.choice([0, 1, 1000, 2 ** 31, 10 ** 12]), name))
    if rng.random() < 0.8:
        M, m = devs[rng.randrange(len(devs))][:2]
    else:
        M, m = rng.choice([(9, 9), (8, 99), (1, 8)])          # no listed device has the number of `/`
        if (M, m) in nums:
            M, m = 4095, 77
    cls = list(devs)
    rng.shuffle(cls)
    case = {"family": fam, "major": M, "minor": m, "partitions": _part_text(devs),
            "uevents": [(a, b, _uevent_text(a, b, nm, rng.choice([b"disk", b"partition"]))) for a, b, _, nm in devs],
            "classdevs": [(nm, b"%d:%d\n" % (a, b)) for a, b, _, nm in cls],
            "exists": [b"/dev/" + nm for _, _, _, nm in devs if rng.random() < 0.85],
            "devs": devs}
    if fam == "partial":
        case["devs"] = None
        k = rng.randrange(5)
        if k == 0:
            case["partitions"] = None                                        # open fails: OSError swallowed by find()
        elif k == 1:
            case["partitions"] = _part_text([d for d in devs if d[:2] != (M, m)])
        elif k == 2:
            case["partitions"] = None
            case["uevents"] = [u for u in case["uevents"] if u[:2] != (M, m)]
        elif k == 3:
            case["partitions"] = None
            case["uevents"] = []
            case["classdevs"] = [(nm, None if rng.random() < 0.4 else c) for nm, c in case["classdevs"]]   # FileNotFoundError race
        else:
            case["partitions"] = _part_text(devs, header=False)             # no header: the first two devices are skipped
    elif fam == "hostile":
        case["devs"] = None
        junk = [b"", b"\n", b"8 1\n", b"   8        1       100\n", b"x y z w\n", b"8 x 100 bad\n", b" 8 1 100 two words\n",
                b"%d %d 5 first\n" % (M, m), b"%d  %d 5 second\n" % (M, m), b"08 01 5 zeros\n", b"+8 1 5 plus\n", b"%d %d 5\n" % (M, m)]
        lines = [rng.choice(junk) for _ in range(rng.randrange(0, 8))]
        case["partitions"] = rng.choice([b"", b"h1\nh2\n", b"major minor  #blocks  name\n\n"]) + b"".join(lines)
        uj = [b"DEVNAME=\n", b"DEVNAME=  \n", b"XDEVNAME=sdz\n", b"DEVNAME=a=b\n", b"DEVNAME=xDEVNAME=y\n", b" DEVNAME=lead\n", b"DEVNAME=tail  \n",
              b"MAJOR=8\n", b"", b"DEVNAME=ok1\nDEVNAME=ok2\n"]
        case["uevents"] = [(M, m, b"".join(rng.choice(uj) for _ in range(rng.randrange(0, 4))))] if rng.random() < 0.8 else []
        if rng.random() < 0.3 and M != m:
            case["uevents"].append((m, M, b"DEVNAME=swapped\n"))
        cj = [b"%d:%d" % (M, m), b" %d:%d \n" % (M, m), b"%d:%d\n\n" % (M, m), b"%d:%d" % (m, M), b"", b"%d: %d\n" % (M, m), b"0%d:%d\n" % (M, m)]
        case["classdevs"] = [(nm, rng.choice(cj + [None])) for nm in rng.sample(DEVNAMES, rng.randrange(0, 5))]
        case["exists"] = [b"/dev/" + x for x in DEVNAMES + [b"first", b"second", b"ok1", b"ok2", b"a=b", b"y", b"tail", b"swapped", b"words", b"two"]
                          if rng.random() < 0.8]
    return case


def rootfs_line(c):
    return {"op": "rootfs", "major": c["major"], "minor": c["minor"],
            "partitions": None if c["partitions"] is None else c["partitions"].hex(),
            "uevents": [[a, b, t.hex()] for a, b, t in c["uevents"]],
            "classdevs": [[n.hex(), None if t is None else t.hex()] for n, t in c["classdevs"]],
            "exists": [x.hex() for x in c["exists"]],
            "devs": None if c["devs"] is None else [[M, m, b, n.hex()] for M, m, b, n in c["devs"]]}


def _ask_eq(impl, mo, strategy=False):
    # a single strategy that raises OSError (file absent) is "no answer": find() swallows it
    if strategy and mo["kind"] == "none" and impl.get("oserror"):
        return True
    if mo["kind"] == "exc":
        return impl.get("kind") == "exc" and impl.get("exc") == mo["exc"]
    return impl.get("kind") == mo["kind"] and impl.get("path") == mo.get("path")


def compare_rootfs(run, c, m):
    res = run.res
    line = rootfs_line(c)
    inp = {"kind": "rootfs", "family": c["family"], "line": line}
    rep = run.ask(dict(line, cmd="rootfs"), inp)
    if rep is None:
        return
    res.count("rootfs_family:" + c["family"])
    res.case(("rootfs", repr(line)), nontrivial=True)
    mo, sp = m["model"], m["spec"]
    if not rep.get("init_ok"):
        res.disagree("spec", inp, rep, None, None, note="RootFsDeviceFinder().major/minor are not os.major/os.minor of os.stat('/').st_dev")
        return
    if sp["find"] is not None:
        # kernel-consistent tree: the three strategies agree with each other and with the specification
        for k, name in enumerate(("ask_proc_partitions", "ask_sys_dev_block", "ask_sys_class_block")):
            if not _ask_eq(rep["strategies"][k], sp["strategy"], strategy=True):
                res.disagree("spec", inp, rep["strategies"], mo["strategies"], sp,
                             note="RootFsDeviceFinder.%s() on a kernel-consistent tree does not name the device whose number is that of '/'" % name)
                return
        if not _ask_eq(rep["find"], sp["find"]):
            res.disagree("spec", inp, rep["find"], mo["find"], sp["find"],
                         note="RootFsDeviceFinder.find() on a kernel-consistent tree: expected the root device's /dev path when it exists, else None")
            return
        res.count("rootfs:found" if sp["find"]["kind"] == "found" else "rootfs:none")
    for k in range(3):
        if not _ask_eq(rep["strategies"][k], mo["strategies"][k], strategy=True):
            res.disagree("model", inp, rep["strategies"], mo["strategies"], sp, note="RootFsDeviceFinder strategy %d differs from the Lean model" % k)
            return
    if not _ask_eq(rep["find"], mo["find"]):
        res.disagree("model", inp, rep["find"], mo["find"], sp["find"], note="RootFsDeviceFinder.find() differs from the Lean model")


# ------------------------------------------------------------------------------- net_if_stats

def gen_netifstats_case(rng):
    names = rng.sample([b"lo", b"eth0", b"wlan0", b"e" * 15, b"br-0a1b2c3d4e5f", b"a", b"veth9", b"tun0"], rng.choice([1, 1, 2, 3, 5]))
    nics = []
    for nm in names:
        def io(v, p_err):
            return {"err": rng.choice(NIS_ERRNOS)} if rng.random() < p_err else {"ok": v}
        eth = [rng.choice([0, 1, 1, 255, 255, 2 if rng.random() < 0.15 else 1]), rng.choice([0, 0, 0, 1, 0x7FFF, 0x8000, 0xFFFF]),
               rng.choice([0, 10, 100, 1000, 10000, 0xFFFF, rng.randrange(65536)])]
        nics.append({"name": nm.hex(), "mtu": io(rng.choice([0, 68, 1500, 9000, 65536, 2 ** 31 - 1]), 0.12),
                     "flags": io(rng.choice([0, 0x1043, 0x49, 0x1003, 0xFFFF, 0x8000, rng.randrange(65536)]), 0.12),
                     "eth": io(eth, 0.3)})
    return {"nics": nics, "errno": rng.choice(X.ERRNOS)}


def compare_netifstats(run, c, m):
    res = run.res
    inp = {"kind": "netifstats", "case": c}
    rep = run.ask(dict(c, cmd="netifstats"), inp)
    if rep is None:
        return
    res.case(("netifstats", repr(c["nics"])), nontrivial=True)
    mo, sp = m["model"], m["spec"]
    res.count("netifstats:" + (mo["kind"] if mo["kind"] != "exc" else mo["exc"]))

    def same(im, o):
        if o["kind"] == "ok":
            return im.get("kind") == "ok" and im["rows"] == o["rows"]
        if o["kind"] == "exc" and o["exc"] == "OSError":
            return im.get("kind") == "exc" and im.get("oserror") and im.get("errno_num") == o["errno"]
        if o["kind"] == "exc":
            return im.get("kind") == "exc" and im.get("exc") == o["exc"]
        return False
    if mo["kind"] == "ub":
        res.disagree("spec", inp, rep, mo, sp, note="model of the current source: speed_hi << 16 is undefined for these halves")
        return
    if not same(rep, sp):
        res.disagree("spec", inp, rep, mo, sp,
                     note="net_if_stats() differs from the specification (ENODEV NICs left out, other errors raised, isup = IFF_RUNNING, duplex / speed / mtu / flags of the kernel's answers)")
        return
    if not same(rep, mo):
        res.disagree("model", inp, rep, mo, sp, note="net_if_stats() differs from the Lean model")


# ------------------------------------------------------------------------------- net_if_addrs front end

def netifaddrs_line(case):
    return dict(X.ifaddrs_line(case), op="netifaddrs")


def _dict(js):
    return {k: [[r[0]] + [(None if v is None else (v["s"] if "s" in v else v["i"])) for v in r[1:]] for r in rows] for k, rows in js}


def compare_netifaddrs_front(run, case, m):
    res = run.res
    line = netifaddrs_line(case)
    inp = {"kind": "netifaddrs_front", "family": case["family"], "line": line}
    cmd = dict(X.ifaddrs_cmd(case, None), cmd="netifaddrs_front")
    rep = run.ask(cmd, inp)
    if rep is None:
        return
    res.count("netifaddrs_front:" + case["family"])
    mo, sp = _dict(m["model"]), _dict(m["spec"])
    res.case(("netifaddrs_front", repr(line)), nontrivial=bool(mo))
    if rep.get("kind") != "ok":
        res.disagree("spec", inp, rep, mo, sp, note="psutil.net_if_addrs() raised on a scripted getifaddrs() list")
        return
    im = {k: [list(r) for r in rows] for k, rows in rep["dict"]}
    if case["family"] != "mixed" and im != sp:
        bad = sorted(k for k in set(im) | set(sp) if im.get(k) != sp.get(k))[:2]
        res.disagree("spec", inp, {k: im.get(k) for k in bad}, {k: mo.get(k) for k in bad}, {k: sp.get(k) for k in bad},
                     note="psutil.net_if_addrs() differs from the specification (per NIC: its addresses by ascending family, kernel order within a family, MAC completed to 6 groups)")
        return
    if im != mo:
        bad = sorted(k for k in set(im) | set(mo) if im.get(k) != mo.get(k))[:2]
        res.disagree("model", inp, {k: im.get(k) for k in bad}, {k: mo.get(k) for k in bad}, None, note="psutil.net_if_addrs() differs from the Lean model")
        return
    if any(r[0] == 17 and bytes.fromhex(r[1]).count(b":") > 5 for rows in im.values() for r in rows):
        res.count("netifaddrs_front:long_mac")
    if any(r[0] == 17 and bytes.fromhex(r[1]).endswith(b":00") for rows in im.values() for r in rows):
        res.count("netifaddrs_front:padded_or_zero_tail")


def replay_netifaddrs_front(run, drv, inp):
    line = inp["line"]
    case = {"family": inp.get("family", "replay"), "entries": []}
    for e in line["entries"]:
        def s(j):
            return None if j is None else {"fam": j["fam"], "store": bytes.fromhex(j["store"]), "need": j["need"],
                                           "text": None if j["text"] is None else bytes.fromhex(j["text"])}
        case["entries"].append({"name": bytes.fromhex(e["name"]), "flags": e["flags"], "addr": s(e["addr"]), "netmask": s(e["netmask"]), "ifu": s(e["ifu"])})
    compare_netifaddrs_front(run, case, drv.batch([netifaddrs_line(case)])[0])
