"""C06 — per-process kernel facts are exact, whatever bytes the process name contains.

Model: lean/PsutilModel/Model/C06.lean (+C06Gen), Spec: Spec/C06.lean (kernel-side renderers of
/proc/<pid>/stat and /proc/<pid>/status + the promised views), theorems: Props/C06.lean.

Correspondence: generated kernel records (comm from a byte grammar biased to `)`, `(`, blanks,
newlines, backslashes, 15-byte names, non-UTF-8 bytes and names that imitate status lines;
counters near 0, 2^31, 2^53, 2^64-1; old-kernel records) are rendered by the Lean renderers, served
through a fake procfs, read by the REAL `psutil.Process` methods (front end → _pslinux → file
parsing) and compared with the Lean model and with the specification the driver prints alongside.
"""
import ctypes
import glob as _real_glob
import os
import re
import shutil
import signal
import tempfile
from fractions import Fraction

from harness.common import fakeproc
from harness.common.build import InfraError
from harness.common.shrink import ddmin
from harness.props import c06_facts

PROP = "C06"
DRIVER_MODULES = ["PsutilModel.Model.C06Gen", "PsutilModel.Spec.C06", "PsutilModel.Spec.C06Ext", "PsutilModel.Spec.C06Hist"]
NEEDS_EXT = True
TRUSTED = [
    "C06 renderers: Spec.renderStat / Spec.renderStatus are transcriptions of do_task_stat / proc_pid_status (Name: escapes only \\n and \\\\); validated on every run against the live kernel's files of this process, its parent, PID 1, children renamed with prctl(PR_SET_NAME) to hostile names and task/<tid>/stat of threads of this process that renamed themselves (`w) S 1 2 3`, …), not verified",
    "C06 regex model: re.findall on the four bytes patterns KEY(SEP(\\d+)){n} [(?m)^ anchored], SEP in {\\t, \\s} with none/*/+ (from the translator), is modelled as leftmost, non-overlapping, maximal-run matching (digits and the separator class are disjoint, so greedy backtracking cannot change a match); patterns outside that family are pinned by their exact source only",
    "C06 int()/float(): modelled on optional '-' + ASCII digits (what the kernel prints); '+', '_' , exponents, inf/nan are not generated",
    "C06 floats: the theorems are about EXACT RATIONALS, the code computes IEEE-754 doubles; assumed: CPython's float(bytes) and float/int division are correctly rounded (unit round-off u = 2^-53, no overflow/underflow in range). Under that assumption the computed value is within 2u+u^2 (cpu_times, threads: two operations) resp. 3u+3u^2+u^3 (create_time: three, boot time < 2^53 exact) RELATIVE of the exact rational (C06_tick_quotient_rounding_bound, C06_create_time_rounding_bound, proved for every u); the correspondence accepts exactly these bounds and nothing looser (e.g. 2^64-1 ticks / 100 may be 3.85 s off = 2.1e-17 relative: 'exact' means 'the exact quotient, rounded twice')",
    "C06 public name(): psutil/__init__.py Process.name() = the platform name() (the comm) plus the rule for possibly truncated names (>= 15 bytes: basename(cmdline()[0]) when that starts with the comm). The rule is modelled on argv[0] as given (Model publicName / Spec.publicName, C06_public_name_exact); the PARSING of /proc/<pid>/cmdline is C12's and trusted here: cases use NUL-terminated arguments without NUL/CR and no blank in a single-argument command line",
    "C06 CLOCK_TICKS: per case the module constant is set to what the module's own defining expression (right-hand side of `CLOCK_TICKS = ...` from the snapshot) evaluates to with os.sysconf('SC_CLK_TCK') answering the case's tick rate; the live-record cases run with the value computed at import, which is also compared with os.sysconf of this machine",
    "C06 int(): CPython >= 3.11 refuses decimal strings longer than sys.get_int_max_str_digits() (4300) with ValueError; the model's int() is unbounded. No kernel counter (<= 20 digits) comes near; C06_status_tokens_digits_only is a statement about the model beyond that length",
    "C06 /dev: glob's pattern matching is the real module's, run on a scratch tree holding one file per entry of the case (plus decoys); os.stat('/dev/..') is answered from the case (S_ISCHR/st_rdev/FileNotFoundError); the order of glob's result is the case's listing order",
    "C06 histories: an exception leaving a oneshot() block is raised inside the body of a real `with p.oneshot():` statement and caught right outside it (classes: LookupError, AccessDenied, ZombieProcess, PermissionError, StopIteration, a BaseException subclass); the translator's walk over the generator uses an ordinary Exception subclass as the representative and decides `if` tests over module constants only (POSIX, LINUX, ...), any other `if` is not followed (the correspondence still plays the real code); one thread (the thread that owns the cache is C16's dimension); getters that raise inside a block, as_dict() as a step and threads()/create_time() are not part of the histories",
    "C06 threads(): os.listdir of the task directory is scripted (shuffled order); a vanished thread = listed directory without stat file (ENOENT), or _pslinux.open_binary patched for that one path to raise ProcessLookupError / to return a file whose read() raises it (ESRCH); 'process gone at the end' = os.stat(/proc/<pid>) and os.path.exists(/proc/<pid>/stat) fail while the fake procfs still serves the file (no zombie records in that sub-family)",
]
MANIFEST = {
    "level_text": "Machine-checked Lean 4 proofs that the model of _parse_stat_file/name/ppid/status/cpu_times/create_time/cpu_num/terminal and of threads() inverts the kernel's stat renderer for EVERY comm byte string (any bytes, any number of parentheses, blanks, newlines), every state letter, unbounded counters, old-kernel records without the trailing fields (C06_stat_roundtrip and its per-method corollaries, C06_threads_exact, C06_old_kernel_iowait_zero), that PROC_STATUSES is the documented letter table (C06_status_letter_map, decide over the generated dict), and that uids/gids/num_threads/num_ctx_switches extract the real lines of a status file rendered with the kernel's Name: escaping for every name (C06_status_extract, C06_ctx_switches_extract), with groups that accept exactly non-empty ASCII-digit runs so that no byte string can make them raise ValueError (C06_status_tokens_digits_only, C06_status_match_shape). Round 2 adds the code around the parsers: terminal() through the real get_terminal_map over an abstract /dev in any listing order with vanishing entries and aliases (C06_terminal_map_exact_code: TerminalMapExact_Full for the code as it is, non-device files included, since get_terminal_map tests S_ISCHR - fact tmapChecksChr pinned by xcfg_good / cfg_tmap_checks_chr; refuted for the configuration without the test by a regular file with st_rdev 0, C06_terminal_nondevice_counterexample), histories of calls in one interpreter: the memoised map answers, i.e. every call is exact for the /dev of the FIRST terminal() call (C06_terminal_memoized, C06_terminal_first_scan_wins) and for the current /dev whenever /dev did not change (C06_terminal_unchanged_dev_exact); C06_terminal_stale_counterexample only characterises the memoisation (a pty created later is not seen; by design, beyond the property's quantifier), create_time() end to end from the text of /proc/stat and /proc/<pid>/stat with the BOOT_TIME pin (C06_boot_time_exact, C06_create_time_end_to_end, C06_create_time_uses_pinned_boot_time), and the VALUE and ORDER of threads() for every os.listdir order and every set of threads that vanish mid-scan (C06_threads_order: string order of the names; C06_threads_value, C06_threads_gone, C06_threads_old_kernel; C06_threads_value_any_signal / C06_threads_gone_any_signal: the same for every assignment of vanish signals - FileNotFoundError on open or ProcessLookupError on open/read - to the ended threads; C06_threads_liveness_checked_only_after_vanish), and the BOOT_TIME pin as the code tests it since /repo 29257b1 (`BOOT_TIME if BOOT_TIME is not None else boot_time()`, fact createBoot in {or, isNotNone, fresh, other:<text>} pinned to isNotNone by xcfg_good / cfg_create_boot_is_not_none): ANY pinned value, 0.0 included, is used and /proc/stat is not looked at (C06_create_time_uses_pinned_boot_time without a non-zero hypothesis, C06_create_time_zero_pin_is_used, C06_create_time_two_calls: the second call adds the btime the first call read whatever bytes /proc/stat holds by then); the truthiness shape `BOOT_TIME or boot_time()` of older trees is kept as a what-if configuration xcfgOr with its own true description (C06_create_time_zero_boot_time_rereads, C06_or_create_time_uses_nonzero_pin, C06_or_create_time_two_calls) and a proof that it breaks the promise (C06_time_history_or_counterexample: pin 0, clock stepped to btime 1). The theorems hold for the configuration cfg_good, a proof obligation fed by translator facts (indices, find/rfind, regex keys, anchoring and separator form - 'exactly one tab' is a fact, not a model constant -, binary open mode; cfg_status_patterns: the exact source of the four compiled status regexes as the imported module holds them, so that any edit of a pattern breaks the obligation; xcfg_good: glob patterns, FileNotFoundError guard, memoize, btime key/index, the is-not-None test of the cached boot time, sort, vanish handling for both exception classes, initial value of the hit_enoent flag); for the pre-fix configurations the negations are proved with concrete witnesses (thread named `a) b`; process named `Uid:\\t0\\t0\\t0`; text-mode reading with `\\r`). Tie: translator + differential run of the real Process methods over a fake procfs and a redirected /dev, called plainly, twice inside oneshot() (every getter on warm caches, the platform create_time()/ppid() included), through as_dict(), on the objects of process_iter() and through process_iter(attrs).info; Audit round: every tick theorem carries 0 < tck and needs it (C06_zero_tick_rate_raises: ZeroDivisionError at 0, no x/0 = 0 artefact); the PUBLIC name() with a non-empty command line (C06_public_name_exact: documented rule for 15-byte names; C06_public_name_short_is_comm: a shorter comm is returned byte for byte whatever argv[0] is; C06_public_name_extends_comm); histories of ANY length of create_time() and boot_time() calls interleaved over changing /proc/stat (C06_time_call_history, C06_time_history_pinned_full: every create_time() adds the btime the FIRST call of the interpreter pinned, 0 included — the promise TimeOp.promised is written from the property, not from the extracted configuration); the report order of threads() restated with List.Lex (C06_threads_order_lex); anchors that are defining expressions pinned by their source text (cfg_source_anchors: CLOCK_TICKS = os.sysconf('SC_CLK_TCK'), the single S_ISCHR condition of get_terminal_map, the three guards and the source of the public name rule, no extra regex flags). FLOATS: all theorems are about exact rationals; the rounding of the doubles the code computes is bounded by C06_tick_quotient_rounding_bound / C06_create_time_rounding_bound under the explicit hypothesis of correctly rounded operations, and that bound is the tolerance of the correspondence. HISTORIES on one Process object (seeded round 5): the caching machinery between the public getters and the parsers - Process.oneshot(), memoize_when_activated, oneshot_enter/_exit - is modelled (two _cache slots, memoised stat parse / status text / cpu_times / ppid / uids) with the calls oneshot() reaches on entry, on a normal exit and when an exception propagates out of the block as translator facts (symbolic walk over the generator: hcfg_good, cfg_oneshot_anchors); C06_history_exact: for every history of any length - new records published in between, getters, blocks entered, nested, left normally or by an exception - a getter called outside every block reports exactly the record the kernel publishes at that moment, a getter inside a block a record published while the block was open (Spec/C06Hist.lean Conforms); refuted for the configuration whose platform teardown is not reached on an exception exit (C06_history_exc_exit_counterexample). The correspondence plays such histories on a real Process object with real nested with-statements (structured, random and exhaustive small families). Thread names are explored on their own (exhaustive short names and `x) yz` forms for secondary threads, live task/<tid>/stat records of threads that renamed themselves).",
    "level_note": "Trusted: Lean kernel + {propext, Classical.choice, Quot.sound}; translator; correspondence harness; kernel renderers (validated against the live kernel each run); CPython int/float/split/re modelled; theorems over exact rationals; doubles compared within the proved rounding bound (2u+u^2 / 3u+3u^2+u^3, u = 2^-53) under the assumption that float() and / are correctly rounded.",
    "technique": "Lean 4 round-trip proofs parse(render r) = view r over all byte strings + translator-fed proof obligation + differential correspondence through a fake procfs",
    "design_ref": "DESIGN.md §5 C06",
}
ASSUMPTIONS = [
    "the state is printed as one ASCII letter; every number is printed in decimal (signed for tpgid/priority/nice)",
    "status lines other than Name/Uid/Gid/Threads/*ctxt_switches have keys different from those, without ':' or newline, and values without newline (one fact per line); for num_ctx_switches additionally: comm is at most 15 bytes and no other line contains 'ctxt_switches:\\t<digit>'",
    "PYTHONUTF8=1: surrogateescape decoding of the name is a bijection on bytes (compared after os.fsencode)",
]

facts = c06_facts.facts

METHODS_STAT = ["name", "ppid", "status", "cpu_times", "create_time", "cpu_num", "terminal"]
METHODS_STATUS = ["uids", "gids", "num_threads", "num_ctx_switches"]
# Unit round-off of binary64. The model computes exact rationals; the code computes doubles:
#   cpu_times / threads: float(token) / CLOCK_TICKS   = 2 correctly rounded operations → relative error <= 2u + u^2
#   create_time:         float(token) / CLOCK_TICKS + bt = 3 (bt is a whole number < 2^53, exact) → <= 3u + 3u^2 + u^3
# (theorems C06_tick_quotient_rounding_bound / C06_create_time_rounding_bound). Nothing looser is accepted.
U = Fraction(1, 2 ** 53)
TOL2 = 2 * U + U * U
TOL3 = 3 * U + 3 * U * U + U ** 3


def get_ps(ctx):
    ps = c06_facts.snap_psutil(ctx.snap)
    ctx._psutil = ps
    return ps


# ------------------------------------------------------------------------------ generators

BIG = [0, 1, 2, 99, 100, 101, 2 ** 31 - 1, 2 ** 31, 2 ** 32 - 1, 2 ** 32, 2 ** 53 - 1, 2 ** 53, 2 ** 53 + 1,
       2 ** 63, 2 ** 64 - 2, 2 ** 64 - 1]
LETTERS_DOC = b"RSDTtZXxKWIP"
HOSTILE = [
    b"a) b", b") S 1 1 1", b"))))", b"((((", b"a (b) c", b"x) R 0 0 0 0 0 0", b") ", b" )", b"()",
    b"Uid:\t0\t0\t0", b"Gid:\t0\t0\t0", b"Threads:\t99", b"ctxt_switches:\t", b"ctxt_switches:\t1"[:15],
    b"x\rUid:\t0\t0\t0", b"\nUid:\t0\t0\t0", b"\rGid:\t7\t7\t7", b"\nThreads:\t5", b"Uid:\t0\t0", b"aUid:\t1\t2\t3",
    b"\\", b"\\n", b"a\\\nb", b"\n", b"\n\n)\n", b"\t", b" ", b"", b"\xff\xfe", b"\xc3", b"\xe2\x82", b"caf\xc3\xa9",
    b"123456789012345", b"(sd-pam)", b"kworker/0:1H-kb", b"Web Content", b"a b c d e f g h",
]
# names that would match a RELAXED form of one of the four status patterns (separator optional / blank / repeated,
# anchor dropped, fewer groups): derived from the patterns' keys, see relaxed_names()
STATUS_KEYS = [(b"Uid:", 3), (b"Gid:", 3), (b"Threads:", 1), (b"nonvoluntary_ctxt_switches:", 1)]
RELAXED = [
    b"ctxt_switches:7", b"ctxt_switches:\t", b"_ctxt_switches:9", b"y_ctxt_switches:", b"ctxt_switches: ", b"txt_switches:\t77"[:15],
    b"Threads:9", b"Threads: 9", b"Threads:\t\t9", b"Threads:999999", b" Threads:\t9", b"threads:\t9",
    b"Uid:1\t2\t3", b"Uid: 1 2 3", b"Uid:\t1 2 3", b"Uid:\t\t1\t2\t3", b"Uid:\t1\t2", b"Uid:123",
    b"Gid:\t0", b"Gid:0\t0\t0", b"Gid: 0\t0\t0", b"Gid:\t0\t0\t0\t0\t0",
]


def relaxed_names():
    """EVERY 15-byte name of the form <suffix of a status key><sep><digits…> for sep in '', ' ', TAB (digit groups
    repeated as often as the key's pattern has groups, the last one padded with digits), plus the same left-padded
    to 15 bytes with a letter instead of digit-padded."""
    out = []
    for key, groups in STATUS_KEYS:
        for i in range(len(key) - 1):
            suf = key[i:]
            for sep in (b"", b" ", b"\t"):
                body = suf + sep + (b"\t" if sep == b"" else sep).join(b"%d" % (k + 1) for k in range(groups))
                if sep == b"" and groups > 1:
                    body = suf + b"1\t2\t3"
                if len(body) > 15:
                    body = suf + sep + b"7"
                if len(body) > 15:
                    continue
                out.append(body + b"7" * (15 - len(body)))
                out.append(b"x" * (15 - len(body)) + body)
    seen, uniq = set(), []
    for n in out:
        if n not in seen:
            seen.add(n)
            uniq.append(n)
    return uniq


ALPHA = [b")", b"(", b" ", b"\n", b"\t", b"\r", b"\\", b":", b"a", b"Z", b"0", b"9", b"\xff", b"\x80", b"\xc3\xa9", b"\x01", b"\x7f"]


def gen_comm(rng):
    r = rng.random()
    if r < 0.35:
        c = rng.choice(HOSTILE if rng.random() < 0.7 else RELAXED)
        if rng.random() < 0.3:
            extra = b"".join(rng.choice(ALPHA) for _ in range(rng.randrange(0, 4)))
            c = (extra + c) if rng.random() < 0.5 else (c + extra)
        return c[:15]
    n = rng.choice([0, 1, 2, 3, 5, 8, 14, 15, 15, 15]) if r < 0.8 else rng.randrange(0, 16)
    if rng.random() < 0.5:
        out = b"".join(rng.choice(ALPHA) for _ in range(n))
    else:
        out = bytes(rng.choice([rng.randrange(1, 256), 41, 40, 32, 10]) for _ in range(n))
    return out.replace(b"\x00", b"\x01")[:15]


UNRELATED = [b"/usr/bin/python3", b"/sbin/init", b"bash", b"-bash", b"/opt/x/bin/java", b"python3.12", b"sh", b""]


def gen_cmdline(rng, comm):
    """argv of the process as {"dir", "base", "rest"} (hex; argv[0] = dir + '/' + base) or None = empty cmdline file.
    Derived from the comm so that the front end's rule for truncated names (psutil/__init__.py name(): a comm of
    >= 15 bytes is replaced by basename(argv[0]) when that starts with it) is met, narrowly missed, and — for names
    SHORTER than 15 bytes — offered an argv[0] that starts with the comm although the rule must not apply.
    Stays inside what cmdline() parses unambiguously (C12's business): NUL-terminated arguments, no NUL/CR, and no
    blank in a single-argument command line."""
    if rng.random() < 0.35:
        return None
    usable = all(c not in comm for c in (0, 13, 47)) and len(comm) > 0
    r = rng.random()
    d = rng.choice([None, b"/usr/bin", b"/usr/libexec/x", b".", b"", b"/opt/my app/bin"])
    if usable and r < 0.40:
        base = comm + rng.choice([b"aemon", b"-daemon", b"x", b" --flag", b"\xc3\xa9", b"0"])      # extends the comm
    elif usable and r < 0.50:
        base = comm                                                                              # is the comm
    elif usable and r < 0.65:
        base = comm[:-1] + bytes([comm[-1] ^ 1]) + b"daemon"                                     # differs in the last byte
        if 47 in base or 0 in base or 13 in base:
            base = b"x" + comm
    elif usable and r < 0.72:
        d, base = (d or b"") + b"/" + comm + b"daemon", rng.choice([b"run", b"", b"x" + comm])     # only the DIRECTORY starts with it
    elif usable and r < 0.78:
        base = comm[:max(1, len(comm) - 3)]                                                      # a proper prefix of the comm
    else:
        arg0 = rng.choice(UNRELATED)
        d, _, base = arg0.rpartition(b"/") if b"/" in arg0 else (None, b"", arg0)
    rest = [rng.choice([b"--start", b"-c", b"a b", b"", b"\xff"]) for _ in range(rng.choice([0, 0, 1, 2]))]
    if not rest and b" " in ((d or b"") + base):
        rest = [b"--x"]
    return {"dir": None if d is None else d.hex(), "base": base.hex(), "rest": [x.hex() for x in rest]}


def gen_counter(rng, style):
    if style == "small":
        return rng.randrange(0, 1000)
    if style == "big":
        b = rng.choice(BIG)
        return max(0, min(2 ** 64 - 1, b + rng.choice([0, 0, 1, -1])))
    return rng.choice([rng.randrange(0, 10 ** 6), rng.randrange(0, 2 ** 64), rng.choice(BIG)])


def gen_stat_rec(rng, pid, style=None, comm=None, state=None, ttys=()):
    style = style or rng.choice(["small", "mixed", "big"])
    c = lambda: gen_counter(rng, style)
    # distinct values in the columns psutil reads (and their neighbours) so that a swapped index shows
    base = rng.randrange(3, 50)
    f = [c() for _ in range(38)]
    if rng.random() < 0.6:
        for i in range(38):
            f[i] = f[i] * 64 + i + base if style != "big" else f[i]
    f[0] = rng.choice([0, 1, 2, rng.randrange(1, 4194304)])           # ppid
    f[3] = rng.choice(list(ttys) + [0, 0, 34816, 1025, rng.randrange(0, 2 ** 31)])   # tty_nr
    f[4] = rng.choice([-1, -1, rng.randrange(1, 4194304)])            # tpgid
    f[14] = rng.choice([20, 0, -2, -100, 39, -51])                    # priority
    f[15] = rng.choice([0, -20, 19, 5, -5])                           # nice
    f[35] = rng.choice([0, 1, 15, 255, rng.randrange(0, 4096)])       # processor
    if f[10] == f[11]:
        f[11] += 1
    r = rng.random()
    if r < 0.12:
        tail = None
    else:
        n_more = rng.choice([0, 2, 10, 10, 10, 10, 12])
        tail = [c() for _ in range(1 + n_more)]
    if comm is None:
        comm = gen_comm(rng)
    if state is None:
        state = rng.choice(LETTERS_DOC) if rng.random() < 0.85 else rng.choice(b"ABCEFGHJLMNOQUVYabcdz")
    return {"pid": pid, "comm": comm.hex(), "state": state, "f": f, "tail": tail}


def kv(k, v):
    return [k.encode().hex() if isinstance(k, str) else k.hex(), v.encode().hex() if isinstance(v, str) else v.hex()]


def gen_status_rec(rng, comm, pid, ppid, nthreads):
    style = rng.choice(["small", "mixed", "big"])
    idv = lambda: rng.choice([0, 1000, 1234, 65534, 2 ** 32 - 2, 2 ** 32 - 1, rng.randrange(0, 2 ** 32)])
    pre = [kv("Umask", "%04o" % rng.choice([0o22, 0o77, 0])), kv("State", rng.choice(["S (sleeping)", "R (running)", "Z (zombie)"])),
           kv("Tgid", str(pid)), kv("Ngid", "0"), kv("Pid", str(pid)), kv("PPid", str(ppid)), kv("TracerPid", "0")]
    if rng.random() < 0.15:
        pre = pre[:1] + pre[2:]          # older kernels: no Umask / fewer lines
    mid1 = [kv("FDSize", str(rng.choice([64, 256]))), kv("Groups", rng.choice([" ", "4 24 27 ", "0 "])),
            kv("NStgid", str(pid)), kv("NSpid", str(pid)), kv("Kthread", "0"),
            kv("VmPeak", "%8d kB" % rng.randrange(0, 10 ** 7)), kv("VmRSS", "%8d kB" % rng.randrange(0, 10 ** 7)),
            kv("CoreDumping", "0"), kv("THP_enabled", "1"), kv("untag_mask", "0xffffffffffffffff")]
    if rng.random() < 0.2:
        mid1 = mid1[:2]                  # kernel thread / zombie: no Vm* lines
    mid2 = [kv("SigQ", "1/257859"), kv("SigPnd", "0" * 16), kv("CapEff", "000001fffeffffff"), kv("Seccomp", "0"),
            kv("Speculation_Store_Bypass", "thread vulnerable"), kv("Cpus_allowed", "ffff"),
            kv("Cpus_allowed_list", "0-15"), kv("Mems_allowed_list", "0")]
    if rng.random() < 0.2:
        mid2 = mid2[:3]
    cnt = lambda: gen_counter(rng, style)
    return {"comm": comm.hex(), "pre": pre, "uid": [idv() for _ in range(4)], "gid": [idv() for _ in range(4)],
            "mid1": mid1, "threads": nthreads if rng.random() < 0.7 else cnt(), "mid2": mid2, "vol": cnt(), "nonvol": cnt()}


TTY_PATHS = ["/dev/tty1", "/dev/pts/0", "/dev/pts/17", "/dev/ttyS0", "/dev/tty"]


def gen_tmap(rng):
    n = rng.randrange(0, 5)
    out = []
    used = set()
    for p in rng.sample(TTY_PATHS, n):
        nr = rng.choice([1025, 34816, 34833, 1088, 1280, rng.randrange(1, 2 ** 20)])
        if nr in used:
            continue
        used.add(nr)
        out.append([nr, p.encode().hex()])
    return out


def gen_dev(rng, want=()):
    """An abstract /dev as the two globs list it: [[hexpath, kind, rdev]]; kind chr / other / vanished.
    `want` = device numbers that should (usually) be present."""
    out, used = [], set()
    names = ["/dev/tty", "/dev/tty0", "/dev/tty1", "/dev/tty63", "/dev/ttyS0", "/dev/ttyUSB0", "/dev/ttyprintk",
             "/dev/pts/0", "/dev/pts/1", "/dev/pts/17", "/dev/pts/ptmx", "/dev/pts/204"]
    rng.shuffle(names)
    nums = list(want) + [1025, 34816, 34817, 34833, 1088, 1280, 1282, 136 * 256 + 204, rng.randrange(1, 2 ** 20)]
    for nm in names[:rng.randrange(0, 8)]:
        r = rng.random()
        if r < 0.12:
            out.append([nm.encode().hex(), "vanished", 0])
        elif r < 0.22:
            # NOT a character device: regular file / directory / fifo / socket (st_rdev 0 = the tty_nr of every process
            # without a terminal), or a BLOCK device, whose number may coincide with a tty number somebody has
            kind = rng.choice(["reg", "dir", "dir", "blk", "blk", "fifo", "sock"])
            rdev = 0 if kind != "blk" else rng.choice(list(want) + [2049, 1025, 34816, rng.choice(nums)])
            out.append([nm.encode().hex(), kind, rdev])
        else:
            nr = rng.choice(nums)
            if nr in used and rng.random() < 0.8:
                continue
            used.add(nr)
            out.append([nm.encode().hex(), "chr", nr])
    # glob order: ttys first, then pts (each in arbitrary directory order)
    out.sort(key=lambda e: bytes.fromhex(e[0]).startswith(b"/dev/pts/"))
    return out


def gen_dev2(rng, dev, tty_nr):
    """/dev at a LATER moment (the memoised map is not refreshed)"""
    r = rng.random()
    d2 = [list(e) for e in dev]
    if r < 0.35:
        return d2
    if r < 0.6 and d2:
        del d2[rng.randrange(len(d2))]
        return d2
    have = {bytes.fromhex(e[0]) for e in d2}
    for nm in (b"/dev/pts/5", b"/dev/pts/6", b"/dev/tty7"):
        if nm not in have:
            d2.append([nm.hex(), "chr", tty_nr if rng.random() < 0.7 else rng.randrange(1, 2 ** 20)])
            break
    d2.sort(key=lambda e: bytes.fromhex(e[0]).startswith(b"/dev/pts/"))
    return d2


def gen_procstat(rng, btime):
    pre = ["cpu  %d %d %d %d 5 6 7 8 9 10" % tuple(rng.randrange(0, 10 ** 6) for _ in range(4))]
    for i in range(rng.choice([0, 1, 2, 4])):
        pre.append("cpu%d 1 2 3 4 5 6 7 8 9 10" % i)
    if rng.random() < 0.8:
        pre.append("intr %d 0 0 9" % rng.randrange(0, 10 ** 9))
    if rng.random() < 0.8:
        pre.append("ctxt %d" % rng.randrange(0, 10 ** 9))
    if rng.random() < 0.1:
        pre = []
    post = ["processes %d" % rng.randrange(1, 10 ** 6), "procs_running 1", "procs_blocked 0", "softirq 5 1 1 1 1 1"]
    post = post[:rng.choice([0, 1, 4, 4])]
    if rng.random() < 0.1:
        post.append("btime 1")          # a later btime line must be ignored: the first one counts
    return {"pre": [l.encode().hex() for l in pre], "btime": btime, "post": [l.encode().hex() for l in post]}


def vanished_thread(rng, tid):
    """a thread that ended between listdir() and the read of its stat file; the signal is ENOENT at open (the
    directory is gone), or ESRCH at open / at read() (the directory entry was still there)"""
    t = {"vanished": True, "tid": tid}
    r = rng.random()
    if r < 0.25:
        t["esrch"] = "open"
    elif r < 0.5:
        t["esrch"] = "read"
    return t


def tid_of(t):
    return t["rec"]["pid"] if "rec" in t else t["tid"]


def add_world(case, rng):
    """the world around the records: /dev, /proc/stat text, task-directory listing order, vanishing threads"""
    rec = case["stat"].get("rec")
    tty = rec["f"][3] if rec else 0
    case["dev"] = gen_dev(rng, want=[tty] if (tty and rng.random() < 0.7) else [])
    if rng.random() < 0.3:
        case["dev2"] = gen_dev2(rng, case["dev"], tty or 34816)
    case["tmap"] = []
    case["procstat"] = gen_procstat(rng, case["btime"])
    if rng.random() < 0.3 or case["btime"] == 0:
        # btime 0: BOOT_TIME is pinned to 0.0 — the second call must still add the pinned 0.0 and not the btime of
        # the rewritten /proc/stat (a truthiness test `BOOT_TIME or boot_time()` would re-read: these histories are
        # exactly what tells the two shapes of create_time() apart, so every btime-0 case gets a second /proc/stat)
        case["procstat2"] = gen_procstat(rng, rng.choice([case["btime"] + 1, case["btime"] + 3600, 1, 2 ** 31]))
    threads = list(case["threads"])
    if rng.random() < 0.15:
        # threads that end between listdir() and the read of their stat file
        have = {tid_of(t) for t in threads}
        for _ in range(rng.choice([1, 1, 2])):
            if len(threads) > 1 and rng.random() < 0.5:
                i = rng.randrange(len(threads))
                if tid_of(threads[i]) != case["pid"] or rng.random() < 0.3:
                    threads[i] = vanished_thread(rng, tid_of(threads[i]))
                    continue
            t = rng.choice([8, 11, 98, 101, 1000, rng.randrange(1, 4194304)])
            if t not in have:
                have.add(t)
                threads.append(vanished_thread(rng, t))
        # (the fake procfs keeps serving /proc/<pid>/stat of the "gone" process to _raise_if_zombie(): no 'Z' records here)
        if rng.random() < 0.25 and rec and rec["state"] != 90:
            case["alive"] = False
    elif rng.random() < 0.04 and rec and rec["state"] != 90:
        # the process is gone by the end of the scan although every listed thread could be read: the liveness check
        # runs only after a vanished thread (hit_enoent starts as False), so the list is returned
        case["alive"] = False
    case["threads"] = threads
    # process_iter() objects / .info are observed on every second case (quick-tier budget)
    case["iter_modes"] = rng.random() < 0.5
    listing = [tid_of(t) for t in threads]
    rng.shuffle(listing)
    case["listing"] = listing
    return case


def tid_order(threads):
    """psutil sorts the task directory listing as strings"""
    def tid(t):
        return t["rec"]["pid"] if "rec" in t else t["tid"]
    return sorted(threads, key=lambda t: str(tid(t)))


def separate_main_thread(case, rng):
    """/proc/<pid>/stat holds thread-GROUP totals, task/<tid>/stat per-thread values: make the process-level
    utime/stime (and usually name/state/other columns) differ from the main thread's own record, as they
    do for every multi-threaded or once-multi-threaded process."""
    if "rec" not in case["stat"]:
        return case
    prec = case["stat"]["rec"]
    recs = [t["rec"] for t in case["threads"] if "rec" in t]
    main = [r for r in recs if r["pid"] == case["pid"]]
    if recs and rng.random() < 0.5:
        # totals = sum over live threads + ticks of already reaped threads
        for col in (10, 11):
            tot = sum(r["f"][col] for r in recs) + rng.choice([0, 0, 1, 250, 10 ** 6])
            if tot < 2 ** 64:
                prec["f"][col] = tot
    for m in main:
        for col in (10, 11):
            if m["f"][col] == prec["f"][col]:
                prec["f"][col] += 1 + col
        if m["f"][10] == prec["f"][11] or m["f"][11] == prec["f"][10]:
            prec["f"][10] += 3
    return case


def gen_case(rng, family):
    pid = rng.choice([1, 2, 42, 4194303, rng.randrange(2, 4194304)])
    tck = rng.choice([100, 100, 100, 250, 1000, 1024, 60, 1])
    btime = rng.choice([1, 1700000000, 1759000000, 2 ** 31 - 1, 2 ** 32 + 5, rng.randrange(1, 2 ** 33)])
    if rng.random() < 0.04:
        btime = 0
    tmap = gen_tmap(rng)
    ttys = [e[0] for e in tmap]
    comm = None
    if family == "paren":
        comm = rng.choice([b"a) b", b") S 1 1 1", b"x) R 0 0 0 0 0 0", b"))", b"a (b) c", b") "]) if rng.random() < 0.5 else None
    elif family == "statusname":
        comm = rng.choice([b"Uid:\t0\t0\t0", b"Gid:\t0\t0\t0", b"Threads:\t99", b"ctxt_switches:\t", b"x\rUid:\t0\t0\t0",
                           b"\nUid:\t0\t0\t0", b"\rGid:\t7\t7\t7", b"\nThreads:\t5", b"aUid:\t1\t2\t3", b"Gid:\t1\t2\t3\t4",
                           b"Uid:\t7\t7\t7\n", b"Threads:\t1\\"] + RELAXED)
    style = "big" if family == "big" else None
    stat = gen_stat_rec(rng, pid, style=style, comm=comm, ttys=ttys)
    if family == "oldkernel":
        stat["tail"] = None
    comm_b = bytes.fromhex(stat["comm"])
    nthr = rng.choice([1, 1, 2, 3, 5]) if family != "threads" else rng.randrange(2, 9)
    tids = [pid]
    while len(tids) < nthr:
        t = rng.choice([pid + len(tids), rng.randrange(1, 4194304), 9, 10, 99, 100])
        if t not in tids:
            tids.append(t)
    threads = []
    for i, t in enumerate(tids):
        tcomm = comm_b if (i == 0 and rng.random() < 0.5) else (
            rng.choice([b"a) b", b") S 1 1 1", b"x) R 0 0 0 0 0 0", b"w) ", b"(a)) 5 5"]) if (family in ("threads", "paren") and rng.random() < 0.6)
            else gen_comm(rng))
        trec = gen_stat_rec(rng, t, style=style, comm=tcomm, ttys=ttys)
        if i > 0 and rng.random() < 0.7:
            trec["f"][34] = -1            # exit_signal of a non-leader thread (live kernel: -1)
        threads.append({"rec": trec})
    status = gen_status_rec(rng, comm_b, pid, stat["f"][0], nthr)
    case = separate_main_thread(
        {"family": family, "pid": pid, "tck": tck, "btime": btime, "tmap": tmap, "stat": {"rec": stat},
         "status": {"rec": status}, "threads": tid_order(threads)}, rng)
    cl = gen_cmdline(rng, comm_b)
    if cl is not None:
        case["cmdline"] = cl
    return add_world(case, rng)


# ------------------------------------------------------------------------------ histories on ONE Process object

HIST_GETTERS = ["name", "ppid", "status", "cpu_times", "cpu_num", "terminal", "uids", "gids", "num_threads", "num_ctx_switches"]
# how a `with p.oneshot():` block is left by an exception: what travels out of the block
HIST_EXC = ["LookupError", "AccessDenied", "ZombieProcess", "BaseException", "StopIteration", "OSError"]
# state letters whose STATUS_* constants are pairwise different
HIST_STATES = b"RSDTtZXKWIP"


def gen_world(rng, pid, ttys, prev=None, style=None):
    """what the kernel publishes for the process at one moment: {"stat": rec, "status": rec}. A later world of the
    SAME process (same pid, same start time) that differs from `prev` in the view of EVERY getter, so that a stale
    answer of any getter is visible."""
    stat = gen_stat_rec(rng, pid, style=style, ttys=ttys, state=rng.choice(HIST_STATES))
    if len(bytes.fromhex(stat["comm"])) >= 15 and rng.random() < 0.5:
        stat["comm"] = bytes.fromhex(stat["comm"])[:rng.randrange(0, 15)].hex()
    comm = bytes.fromhex(stat["comm"])
    status = gen_status_rec(rng, comm, pid, stat["f"][0], rng.choice([1, 2, 3, 5, 64]))
    if prev is not None:
        ps_, pu = prev["stat"], prev["status"]
        stat["f"][18] = ps_["f"][18]                       # starttime: the same process all along
        if stat["comm"] == ps_["comm"]:
            comm = (comm[:14] + b"~") if not comm.endswith(b"~") else comm[:-1]
            stat["comm"] = status["comm"] = comm.hex()
        for col in (0, 3, 10, 11, 12, 13, 35):             # ppid, tty_nr, utime, stime, cutime, cstime, processor
            if stat["f"][col] == ps_["f"][col]:
                stat["f"][col] += 1 + col
        while stat["state"] == ps_["state"] or {stat["state"], ps_["state"]} == {88, 120}:
            stat["state"] = rng.choice(HIST_STATES)
        if stat["tail"] is not None and ps_["tail"] is not None and stat["tail"][0] == ps_["tail"][0]:
            stat["tail"][0] += 7
        if stat["tail"] is None and (ps_["tail"] is None or ps_["tail"][0] == 0):
            stat["tail"] = [5]
        for k in ("uid", "gid"):
            status[k] = [(a + 1 + i if a == b else a) for i, (a, b) in enumerate(zip(status[k], pu[k]))]
        for k in ("threads", "vol", "nonvol"):
            if status[k] == pu[k]:
                status[k] += 3
    return {"stat": stat, "status": status}


def hist_case(rng, family, events_of, style=None):
    """a history case; `events_of(next_world, gets)` builds the event list"""
    pid = rng.choice([2, 42, 4194303, rng.randrange(2, 4194304)])
    tmap = gen_tmap(rng)
    ttys = [e[0] for e in tmap]
    worlds = [gen_world(rng, pid, ttys, style=style)]

    def next_world():
        worlds.append(gen_world(rng, pid, ttys, prev=worlds[-1], style=style))
        return {"publish": worlds[-1]}

    def gets(n=None):
        gs = list(HIST_GETTERS)
        rng.shuffle(gs)
        return [{"get": g} for g in (gs if n is None else gs[:n])]
    return {"kind": "hist", "family": family, "pid": pid, "tck": rng.choice([100, 100, 250, 1000, 1024, 1]),
            "btime": rng.choice([1, 1700000000, 2 ** 31 - 1]), "tmap": tmap, "init": worlds[0],
            "events": events_of(next_world, gets)}


def leave_exc(rng):
    return {"leave": True, "with": rng.choice(HIST_EXC)}


LEAVE = {"leave": False}


def hist_templates(rng):
    """the shapes the clause speaks about, each with fresh random records, getter orders and exception classes"""
    X = lambda: leave_exc(rng)
    some = lambda g: g(rng.randrange(1, 6))
    return [
        ("exc-exit-then-new-record", lambda P, G: ["enter"] + G() + [X(), P()] + G() + G(3)),
        ("normal-exit-then-new-record", lambda P, G: ["enter"] + G() + [LEAVE, P()] + G()),
        ("inner-exc-exit", lambda P, G: ["enter", "enter"] + G() + [X()] + some(G) + [LEAVE, P()] + G()),
        ("outer-exc-exit", lambda P, G: ["enter", "enter"] + some(G) + [LEAVE, P()] + G() + [X(), P()] + G()),
        ("reenter-after-exc-exit", lambda P, G: ["enter"] + G() + [X(), P(), "enter"] + G() + [LEAVE, P()] + G()),
        ("publish-inside-exc-exit", lambda P, G: ["enter"] + some(G) + [P()] + G() + [X()] + G()),
        ("empty-block-exc-exit", lambda P, G: ["enter", X(), P()] + G()),
        ("partly-cached-exc-exit", lambda P, G: G() + ["enter"] + some(G) + [X(), P()] + G()),
        ("two-exc-exits", lambda P, G: ["enter"] + some(G) + [X(), P(), "enter"] + some(G) + [X(), P()] + G()),
        ("exc-exit-no-new-record", lambda P, G: ["enter"] + G() + [X()] + G()),
    ]


def gen_hist_structured(rng, i):
    ts = hist_templates(rng)
    name, f = ts[i % len(ts)]
    return hist_case(rng, "history-structured", f, style=rng.choice([None, "small", "big"]))


def gen_hist_random(rng):
    def events_of(P, G):
        evs, depth = [], 0
        for _ in range(rng.randrange(5, 22)):
            r = rng.random()
            if r < 0.16 and depth < 3:
                evs.append("enter")
                depth += 1
            elif r < 0.34 and depth > 0:
                evs.append(leave_exc(rng) if rng.random() < 0.6 else LEAVE)
                depth -= 1
            elif r < 0.52:
                evs.append(P())
            else:
                evs.extend(G(rng.randrange(1, 4)))
        if rng.random() < 0.7:
            while depth > 0 and rng.random() < 0.9:
                evs.append(leave_exc(rng) if rng.random() < 0.5 else LEAVE)
                depth -= 1
            evs.append(P())
            evs.extend(G())
        return evs
    return hist_case(rng, "history-random", events_of)


def hist_exhaustive_cases():
    """EVERY history of up to 3 steps over {enter, leave normally, leave by an exception, publish a new record,
    name(), ppid(), uids(), gids()} (a getter that only the platform slot memoises and one that the front-end slot
    memoises too, for each of the two files), each followed by: new record, all ten getters. Fixed records."""
    import random
    import itertools
    rng = random.Random(6005)
    alphabet = ["E", "Ln", "Lx", "P", "name", "ppid", "uids", "gids"]
    pid, tmap = 4242, [[1025, b"/dev/tty1".hex()], [34816, b"/dev/pts/0".hex()]]
    worlds = [gen_world(rng, pid, [1025, 34816], style="small")]
    for _ in range(4):
        worlds.append(gen_world(rng, pid, [1025, 34816], prev=worlds[-1], style="small"))
    out = []
    excs = itertools.cycle(HIST_EXC)
    for n in range(0, 4):
        for word in itertools.product(alphabet, repeat=n):
            k, evs = 0, []
            for sym in word:
                if sym == "E":
                    evs.append("enter")
                elif sym == "Ln":
                    evs.append(LEAVE)
                elif sym == "Lx":
                    evs.append({"leave": True, "with": next(excs)})
                elif sym == "P":
                    k += 1
                    evs.append({"publish": worlds[k]})
                else:
                    evs.append({"get": sym})
            evs.append({"publish": worlds[k + 1]})
            evs.extend({"get": g} for g in HIST_GETTERS)
            out.append({"kind": "hist", "family": "history-exhaustive", "pid": pid, "tck": 100, "btime": 1700000000,
                        "tmap": tmap, "init": worlds[0], "events": evs})
    return out


def hist_features(case):
    """what a history exercises (also used for the non-triviality of the case)"""
    f, depth, stack = set(), 0, []
    exc_left = False            # some block of this object was left by an exception so far
    pub_since = False           # a record was published since the last block (left by an exception) was entered
    worlds = 1
    for ev in case["events"]:
        if ev == "enter":
            stack.append({"pub": False})
            if len(stack) > 1:
                f.add("hist:nested-block")
            if exc_left:
                f.add("hist:reenter-after-exc-exit")
        elif isinstance(ev, dict) and "leave" in ev:
            if not stack:
                f.add("hist:unbalanced-leave")
                continue
            top = stack.pop()
            f.add("hist:leave-by-exception" if ev["leave"] else "hist:leave-normally")
            if ev["leave"]:
                f.add("hist:exc:" + str(ev.get("with", "LookupError")))
                if not stack:
                    exc_left, pub_since = True, False
            if stack and top["pub"]:
                stack[-1]["pub"] = True
        elif isinstance(ev, dict) and "publish" in ev:
            worlds += 1
            pub_since = True
            for b in stack:
                b["pub"] = True
        elif isinstance(ev, dict) and "get" in ev:
            if stack:
                f.add("hist:get-inside-block" + ("-after-new-record" if stack[0]["pub"] else ""))
            else:
                f.add("hist:get-outside-block")
                if exc_left and pub_since:
                    f.add("hist:get-outside-after-exc-exit-and-new-record")
                elif exc_left:
                    f.add("hist:get-outside-after-exc-exit")
    if stack:
        f.add("hist:block-open-at-end")
    f.add("hist:records-%s" % (worlds if worlds < 4 else "4+"))
    return f


GARBAGE = [b"x", b"-", b"12a", b"--1", b"1.5x", b"0x10", b"S", b"\xff", b"1-"]


def gen_malformed(rng):
    """Records outside the kernel's format: the model must still agree with the code (no spec)."""
    case = gen_case(rng, "mixed")
    case["family"] = "malformed"
    pid = case["pid"]
    kind = rng.choice(["truncate", "noparen", "garbage", "negative", "status_missing", "status_onectx", "status_noctx",
                       "thread_short", "thread_garbage", "empty", "state_ws"])
    if kind.startswith("thread") and not any("rec" in x for x in case["threads"]):
        kind = "garbage"                 # every thread of this case vanished mid-scan: nothing to damage
    case["malformed_kind"] = kind
    rec = case["stat"]["rec"]
    toks = [bytes([rec["state"]])] + [str(x).encode() for x in rec["f"]] + [str(x).encode() for x in (rec["tail"] or [])]
    head = str(pid).encode() + b" (" + bytes.fromhex(rec["comm"]) + b") "
    if kind == "truncate":
        k = rng.choice([0, 1, 2, 5, 12, 13, 15, 20, 36, 37, 39, 40])
        case["stat"] = {"raw": (head + b" ".join(toks[:k]) + b"\n").hex()}
    elif kind == "noparen":
        comm = bytes.fromhex(rec["comm"]).replace(b")", b"").replace(b"(", b"")
        variant = rng.choice(["none", "onlyl", "onlyr"])
        raw = {"none": str(pid).encode() + b" " + comm + b" ", "onlyl": str(pid).encode() + b" (" + comm + b" ",
               "onlyr": str(pid).encode() + b" " + comm + b") "}[variant] + b" ".join(toks) + b"\n"
        case["stat"] = {"raw": raw.hex()}
    elif kind == "garbage":
        i = rng.choice([0, 1, 4, 11, 12, 13, 14, 19, 36, 39])
        if i < len(toks):
            toks[i] = rng.choice(GARBAGE)
        case["stat"] = {"raw": (head + b" ".join(toks) + b"\n").hex()}
    elif kind == "negative":
        i = rng.choice([1, 4, 11, 12, 13, 14, 19, 36, 39])
        if i < len(toks):
            toks[i] = b"-" + toks[i]
        case["stat"] = {"raw": (head + b" ".join(toks) + b"\n").hex()}
    elif kind == "empty":
        case["stat"] = {"raw": rng.choice([b"", b"\n", b")", b"(", b") "]).hex()}
    elif kind == "state_ws":
        toks[0] = rng.choice([b"", b"\t", b"\x0b"])
        case["stat"] = {"raw": (head + b" ".join(toks) + b"\n").hex()}
    elif kind.startswith("status"):
        srec = case["status"]["rec"]
        lines = [b"Name:\t" + bytes.fromhex(srec["comm"]).replace(b"\\", b"\\\\").replace(b"\n", b"\\n")]
        lines += [bytes.fromhex(k) + b":\t" + bytes.fromhex(v) for k, v in srec["pre"]]
        if kind != "status_missing" or rng.random() < 0.5:
            lines.append(b"Uid:\t" + b"\t".join(str(x).encode() for x in srec["uid"]))
        if kind != "status_missing" or rng.random() < 0.5:
            lines.append(b"Gid:\t" + b"\t".join(str(x).encode() for x in srec["gid"][:rng.choice([4, 4, 2, 3])]))
        if kind != "status_missing" or rng.random() < 0.5:
            lines.append(b"Threads:\t%d" % srec["threads"])
        if kind != "status_noctx":
            lines.append(b"voluntary_ctxt_switches:\t%d" % srec["vol"])
            if kind != "status_onectx":
                lines.append(b"nonvoluntary_ctxt_switches:\t%d" % srec["nonvol"])
        case["status"] = {"raw": (b"\n".join(lines) + b"\n").hex()}
    elif kind in ("thread_short", "thread_garbage"):
        t = rng.choice([x for x in case["threads"] if "rec" in x])
        trec = t.pop("rec")
        ttoks = [bytes([trec["state"]])] + [str(x).encode() for x in trec["f"]]
        if kind == "thread_short":
            ttoks = ttoks[:rng.choice([0, 5, 11, 12, 13])]
        else:
            ttoks[rng.choice([11, 12])] = rng.choice(GARBAGE + [b""])
        t["tid"] = trec["pid"]
        t["raw"] = (str(trec["pid"]).encode() + b" (" + bytes.fromhex(trec["comm"]) + b") " + b" ".join(ttoks) + b"\n").hex()
    return case


FAMILIES = ["mixed", "paren", "statusname", "big", "oldkernel", "threads", "mixed", "statusname", "paren"]


def corpus_cases():
    """Lead witnesses first (L8, L18) — run on every check."""
    import random
    rng = random.Random(606)
    out = []
    for comm, uid in ((b"Uid:\t0\t0\t0", 1234), (b"Gid:\t0\t0\t0", 1234), (b"Threads:\t99", 1234), (b"x\rUid:\t0\t0\t0", 1234)):
        c = gen_case(rng, "mixed")
        c["family"] = "corpus"
        c["stat"]["rec"]["comm"] = comm.hex()
        c["status"]["rec"]["comm"] = comm.hex()
        c["status"]["rec"]["uid"] = [uid] * 4
        c["status"]["rec"]["gid"] = [uid] * 4
        c["status"]["rec"]["threads"] = 1
        out.append(c)
    c = gen_case(rng, "mixed")
    c["family"] = "corpus"
    t = gen_stat_rec(rng, c["pid"], style="small", comm=b"a) b", state=83)
    t["f"][10], t["f"][11] = 300, 400
    t["f"][9] = 0
    c["tck"] = 100
    c["threads"] = [{"rec": t}]
    separate_main_thread(c, rng)
    out.append(c)
    # 15-byte names that a relaxed ctxt_switches / Threads / Uid / Gid pattern would match inside the Name: line
    # (seeded C06-3: br'ctxt_switches:\\s*(\\d+)' reads 7 from a process named `ctxt_switches:7`)
    for comm in (b"ctxt_switches:7", b"_ctxt_switches:9", b"Threads:9999999", b"Uid:1\t2\t3\t4\t5\t6"[:15], b"Gid: 0 0 0"):
        c = gen_case(rng, "mixed")
        c["family"] = "corpus"
        c["stat"]["rec"]["comm"] = comm.hex()
        c["status"]["rec"]["comm"] = comm.hex()
        c["status"]["rec"]["vol"], c["status"]["rec"]["nonvol"] = 1234, 56
        c["status"]["rec"]["uid"] = [1234] * 4
        c["status"]["rec"]["gid"] = [1234] * 4
        out.append(c)
    # the public name(): the documented example, a near miss, a short name whose argv[0] starts with it, a 15-byte name
    # with an unrelated argv[0]
    for comm, d, b in ((b"gnome-keyring-d", b"/usr/bin", b"gnome-keyring-daemon"), (b"gnome-keyring-d", b"/usr/bin", b"gnome-keyring-Daemon"[:14] + b"X"),
                       (b"cat", b"/usr/bin", b"catalog"), (b"123456789012345", b"/usr/bin", b"python3"),
                       (b"kworker/u16:3-e", None, b"kworker")):
        c = gen_case(rng, "mixed")
        c["family"] = "corpus"
        c["stat"]["rec"]["comm"] = comm.hex()
        c["status"]["rec"]["comm"] = comm.hex()
        c["cmdline"] = {"dir": None if d is None else d.hex(), "base": b.hex(), "rest": [b"--start".hex()]}
        out.append(c)
    # /dev entries that are NOT character devices: a directory /dev/ttydir (st_rdev 0) for a daemon (tty_nr 0), and a block
    # device whose number equals the tty_nr
    for kind, rdev, tty in (("dir", 0, 0), ("blk", 34816, 34816), ("fifo", 0, 0)):
        c = gen_case(rng, "mixed")
        c["family"] = "corpus"
        c["stat"]["rec"]["f"][3] = tty
        c["dev"] = [[b"/dev/tty1".hex(), "chr", 1025], [b"/dev/ttydir".hex(), kind, rdev]]
        c.pop("dev2", None)
        out.append(c)
    # regression (fixed 9df9f82): a regular file /dev/tty.log (st_rdev 0) must not become the terminal of a daemon (tty_nr 0)
    c = gen_case(rng, "mixed")
    c["family"] = "corpus"
    c["stat"]["rec"]["f"][3] = 0
    c["dev"] = [[b"/dev/tty1".hex(), "chr", 1025], [b"/dev/tty.log".hex(), "other", 0]]
    c.pop("dev2", None)
    out.append(c)
    # history: /dev/pts/0 appears after the first terminal() call: the memoised map (first scan) answers
    c = gen_case(rng, "mixed")
    c["family"] = "corpus"
    c["stat"]["rec"]["f"][3] = 34816
    c["dev"] = [[b"/dev/tty1".hex(), "chr", 1025]]
    c["dev2"] = [[b"/dev/tty1".hex(), "chr", 1025], [b"/dev/pts/0".hex(), "chr", 34816]]
    out.append(c)
    return out


# ------------------------------------------------------------------------------ implementation side


class _FakeStat:
    """what get_terminal_map may look at in an os.stat() result"""
    def __init__(self, kind, rdev):
        self.st_rdev = rdev
        self.st_mode = {"chr": 0o020620, "dir": 0o040755, "blk": 0o060660, "fifo": 0o010644, "sock": 0o140755}.get(kind, 0o100644)
        self.st_ino, self.st_dev, self.st_nlink, self.st_uid, self.st_gid, self.st_size = 1, 5, 1, 0, 0, 0


class _DevWorld:
    """The abstract /dev of a case. The REAL glob module lists a scratch tree that holds one empty file per
    entry (so pattern matching is glob's own); the results are handed back as the virtual `/dev/...` paths
    in the case's listing order; os.stat of a virtual path answers from the case."""
    def __init__(self):
        self.root = tempfile.mkdtemp(prefix="psv-c06-dev-")
        self.entries = {}      # virtual path -> (kind, rdev)
        self.order = []
        self.stat_calls = 0
        self.glob_calls = []

    def set(self, dev):
        shutil.rmtree(os.path.join(self.root, "dev"), ignore_errors=True)
        os.makedirs(os.path.join(self.root, "dev", "pts"))
        # decoys that the patterns must NOT match
        for decoy in ("dev/console", "dev/ptmx", "dev/null", "dev/pts/.hidden", "dev/xtty9"):
            open(os.path.join(self.root, decoy), "wb").close()
        self.entries, self.order = {}, []
        for hx, kind, rdev in dev or []:
            path = bytes.fromhex(hx).decode()
            self.entries[path] = (kind, rdev)
            self.order.append(path)
            if kind == "dir":
                os.makedirs(self.root + path, exist_ok=True)     # glob lists directories too
            else:
                open(self.root + path, "wb").close()

    def glob(self, pattern, **kw):
        self.glob_calls.append(pattern)
        if isinstance(pattern, str) and pattern.startswith("/dev/"):
            n = len(self.root)
            found = [p[n:] for p in _real_glob.glob(self.root + pattern, **kw)]
            pos = {p: i for i, p in enumerate(self.order)}
            return sorted(found, key=lambda p: pos.get(p, len(pos)))
        return _real_glob.glob(pattern, **kw)

    def stat(self, path, *a, **kw):
        if isinstance(path, str) and path.startswith("/dev/"):
            self.stat_calls += 1
            kind, rdev = self.entries.get(path, ("vanished", 0))
            if kind == "vanished":
                raise FileNotFoundError(2, "No such file or directory", path)
            return _FakeStat(kind, rdev)
        return os.stat(path, *a, **kw)

    def close(self):
        shutil.rmtree(self.root, ignore_errors=True)


class _Shim:
    """module stand-in: the listed attributes are overridden, everything else is the real module's"""
    def __init__(self, real, **over):
        self.__dict__["_real"] = real
        self.__dict__.update(over)

    def __getattr__(self, name):
        return getattr(self.__dict__["_real"], name)


class _EsrchFile:
    """task/<tid>/stat that was opened in time, but whose thread is gone when it is read: read() → ESRCH"""
    def __enter__(self):
        return self

    def __exit__(self, *a):
        return False

    def read(self, *a):
        raise ProcessLookupError(3, "No such process")

    def close(self):
        pass


class Impl:
    def __init__(self, ctx):
        self.ps = get_ps(ctx)
        self.plat = self.ps._pslinux
        self.fp = fakeproc.FakeProc(self.ps, prefix="psv-c06-")
        self.saved_tck = self.plat.CLOCK_TICKS
        rhs = c06_facts.clock_ticks_rhs(c06_facts.extract.parse_module(ctx.snap, "_pslinux.py"))
        import ast as _ast
        self.tck_code = None if rhs is None else compile(_ast.Expression(rhs), "<CLOCK_TICKS>", "eval")
        self.dev = _DevWorld()
        self.task_dir = None       # path whose os.listdir answer is scripted
        self.task_listing = None
        self.gone_path = None      # path whose os.stat raises FileNotFoundError (process gone at the end of threads())
        self.esrch = {}            # path -> "open" | "read": where ProcessLookupError (ESRCH) is raised for that file
        posix = self.ps._psposix
        self.saved = [(posix, "glob", posix.glob), (posix, "os", posix.os), (self.plat, "os", self.plat.os),
                      (self.plat, "open_binary", self.plat.open_binary)]
        self.real_open_binary = self.plat.open_binary
        self.plat.open_binary = self._open_binary
        posix.glob = _Shim(_real_glob, glob=self.dev.glob)
        posix.os = _Shim(os, stat=self.dev.stat)
        self.plat.os = _Shim(os, listdir=self._listdir, stat=self._stat, path=_Shim(os.path, exists=self._exists))

    def world_clock_ticks(self, case):
        """CLOCK_TICKS as the module's OWN defining expression gives it in the world of the case: the right-hand side of
        `CLOCK_TICKS = …` (from the snapshot's source) is evaluated in the module's namespace with an `os` whose
        sysconf('SC_CLK_TCK') answers the case's tick rate. A constant there (`= 100`) shows on every other rate.
        `tck_own`: the value the module computed at import on this machine is left in place."""
        if case.get("tck_own"):
            return self.saved_tck
        if self.tck_code is None:
            return case["tck"]
        tck = case["tck"]

        def sysconf(name):
            return tck if name in ("SC_CLK_TCK", os.sysconf_names.get("SC_CLK_TCK")) else os.sysconf(name)
        ns = dict(vars(self.plat))
        ns["os"] = _Shim(os, sysconf=sysconf)
        try:
            return eval(self.tck_code, ns)          # noqa: S307 — the module's own expression, from the snapshot
        except Exception:  # noqa: BLE001 — an expression that cannot be evaluated in isolation: the module's own value
            return self.saved_tck

    def _open_binary(self, fname, *a, **kw):
        how = self.esrch.get(fname)
        if how == "open":
            raise ProcessLookupError(3, "No such process", fname)
        if how == "read":
            return _EsrchFile()
        return self.real_open_binary(fname, *a, **kw)

    def _listdir(self, path="."):
        if self.task_dir is not None and path == self.task_dir:
            return [str(t) for t in self.task_listing]
        return os.listdir(path)

    def _exists(self, path):
        # a process that is gone has no /proc/<pid>/stat either (wrap_exceptions looks there)
        if self.gone_path is not None and path == self.gone_path + "/stat":
            return False
        return os.path.exists(path)

    def _stat(self, path, *a, **kw):
        if self.gone_path is not None and path == self.gone_path:
            raise FileNotFoundError(2, "No such file or directory", path)
        return os.stat(path, *a, **kw)

    def close(self):
        self.plat.CLOCK_TICKS = self.saved_tck
        for mod, name, old in self.saved:
            setattr(mod, name, old)
        self.dev.close()
        self.fp.close()
        fakeproc.reset_psutil_state(self.ps)

    def run(self, case, files):
        """Serve `files` (as rendered by the Lean driver) and call the real methods."""
        ps, fp = self.ps, self.fp
        pid = case["pid"]
        fp.clear()
        fakeproc.reset_psutil_state(ps)
        self.plat.CLOCK_TICKS = self.world_clock_ticks(case)
        dev = case["dev"] if "dev" in case else [[p, "chr", nr] for nr, p in case["tmap"]]
        self.dev.set(dev)
        self.task_dir = self.gone_path = None
        if files.get("procstat") is not None:
            fp.write("stat", bytes.fromhex(files["procstat"]))
        else:
            fp.write("stat", "cpu  1 2 3 4 5 6 7 8 9 10\nctxt 5\nbtime %d\nprocesses 7\n" % case["btime"])
        stat = bytes.fromhex(files["stat"])
        well_formed = "rec" in case["stat"]
        d = "%d/" % pid
        # the constructor itself reads stat (create_time): build the object on a sane record when the
        # case's record is malformed, then swap the file in.
        sane = b"%d (x) S 1 1 1 0 -1 0 0 0 0 0 0 0 0 0 20 0 1 0 5 0 0 0 0 0 0 0 0 0 0 0 0 0 0 0 17 0 0 0 0 0 0\n" % pid
        fp.write(d + "stat", stat if well_formed else sane)
        fp.write(d + "cmdline", bytes.fromhex(files.get("cmdline") or ""))
        if files.get("status") is not None:
            fp.write(d + "status", bytes.fromhex(files["status"]))
        fp.mkdir(d + "task")
        for tid, hx in files["threads"]:
            fp.write(d + "task/%d/stat" % tid, bytes.fromhex(hx))
        self.esrch = {}
        for t in case["threads"]:
            if t.get("vanished"):
                fp.mkdir(d + "task/%d" % t["tid"])       # listed, but its stat file is gone when opened
                if t.get("esrch"):
                    self.esrch["%s/%d/task/%d/stat" % (fp.root, pid, t["tid"])] = t["esrch"]
        if "listing" in case:
            self.task_dir = "%s/%d/task" % (fp.root, pid)
            self.task_listing = case["listing"]
        gone = case.get("alive") is False
        out = {}
        made = fakeproc.outcome(ps.Process, pid)
        if made["kind"] != "ok":
            return {m: made for m in METHODS_STAT + ["threads"] + (METHODS_STATUS if files.get("status") is not None else [])}
        p = made["value"]
        if gone:
            self.gone_path = "%s/%d" % (fp.root, pid)
        if not well_formed:
            fp.write(d + "stat", stat)
            p._create_time = None
        has_status = files.get("status") is not None
        order = METHODS_STAT + ["threads"] + (METHODS_STATUS if has_status else [])

        def getter(m):
            if m == "ppid" and not well_formed:
                # the front end's ppid() first re-creates Process(pid) (PID-reuse check), which parses the
                # malformed record for create_time: drive the platform method directly for malformed input
                return p._proc.ppid
            return getattr(p, m)
        # (1) plain calls, one after the other
        for m in order:
            out[m] = fakeproc.outcome(getter(m))
        # the PLATFORM name(): the kernel-name clause itself, below the front end's cmdline rule for 15-byte names
        out["proc_name"] = fakeproc.outcome(p._proc.name)
        # (2) the same getters inside ONE oneshot() block: every getter after the first runs on warm caches
        #     (memoised stat/status parses, cached cpu_times/ppid/uids); threads() and the status getters come
        #     after seven stat getters, and threads()/cpu_times()/uids() are asked a second time at the end.
        if not well_formed:
            p._create_time = None
        try:
            with p.oneshot():
                for m in order:
                    out["oneshot:" + m] = fakeproc.outcome(getter(m))
                # every getter a SECOND time: now every cache is warm (stat parse, status text, front-end caches)
                for m in order:
                    out["oneshot2:" + m] = fakeproc.outcome(getter(m))
                # the front end answers create_time() from Process._create_time: ask the platform method itself,
                # which inside oneshot() computes from the memoised stat parse + the pinned BOOT_TIME
                out["oneshot_proc:proc_name"] = fakeproc.outcome(p._proc.name)
                if well_formed:
                    out["oneshot_proc:create_time"] = fakeproc.outcome(p._proc.create_time)
                    out["oneshot_proc:ppid"] = fakeproc.outcome(p._proc.ppid)
                    # … and once more: a getter that wrote into the memoised dict would answer differently now
                    out["oneshot_proc2:create_time"] = fakeproc.outcome(p._proc.create_time)
        except BaseException as e:  # noqa: BLE001 — oneshot() itself failing is an observable
            if isinstance(e, (KeyboardInterrupt, SystemExit)):
                raise
            out["oneshot:enter"] = {"kind": "exc", "exc": type(e).__name__}
        # (3) as_dict(attrs=…) (enters oneshot() internally) — only when no plain getter raised, because one
        #     raising getter aborts the whole dict
        if well_formed and all(o["kind"] == "ok" for k, o in out.items() if ":" not in k):
            attrs = [m for m in order]
            r = fakeproc.outcome(p.as_dict, attrs=attrs)
            if r["kind"] == "ok" and isinstance(r["value"], dict):
                for m in attrs:
                    if m in r["value"]:
                        out["as_dict:" + m] = {"kind": "ok", "value": r["value"][m]}
                    else:
                        out["as_dict:" + m] = {"kind": "exc", "exc": "MissingKey"}
            else:
                out["as_dict:call"] = r if r["kind"] == "exc" else {"kind": "exc", "exc": "NotADict"}
        plain_ok = well_formed and all(o["kind"] == "ok" for k, o in out.items() if ":" not in k)
        # (4) the objects process_iter() hands out, and process_iter(attrs=[...]).info (fresh, then from the
        #     warm _pmap cache): the fake procfs lists exactly this PID
        if plain_ok and case.get("iter_modes", True):
            ps.process_iter.cache_clear()
            it = fakeproc.outcome(lambda: [q for q in ps.process_iter() if q.pid == pid])
            if it["kind"] == "ok" and len(it["value"]) == 1:
                q = it["value"][0]
                for m in order:
                    out["iter:" + m] = fakeproc.outcome(getattr(q, m))
            else:
                out["iter:call"] = it if it["kind"] == "exc" else {"kind": "exc", "exc": "PidNotYielded"}
            for tag in ("info", "info2"):
                if tag == "info":
                    ps.process_iter.cache_clear()
                it = fakeproc.outcome(lambda: [q for q in ps.process_iter(attrs=list(order)) if q.pid == pid])
                if it["kind"] == "ok" and len(it["value"]) == 1 and isinstance(getattr(it["value"][0], "info", None), dict):
                    info = it["value"][0].info
                    for m in order:
                        out[tag + ":" + m] = ({"kind": "ok", "value": info[m]} if m in info
                                              else {"kind": "exc", "exc": "MissingKey"})
                else:
                    out[tag + ":call"] = it if it["kind"] == "exc" else {"kind": "exc", "exc": "PidNotYielded"}
        # (5) BOOT_TIME is pinned by now: /proc/stat changes (clock step), a NEW Process object is asked
        if files.get("procstat2") is not None and well_formed:
            fp.write("stat", bytes.fromhex(files["procstat2"]))
            q = fakeproc.outcome(ps.Process, pid)
            out["create_time_pinned"] = fakeproc.outcome(q["value"].create_time) if q["kind"] == "ok" else q
            # … and the public boot_time() after it: not cached, re-reads /proc/stat (C06_time_call_history)
            out["boot_time_now"] = fakeproc.outcome(ps.boot_time)
        # (6) /dev changes after get_terminal_map() was memoised
        if "dev2" in case and well_formed:
            self.dev.set(case["dev2"])
            out["terminal_stale"] = fakeproc.outcome(p.terminal)
        return out


    # -------------------------------------------------------------------------- histories

    def run_hist(self, case, files):
        """Play a history on ONE Process object with real `with p.oneshot():` blocks; returns (observations of the
        `get` events in order, extra observables of the oneshot() machinery itself)."""
        ps, fp = self.ps, self.fp
        pid = case["pid"]
        fp.clear()
        fakeproc.reset_psutil_state(ps)
        self.plat.CLOCK_TICKS = self.world_clock_ticks(case)
        self.dev.set([[p, "chr", nr] for nr, p in case["tmap"]])
        self.task_dir = self.gone_path = None
        self.esrch = {}
        fp.write("stat", "cpu  1 2 3 4 5 6 7 8 9 10\nctxt 5\nbtime %d\nprocesses 7\n" % case["btime"])
        worlds = files["worlds"]
        d = "%d/" % pid

        def publish(k):
            fp.write(d + "stat", bytes.fromhex(worlds[k]["stat"]))
            fp.write(d + "status", bytes.fromhex(worlds[k]["status"]))
        publish(0)
        fp.write(d + "cmdline", b"")
        fp.mkdir(d + "task")
        evs = case["events"]
        n_gets = sum(1 for ev in evs if isinstance(ev, dict) and "get" in ev)
        made = fakeproc.outcome(ps.Process, pid)
        if made["kind"] != "ok":
            return [made] * n_gets, {}
        p = made["value"]
        obs, extra = [], {}
        st = {"i": 0, "w": 0}

        class _Abort(BaseException):
            pass

        def make_exc(name):
            if name == "AccessDenied":
                return ps.AccessDenied(pid)
            if name == "ZombieProcess":
                return ps.ZombieProcess(pid)
            if name == "BaseException":
                return _Abort("not an Exception subclass")
            if name == "StopIteration":
                return StopIteration("raised by the caller's own code")
            if name == "OSError":
                return PermissionError(13, "Permission denied")
            return LookupError("application error inside the block")

        def play(depth):
            while st["i"] < len(evs):
                ev = evs[st["i"]]
                st["i"] += 1
                if ev == "enter":
                    how = None
                    try:
                        with p.oneshot():
                            how = play(depth + 1)
                            if how is not None:
                                raise how
                    except BaseException as e:  # noqa: BLE001
                        if e is not how:
                            if isinstance(e, (KeyboardInterrupt, SystemExit)):
                                raise
                            # the oneshot() machinery itself raised (or swallowed and replaced the exception)
                            extra.setdefault("oneshot", {"kind": "exc", "exc": type(e).__name__})
                    else:
                        if how is not None:
                            extra.setdefault("oneshot", {"kind": "exc", "exc": "ExceptionSwallowed"})
                elif isinstance(ev, dict) and "leave" in ev:
                    if depth == 0:
                        continue
                    return make_exc(ev.get("with")) if ev["leave"] else None
                elif isinstance(ev, dict) and "publish" in ev:
                    st["w"] += 1
                    publish(st["w"])
                else:
                    obs.append(fakeproc.outcome(getattr(p, ev["get"])))
            return None
        play(0)
        while len(obs) < n_gets:
            obs.append({"kind": "exc", "exc": "NotCalled"})
        return obs, extra


BASE_METHOD = {"terminal_stale": "terminal", "create_time_pinned": "create_time", "proc_name": "name",
               "boot_time_now": "boot_time"}


def canon_impl(m, o):
    """implementation outcome → JSON-comparable structure (floats stay floats)"""
    m = BASE_METHOD.get(m, m)
    if o["kind"] == "exc":
        return {"exc": o["exc"]}
    v = o["value"]
    try:
        if m == "name":
            return {"ok": os.fsencode(v).hex()}
        if m in ("ppid", "cpu_num", "num_threads"):
            return {"ok": int(v)} if type(v) is int else {"ok": "not-int:%r" % (v,)}
        if m == "status":
            return {"ok": str(v)}
        if m == "cpu_times":
            return {"ok": [float(getattr(v, k)) for k in ("user", "system", "children_user", "children_system", "iowait")]}
        if m in ("create_time", "boot_time"):
            return {"ok": float(v)}
        if m == "terminal":
            return {"ok": None if v is None else os.fsencode(v).hex()}
        if m in ("uids", "gids"):
            return {"ok": [int(v.real), int(v.effective), int(v.saved)]}
        if m == "num_ctx_switches":
            return {"ok": [int(v.voluntary), int(v.involuntary)]}
        if m == "threads":
            return {"ok": [[int(t.id), float(t.user_time), float(t.system_time)] for t in v]}
    except Exception as e:  # a value of the wrong shape is an observable too
        return {"ok": "bad-shape:%s:%r" % (type(e).__name__, v)}
    return {"ok": repr(v)}


def close(f, q, tol=TOL2):
    """double `f` vs exact rational q = [num, den]: within the rounding bound of the operations the code performs"""
    if not isinstance(f, float) or f != f or f in (float("inf"), float("-inf")):
        return False
    exact = Fraction(q[0], q[1])
    return abs(Fraction(f) - exact) <= tol * abs(exact)


def agrees(m, impl, exp):
    """does the canonical implementation outcome equal the model/spec outcome `exp`?"""
    if exp is None:
        return True
    m = BASE_METHOD.get(m, m)
    if "exc" in exp or "exc" in impl:
        if m == "status" and "ok" in exp and isinstance(exp["ok"], dict) and exp["ok"].get("nonascii"):
            return impl in ({"exc": "UnicodeDecodeError"}, {"ok": "?"})
        return impl == exp
    a, b = impl["ok"], exp["ok"]
    if m == "status" and isinstance(b, dict):
        return a == "?"
    if m == "terminal" and isinstance(b, dict) and "any_of" in b:
        # Spec.TerminalOk: the path of SOME character device with that number; None iff there is none
        return (a is None and not b["any_of"]) or a in b["any_of"]
    if m == "cpu_times":
        return isinstance(a, list) and len(a) == 5 and all(close(x, q) for x, q in zip(a, b))
    if m == "create_time":
        return close(a, b, TOL3)
    if m == "boot_time":
        return close(a, b, U)
    if m == "threads":
        if not isinstance(a, list) or len(a) != len(b):
            return False
        return all(x[0] == y[0] and close(x[1], y[1]) and close(x[2], y[2]) for x, y in zip(a, b))
    return a == b


def fix_listing(case):
    """keep `listing` (os.listdir order) consistent with the thread set after a case was edited"""
    tids = [tid_of(t) for t in case["threads"]]
    if "listing" in case and sorted(case["listing"]) != sorted(tids):
        case["listing"] = sorted(tids, reverse=True)
    return case


def line_of(case):
    if case.get("kind") == "hist":
        strip = lambda ev: ({"leave": ev["leave"]} if isinstance(ev, dict) and "leave" in ev else ev)
        return {"op": "hist", "tck": case["tck"], "tmap": case["tmap"], "init": case["init"],
                "events": [strip(ev) for ev in case["events"]]}
    fix_listing(case)
    d = {"op": "proc", "tck": case["tck"], "btime": case["btime"], "tmap": case["tmap"], "stat": case["stat"],
         "status": case.get("status"), "threads": case["threads"]}
    for k in ("dev", "dev2", "procstat", "procstat2", "listing", "alive", "cmdline"):
        if k in case:
            d[k] = case[k]
    return d


def evaluate(impl, case, ans):
    """Run the implementation on the driver's files; return list of (method, impl, model, spec, kind)."""
    if "bad" in ans:
        raise InfraError("driver rejected case %r: %s" % (case.get("family"), ans))
    if case.get("kind") == "hist":
        return evaluate_hist(impl, case, ans)
    outs = impl.run(case, ans["files"])
    rows = []
    for key, o in outs.items():
        m = key.split(":")[-1]            # "oneshot:threads" → "threads"
        if m in ("enter", "call"):
            # oneshot() / as_dict() itself raised: never promised, never modelled
            rows.append((key, {"exc": o.get("exc")}, None, {"ok": "no exception"}, "spec"))
            continue
        ci = canon_impl(m, o)
        mo, sp = ans["model"].get(m), ans["spec"].get(m)
        kind = None
        if sp is not None and not agrees(m, ci, sp):
            kind = "spec"
        elif not agrees(m, ci, mo):
            kind = "model"
        rows.append((key, ci, mo, sp, kind))
    return rows


def evaluate_hist(impl, case, ans):
    """rows (key, impl, model, spec, kind) of a history: one per `get` event, key `hist:<k>:<getter>`. The spec of an
    observation is the LIST of exact reports the property allows (outside every block: one, for the record published
    at that moment)."""
    outs, extra = impl.run_hist(case, ans["files"])
    gets = [ev["get"] for ev in case["events"] if isinstance(ev, dict) and "get" in ev]
    rows = []
    for key, o in extra.items():
        rows.append(("hist:" + key, {"exc": o.get("exc")}, None, {"ok": "no exception of its own"}, "spec"))
    for k, (g, o) in enumerate(zip(gets, outs)):
        ci = canon_impl(g, o)
        mo = ans["model"][k] if k < len(ans["model"]) else None
        sp = ans["spec"][k] if ans.get("spec") else None
        kind = None
        if sp is not None and not any(agrees(g, ci, {"ok": v}) for v in sp["any_of"]):
            kind = "spec"
        elif mo is not None and not agrees(g, ci, mo):
            kind = "model"
        rows.append(("hist:%d:%s" % (k, g), ci, mo, sp, kind))
    return rows


# ------------------------------------------------------------------------------ features / distribution


def comm_features(comm):
    f = set()
    if b")" in comm:
        f.add("comm:rparen")
    if b"(" in comm:
        f.add("comm:lparen")
    if b" " in comm or b"\t" in comm:
        f.add("comm:blank")
    if b"\n" in comm:
        f.add("comm:newline")
    if b"\r" in comm:
        f.add("comm:cr")
    if b"\\" in comm:
        f.add("comm:backslash")
    if len(comm) == 15:
        f.add("comm:len15")
    if len(comm) == 0:
        f.add("comm:empty")
    try:
        comm.decode("utf-8")
    except UnicodeDecodeError:
        f.add("comm:non-utf8")
    if re.search(rb"(Uid|Gid|Threads|ctxt_switches):\t", comm):
        f.add("comm:status-key")
    return f


def case_features(case):
    if case.get("kind") == "hist":
        return hist_features(case)
    f = set()
    st = case["stat"]
    if "rec" in st:
        r = st["rec"]
        f |= comm_features(bytes.fromhex(r["comm"]))
        if r["tail"] is None:
            f.add("stat:old-kernel")
        mx = max([abs(x) for x in r["f"]] + (r["tail"] or [0]))
        f.add("counters:>=2^53" if mx >= 2 ** 53 else ("counters:>=2^31" if mx >= 2 ** 31 else "counters:small"))
        f.add("state:documented" if r["state"] in LETTERS_DOC else "state:other")
        if r["f"][3] in [e[0] for e in case["tmap"]]:
            f.add("tty:mapped")
    else:
        f.add("stat:raw")
    f.add("threads:%s" % ("1" if len(case["threads"]) == 1 else "n"))
    kinds = {k for _, k, _ in case.get("dev", [])}
    for k in kinds:
        f.add("dev:" + k)
    if "dev" in case and not case["dev"]:
        f.add("dev:empty")
    if len({r for _, k, r in case.get("dev", []) if k == "chr"}) < len([1 for _, k, _ in case.get("dev", []) if k == "chr"]):
        f.add("dev:two-names-one-device")
    if "dev2" in case:
        f.add("dev2:changed" if case["dev2"] != case["dev"] else "dev2:same")
    if "procstat2" in case:
        f.add("procstat2:clock-step")
    if any(t.get("vanished") for t in case["threads"]):
        f.add("threads:vanished-mid-scan")
        for t in case["threads"]:
            if t.get("vanished"):
                f.add("threads:vanish-signal-" + ("esrch-" + t["esrch"] if t.get("esrch") else "enoent"))
        if case.get("alive") is False:
            f.add("threads:process-gone-at-end")
    elif case.get("alive") is False:
        f.add("threads:process-gone-nothing-vanished")
    if case.get("btime") == 0:
        f.add("btime:zero")
        if "procstat2" in case:
            f.add("procstat2:second-call-after-zero-btime-pin")
    if "listing" in case and len(case["listing"]) > 1:
        f.add("listing:in-name-order" if case["listing"] == sorted(case["listing"], key=str) else "listing:not-in-name-order")
        if sorted(case["listing"], key=str) != sorted(case["listing"]):
            f.add("listing:name-order!=numeric-order")
    pcomm = bytes.fromhex(st["rec"]["comm"]) if "rec" in st else None
    for t in case["threads"]:
        if "rec" in t:
            tc = bytes.fromhex(t["rec"]["comm"])
            if b")" in tc:
                f.add("thread-comm:rparen")
            if b") " in tc:
                f.add("thread-comm:rparen-blank")
            if tc != pcomm:
                f.add("thread-comm:differs-from-process-name")
                if t["rec"]["pid"] == case["pid"]:
                    f.add("thread-comm:main-thread-renamed")
            for ft in comm_features(tc) & {"comm:newline", "comm:non-utf8", "comm:len15", "comm:lparen", "comm:empty"}:
                f.add("thread-" + ft)
    if case.get("malformed_kind"):
        f.add("malformed:" + case["malformed_kind"])
    cl = case.get("cmdline")
    f.add("cmdline:present" if cl else "cmdline:empty")
    if cl and pcomm is not None:
        base = bytes.fromhex(cl["base"])
        if len(pcomm) >= 15:
            f.add("name15:argv0-" + ("is-the-comm" if base == pcomm else "extends-the-comm" if base.startswith(pcomm)
                                     else "near-miss" if base[:14] == pcomm[:14] else "other"))
        elif pcomm and base.startswith(pcomm):
            f.add("name<15:argv0-starts-with-the-comm")
    elif pcomm is not None and len(pcomm) >= 15:
        f.add("name15:no-cmdline")
    if case.get("tck_own"):
        f.add("tck:module-own-value")
    else:
        f.add("tck:%s" % case["tck"])
    return f


def is_nontrivial(case):
    """a case is non-trivial when some name contains a delimiter/blank/escape/non-UTF-8 byte or imitates a
    status line, or counters reach 2^31, or the record is an old-kernel/malformed one"""
    f = case_features(case)
    if case.get("kind") == "hist":
        # the kernel's answer changes while the object lives, and a getter is asked after it changed
        return bool(f & {"hist:get-outside-after-exc-exit-and-new-record", "hist:get-inside-block-after-new-record"}
                    or ("hist:get-outside-block" in f and "hist:records-1" not in f))
    return bool(f & {"comm:rparen", "comm:lparen", "comm:blank", "comm:newline", "comm:cr", "comm:backslash",
                     "comm:non-utf8", "comm:status-key", "thread-comm:rparen", "stat:old-kernel", "stat:raw",
                     "counters:>=2^53", "counters:>=2^31"} or any(x.startswith("malformed") for x in f))


# ------------------------------------------------------------------------------ correspondence


def record(res, case, rows, source):
    """Count + record the first disagreement of a case. Returns True if any."""
    for m, ci, mo, sp, kind in rows:
        if "exc" in ci:
            res.count("impl-exc:" + str(ci["exc"]))
        res.count("observed:" + (m.split(":")[0] if ":" in m else "plain"))
    for m, ci, mo, sp, kind in rows:
        if kind == "spec":
            res.disagree("spec", {"case": case, "method": m, "source": source}, ci, mo, sp,
                         note="%s(): implementation differs from what the kernel record promises" % m)
            return True
    for m, ci, mo, sp, kind in rows:
        if kind == "model":
            res.disagree("model", {"case": case, "method": m, "source": source}, ci, mo, sp,
                         note="%s(): implementation differs from the Lean model" % m)
            return True
    return False


def exhaustive_cases():
    import random
    rng = random.Random(99)
    out = []
    base = gen_case(rng, "mixed")
    base["family"] = "exhaustive"
    # the main thread's own record (tid == pid), whose counters differ from the process-level totals
    main = [t for t in base["threads"] if "rec" in t and t["rec"]["pid"] == base["pid"]]
    # every state byte 0..255 (NUL excluded: cannot be printed by %c? it can, keep it)
    for b in range(256):
        c = dict(base, stat={"rec": dict(base["stat"]["rec"], state=b, comm=b"a b".hex())}, threads=main)
        out.append(c)
    n_state = len(out)
    # every comm of length <= 3 over {(, ), space, newline, a, 0xff} for the process and its only thread
    alpha = [b"(", b")", b" ", b"\n", b"a", b"\xff"]
    comms = [b""]
    layer = [b""]
    for _ in range(3):
        layer = [x + a for x in layer for a in alpha]
        comms += layer
    trec = main[0]["rec"]
    for cm in comms:
        c = dict(base, stat={"rec": dict(base["stat"]["rec"], comm=cm.hex())},
                 status={"rec": dict(base["status"]["rec"], comm=cm.hex())},
                 threads=[{"rec": dict(trec, comm=cm.hex())}])
        out.append(c)
    # every 15-byte name <suffix of a status key><sep><digits> (relaxed_names): process name in stat AND status
    rel = relaxed_names()
    for cm in rel:
        c = dict(base, stat={"rec": dict(base["stat"]["rec"], comm=cm.hex())},
                 status={"rec": dict(base["status"]["rec"], comm=cm.hex())}, threads=main, iter_modes=False)
        c.pop("cmdline", None)
        cl = gen_cmdline(rng, cm)            # 15-byte names: the front end consults argv[0]
        if cl is not None:
            c["cmdline"] = cl
        out.append(c)
    # THREAD names (the comm of a thread is its own: prctl(PR_SET_NAME) / pthread_setname_np act on one task): every
    # comm of length <= 3 over the alphabet, and every `x) yz` around the sequence that ends the name field, as names
    # of threads of a process called `main` (7 secondary threads per case, each with its own counters)
    alpha1 = [b""] + alpha
    tnames = [c for c in comms if c] + [x + b") " + y + z for x in alpha1 for y in alpha1 for z in alpha1]
    seen, uniq = set(), []
    for nm in tnames:
        if nm not in seen:
            seen.add(nm)
            uniq.append(nm)
    per = 7
    for a in range(0, len(uniq), per):
        chunk = uniq[a:a + per]
        ths = [{"rec": dict(trec, comm=b"main".hex())}]
        for k, nm in enumerate(chunk):
            f = list(trec["f"])
            f[10], f[11] = 1000 + 17 * (a + k), 5 + 3 * (a + k)
            f[9], f[12] = 7, 9           # the columns a first-`)` parse would read instead
            ths.append({"rec": dict(trec, pid=base["pid"] + 1 + k, comm=nm.hex(), f=f)})
        c = dict(base, stat={"rec": dict(base["stat"]["rec"], comm=b"main".hex())},
                 status={"rec": dict(base["status"]["rec"], comm=b"main".hex())}, threads=tid_order(ths),
                 iter_modes=False)
        c["listing"] = sorted((tid_of(t) for t in ths), reverse=True)
        c.pop("alive", None)
        out.append(c)
    return out, n_state, len(comms), len(rel), len(uniq)


def run_cases(ctx, impl, cases, res, source_tag=None):
    CH = 1500
    total = 0
    for a in range(0, len(cases), CH):
        chunk = cases[a:a + CH]
        answers = ctx.driver().batch([line_of(c) for c in chunk])
        total += len(chunk)
        for c, ans in zip(chunk, answers):
            rows = evaluate(impl, c, ans)
            feats = case_features(c)
            res.count("family:" + c["family"])
            for f in feats:
                res.count(f)
            if c.get("kind") == "hist":
                key = ("hist", tuple((w["stat"], w["status"]) for w in ans["files"]["worlds"]),
                       tuple(ev if isinstance(ev, str) else tuple(sorted((k, str(v)) for k, v in ev.items() if k != "publish"))
                             for ev in c["events"]), c["tck"])
                res.case(key, nontrivial=is_nontrivial(c), sample=None)
                record(res, c, rows, source_tag or c["family"])
                continue
            sample = None
            if len(res.samples) < 6 and c["family"] in ("corpus", "paren", "statusname", "malformed", "oldkernel", "big"):
                if not any(s["family"] == c["family"] for s in res.samples):
                    sample = {"family": c["family"], "stat_file": bytes.fromhex(ans["files"]["stat"]).decode("latin-1"),
                              "impl": {m: ci for m, ci, _, _, _ in rows if m in ("name", "cpu_times", "uids", "threads")}}
            key = (ans["files"]["stat"], ans["files"].get("status"), tuple(map(tuple, ans["files"]["threads"])), c["tck"], c["btime"])
            res.case(key, nontrivial=is_nontrivial(c), sample=sample)
            record(res, c, rows, source_tag or c["family"])
    return total


def correspond(ctx, res):
    impl = Impl(ctx)
    try:
        res.rule = ("one case = one simulated process (stat record, status record, 1..8 thread records, tick rate, boot "
                    "time, tty map) served through a fake procfs to the real Process methods; non-trivial = some name "
                    "contains a parenthesis/blank/newline/CR/backslash/non-UTF-8 byte or imitates a status line, or a "
                    "counter >= 2^31, or the record is an old-kernel or malformed one; distinct = distinct rendered files")
        live = validate_renderers(ctx, res)
        # the anchor CLOCK_TICKS: the module's own value (computed at import, before anything is patched) is the system's
        own, sysv = impl.saved_tck, os.sysconf("SC_CLK_TCK")
        res.count("clock-ticks:module-value-%s-sysconf" % ("equals" if own == sysv else "DIFFERS-FROM"))
        if own != sysv:
            res.disagree("spec", {"observation": "psutil._pslinux.CLOCK_TICKS", "source": "module constant"},
                         {"ok": own}, None, {"ok": sysv},
                         note="CLOCK_TICKS of the imported module is not os.sysconf('SC_CLK_TCK') of this system")
        cases = corpus_cases() + live_cases(live)
        n = ctx.n(1600, 24000)
        n_mal = max(50, n // 8)
        for i in range(n):
            cases.append(gen_case(ctx.rng, FAMILIES[i % len(FAMILIES)]))
        for i in range(n_mal):
            cases.append(gen_malformed(ctx.rng))
        ex, n_state, n_comm, n_rel, n_tn = exhaustive_cases()
        # histories on ONE Process object: records published in between, oneshot() blocks entered, nested, left
        # normally or by an exception (family history-structured / -random / -exhaustive)
        n_h = ctx.n(160, 2400)
        hist = [gen_hist_structured(ctx.rng, i) for i in range(n_h)] + [gen_hist_random(ctx.rng) for _ in range(n_h)]
        hex_ = hist_exhaustive_cases()
        lines = run_cases(ctx, impl, cases, res)
        lines += run_cases(ctx, impl, ex, res)
        lines += run_cases(ctx, impl, hist, res)
        lines += run_cases(ctx, impl, hex_, res)
        res.exhaustive = ("every state byte 0..255 (%d records) and every comm of length <= 3 over {'(', ')', ' ', '\\n', 'a', 0xff} "
                          "(%d names, for the process, its status file and its thread) and every 15-byte name <suffix of Uid:/Gid:/Threads:/nonvoluntary_ctxt_switches:><'', ' ' or TAB><digits> digit- or left-padded (%d names) and, as names of secondary THREADS of a process called `main`, every comm of length 1..3 over that alphabet and every x + ') ' + y + z (%d thread names) and EVERY history of up to 3 steps over {enter a oneshot() block, leave it normally, leave it by an exception, new record published, name(), ppid(), uids(), gids()} on one Process object, each followed by a new record and all ten getters (%d histories); the random families are samples" % (n_state, n_comm, n_rel, n_tn, len(hex_)))
        res.extra["driver_lines"] = lines
    finally:
        impl.close()


def search(ctx, res, broken):
    """Failing-input search: the clause-directed families at 10x budget (names imitating status lines and
    names with parentheses are generated with high probability), lead witnesses first."""
    impl = Impl(ctx)
    try:
        cases = corpus_cases()
        n = ctx.n(600, 6000)
        fams = ["statusname", "paren", "threads", "big", "oldkernel", "mixed"]
        for i in range(n):
            cases.append(gen_case(ctx.rng, fams[i % len(fams)]))
        ex = exhaustive_cases()[0]
        # the history families first: a violation that needs a history cannot show on a single record
        hist = hist_exhaustive_cases() + [gen_hist_structured(ctx.rng, i) for i in range(ctx.n(300, 3000))] \
            + [gen_hist_random(ctx.rng) for _ in range(ctx.n(300, 3000))]
        run_cases(ctx, impl, hist + cases + ex, res, source_tag="search")
    finally:
        impl.close()


# ------------------------------------------------------------------------------ shrink / replay


def _violates(impl, drv, case, method=None):
    """first spec-level disagreement of `case`"""
    ans = drv.ask(line_of(case))
    if "bad" in ans:
        return None
    for m, ci, mo, sp, kind in evaluate(impl, case, ans):
        if kind == "spec" and (method is None or m == method):
            return (m, ci, mo, sp)
    return None


def shrink_hist(ctx, d, case):
    """minimise a failing history: fewer events (ddmin), then fewer getters' worth of machine (tmap, tick rate)"""
    impl = Impl(ctx)
    drv = ctx.driver().start()
    try:
        def bad(c):
            return _violates(impl, drv, c, None)
        if not bad(case):
            return d
        cur = case
        evs = ddmin(cur["events"], lambda es: bool(bad(dict(cur, events=es))), max_tests=120)
        if bad(dict(cur, events=evs)):
            cur = dict(cur, events=evs)
        for cand in (dict(cur, tmap=[]), dict(cur, tck=100), dict(cur, btime=1)):
            if bad(cand):
                cur = cand
        v = bad(cur)
        if v:
            m, ci, mo, sp = v
            return dict(d, input={"case": cur, "method": m, "source": "shrunk"}, impl=ci, model=mo, spec=sp)
        return d
    finally:
        drv.close()
        impl.close()


def shrink(ctx, d):
    case = d["input"].get("case")
    method = d["input"].get("method")
    if not case:
        return d
    if case.get("kind") == "hist":
        return shrink_hist(ctx, d, case)
    impl = Impl(ctx)
    drv = ctx.driver().start()
    try:
        if not _violates(impl, drv, case, method):
            return d
        cur = case

        def attempt(cand):
            nonlocal cur
            if _violates(impl, drv, cand, method):
                cur = cand
                return True
            return False
        # fewer threads
        if method.split(":")[-1] == "threads":
            keep = ddmin(cur["threads"], lambda ts: bool(_violates(impl, drv, dict(cur, threads=ts), method)), max_tests=30)
            attempt(dict(cur, threads=keep))
        elif len(cur["threads"]) > 1:
            attempt(dict(cur, threads=cur["threads"][:1]))
        attempt(dict(cur, tmap=[]))
        attempt(dict(cur, tck=100))
        attempt(dict(cur, btime=1))

        def simp_rec(rec):
            r = dict(rec, f=[(x if i in (4, 14, 15) else min(x, i + 1)) for i, x in enumerate(rec["f"])])
            if r["tail"]:
                r["tail"] = [min(x, 40 + i) for i, x in enumerate(r["tail"])]
            return r
        if "rec" in cur["stat"]:
            attempt(dict(cur, stat={"rec": simp_rec(cur["stat"]["rec"])}))
        attempt(dict(cur, threads=[({"rec": simp_rec(t["rec"])} if "rec" in t else t) for t in cur["threads"]]))
        # shorter names
        def with_comm(c, where, b):
            if where == "proc":
                out = dict(c)
                if "rec" in c["stat"]:
                    out["stat"] = {"rec": dict(c["stat"]["rec"], comm=bytes(b).hex())}
                if c.get("status") and "rec" in c["status"]:
                    out["status"] = {"rec": dict(c["status"]["rec"], comm=bytes(b).hex())}
                return out
            ts = list(c["threads"])
            ts[where] = {"rec": dict(ts[where]["rec"], comm=bytes(b).hex())}
            return dict(c, threads=ts)
        if "rec" in cur["stat"]:
            comm = list(bytes.fromhex(cur["stat"]["rec"]["comm"]))
            if len(comm) >= 2:
                small = ddmin(comm, lambda b: bool(_violates(impl, drv, with_comm(cur, "proc", b), method)), max_tests=60)
                attempt(with_comm(cur, "proc", small))
        for i, t in enumerate(cur["threads"]):
            if "rec" in t:
                comm = list(bytes.fromhex(t["rec"]["comm"]))
                if len(comm) >= 2:
                    small = ddmin(comm, lambda b, i=i: bool(_violates(impl, drv, with_comm(cur, i, b), method)), max_tests=60)
                    attempt(with_comm(cur, i, small))
        v = _violates(impl, drv, cur, method)
        if v:
            m, ci, mo, sp = v
            return dict(d, input={"case": cur, "method": m, "source": "shrunk"}, impl=ci, model=mo, spec=sp)
        return d
    finally:
        drv.close()
        impl.close()


def replay(ctx, rp, res):
    case = rp["input"].get("case")
    if not case:
        return True
    impl = Impl(ctx)
    drv = ctx.driver().start()
    try:
        v = _violates(impl, drv, case, None)
        if v:
            print("replay: %s() gives %s, specification %s" % (v[0], v[1], v[3]))
        return bool(v)
    finally:
        drv.close()
        impl.close()


def check_finding(ctx, fnd):
    w = fnd.get("witness", {})
    case = w.get("case")
    if not case:
        return "unknown"
    impl = Impl(ctx)
    drv = ctx.driver().start()
    try:
        return "reproduces" if _violates(impl, drv, case, w.get("method")) else "gone"
    finally:
        drv.close()
        impl.close()


# ------------------------------------------------------------------------------ renderer validation (DESIGN §3.3)

_STAT_RE = re.compile(rb"^(\d+) \((.*)\) (.) (.*)\n$", re.S)


def strict_parse_stat(data):
    m = _STAT_RE.match(data)
    if not m:
        return None
    toks = m.group(4).split(b" ")
    if len(toks) < 38 or not all(re.fullmatch(rb"-?\d+", t) for t in toks):
        return None
    nums = [int(t) for t in toks]
    return {"pid": int(m.group(1)), "comm": m.group(2).hex(), "state": m.group(3)[0], "f": nums[:38],
            "tail": nums[38:] or None}


def unescape_name(b):
    out = bytearray()
    i = 0
    while i < len(b):
        if b[i] == 0x5c and i + 1 < len(b) and b[i + 1] in (0x5c, 0x6e):
            out.append(0x5c if b[i + 1] == 0x5c else 0x0a)
            i += 2
        else:
            out.append(b[i])
            i += 1
    return bytes(out)


def strict_parse_status(data):
    if not data.endswith(b"\n"):
        return None
    lines = data[:-1].split(b"\n")
    kvs = []
    for l in lines:
        k, sep, v = l.partition(b":\t")
        if not sep:
            return None
        kvs.append((k, v))
    keys = [k for k, _ in kvs]
    try:
        iu, ig, it = keys.index(b"Uid"), keys.index(b"Gid"), keys.index(b"Threads")
        iv, inv = keys.index(b"voluntary_ctxt_switches"), keys.index(b"nonvoluntary_ctxt_switches")
    except ValueError:
        return None
    if keys[0] != b"Name" or ig != iu + 1 or inv != iv + 1 or inv != len(kvs) - 1 or not (iu < it < iv):
        return None
    ids = lambda v: [int(x) for x in v.split(b"\t")]
    hx = lambda seg: [[k.hex(), v.hex()] for k, v in seg]
    try:
        return {"comm": unescape_name(kvs[0][1]).hex(), "pre": hx(kvs[1:iu]), "uid": ids(kvs[iu][1]), "gid": ids(kvs[ig][1]),
                "mid1": hx(kvs[ig + 1:it]), "threads": int(kvs[it][1]), "mid2": hx(kvs[it + 1:iv]),
                "vol": int(kvs[iv][1]), "nonvol": int(kvs[inv][1])}
    except ValueError:
        return None


def _renamed_child(name):
    """fork a child that renames itself with prctl(PR_SET_NAME) and waits; returns (pid, cleanup)"""
    r, w = os.pipe()
    pid = os.fork()
    if pid == 0:
        try:
            os.close(r)
            libc = ctypes.CDLL(None, use_errno=True)
            buf = ctypes.create_string_buffer(name + b"\0")
            libc.prctl(15, buf, 0, 0, 0)
            os.write(w, b"x")
            signal.pause()
        finally:
            os._exit(0)
    os.close(w)
    os.read(r, 1)
    os.close(r)

    def cleanup():
        try:
            os.kill(pid, signal.SIGKILL)
            os.waitpid(pid, 0)
        except OSError:
            pass
    return pid, cleanup


THREAD_NAMES = (b"w) S 1 2 3", b"a) b\n(c\\d", b"\xff\xfe )(", b"main", b") ")


def _renamed_threads(names):
    """one thread per name inside THIS process; each renames ITSELF (PR_SET_NAME acts on the calling task only, so the
    process name stays) and parks. Returns ([(tid, name)], stop)"""
    import threading
    import time
    libc = ctypes.CDLL(None, use_errno=True)
    stop, lock, ready = threading.Event(), threading.Lock(), []

    def run(nm):
        buf = ctypes.create_string_buffer(nm + b"\0")
        libc.prctl(15, buf, 0, 0, 0)
        with lock:
            ready.append((threading.get_native_id(), nm))
        stop.wait(60)
    ths = [threading.Thread(target=run, args=(nm,), daemon=True) for nm in names]
    for t in ths:
        t.start()
    t0 = time.time()
    while len(ready) < len(names) and time.time() - t0 < 5:
        time.sleep(0.005)

    def finish():
        stop.set()
        for t in ths:
            t.join(5)
    return list(ready), finish


def live_cases(live):
    """the LIVE kernel's records of this process and of the prctl-renamed children (incl. `ctxt_switches:7`), strictly
    parsed and re-rendered byte-identically, as correspondence cases"""
    import random
    rng = random.Random(77)
    out = []
    for label, rec, srec, trecs in live or []:
        c = gen_case(rng, "mixed")
        c["family"] = "live"
        c["pid"] = rec["pid"]
        c["stat"] = {"rec": rec}
        c["status"] = {"rec": srec}
        # the live per-thread records (task/<tid>/stat of threads that renamed themselves) next to the main thread's
        c["threads"] = tid_order([{"rec": dict(rec)}] + [{"rec": dict(t)} for t in trecs if t["pid"] != rec["pid"]])
        c["listing"] = sorted((tid_of(t) for t in c["threads"]), reverse=True)
        c.pop("alive", None)
        # these run with the value the module itself computed for CLOCK_TICKS at import; the model is told the
        # system's tick rate, asked from the OS here
        c["tck"] = os.sysconf("SC_CLK_TCK")
        c["tck_own"] = True
        out.append(c)
    return out


def validate_renderers(ctx, res):
    """Live kernel files → strict independent parser → Lean renderer → must be byte-identical."""
    samples = []     # (label, stat bytes, status bytes)

    def grab(label, pid):
        try:
            with open("/proc/%d/stat" % pid, "rb") as f:
                st = f.read()
            with open("/proc/%d/status" % pid, "rb") as f:
                su = f.read()
            samples.append((label, st, su))
        except OSError:
            pass
    grab("self", os.getpid())
    # per-THREAD records of the live kernel: threads of this process with hostile names of their own
    thr_samples = []
    try:
        named, finish = _renamed_threads(THREAD_NAMES)
    except Exception:  # noqa: BLE001 — no prctl / no threads: validation of the thread records is skipped
        named, finish = [], (lambda: None)
    try:
        for tid, nm in named:
            try:
                with open("/proc/%d/task/%d/stat" % (os.getpid(), tid), "rb") as f:
                    thr_samples.append(("thread:%r" % nm, f.read(), nm))
            except OSError:
                pass
    finally:
        finish()
    grab("parent", os.getppid())
    grab("init", 1)
    for nm in (b"Uid:\t0\t0\t0", b"a) b\n(c\\d", b"x\rUid:\t0\t0\t0", b"\xff\xfe )(", b"123456789012345678", b"ctxt_switches:7"):
        try:
            pid, cleanup = _renamed_child(nm)
        except OSError:
            continue
        try:
            grab("renamed:%r" % nm, pid)
        finally:
            cleanup()
    lines, meta, parsed = [], [], []
    for label, st, su in samples:
        rec, srec = strict_parse_stat(st), strict_parse_status(su)
        if rec is None or srec is None:
            res.notes.append("renderer validation: live record of %s not in the modelled layout (stat ok=%s, status ok=%s)" % (
                label, rec is not None, srec is not None))
            res.count("renderer-validation:skipped")
            continue
        lines.append({"op": "proc", "tck": 100, "btime": 1, "tmap": [], "stat": {"rec": rec}, "status": {"rec": srec}, "threads": []})
        meta.append((label, st, su))
        parsed.append((label, rec, srec))
    thr_parsed = []
    for label, st, nm in thr_samples:
        rec = strict_parse_stat(st)
        if rec is None or bytes.fromhex(rec["comm"]) != nm[:15]:
            res.notes.append("renderer validation: live thread record %s not in the modelled layout" % label)
            res.count("renderer-validation:skipped")
            continue
        lines.append({"op": "proc", "tck": 100, "btime": 1, "tmap": [], "stat": {"rec": rec}, "status": None, "threads": []})
        meta.append((label, st, None))
        thr_parsed.append(rec)
    if not lines:
        res.notes.append("renderer validation: no live record could be read")
        return []
    answers = ctx.driver().batch(lines)
    bad = []
    for (label, st, su), ans in zip(meta, answers):
        ok = "files" in ans and bytes.fromhex(ans["files"]["stat"]) == st and (su is None or bytes.fromhex(ans["files"]["status"]) == su)
        if label.startswith("thread:"):
            res.count("renderer-validation:thread-record-" + ("ok" if ok else "MISMATCH"))
        res.count("renderer-validation:ok" if ok else "renderer-validation:MISMATCH")
        if not ok:
            bad.append(label)
    res.extra["renderer_validation"] = {"live_records": len(meta), "mismatch": bad}
    if bad:
        raise InfraError("C06 kernel renderers do not reproduce the live kernel's files for: %s "
                         "(the trusted renderer is wrong for this kernel; not a psutil violation)" % bad)
    return [p + (thr_parsed if p[0] == "self" else [],) for p in parsed if p[0] == "self" or p[0].startswith("renamed")]
