"""C01 — signals and setters never reach a recycled PID or a process group.
(C02 — ==, hash(), is_running() follow the process — shares this machinery: harness/props/c02.py.)

Model: lean/PsutilModel/Model/C01.lean (+C01Gen), Spec: Spec/C01.lean, theorems: Props/C01.lean.
Correspondence: histories of simulated kernel events (spawn / exit / reap / tick / clock step) and
psutil calls are executed on REAL `psutil.Process` objects over a fake procfs, with `os.kill`,
`cext_posix.setpriority`, `cext.proc_ioprio_set`, `cext.proc_cpu_affinity_set`, `resource.prlimit`
replaced by recorders that consult the simulated process table (ESRCH when the PID is absent) and
append to an effect log annotated with the current owner of the PID; the same lines go to the Lean
driver, which answers with the model's outcome + effects and with what the specification promises.
"""
import ast
import errno
import itertools
import os
import re
import signal as _signal

from harness.common import extract
from harness.common.extract import NotRecognised
from harness.common.fakeproc import FakeProc, reset_psutil_state
from harness.common.shrink import ddmin
from harness.props import c01_stat
from harness.props import c01_kill

PROP = "C01"
DRIVER_MODULES = ["PsutilModel.Model.C01Gen", "PsutilModel.Spec.C01", "PsutilModel.Model.C01Driver",
                  "PsutilModel.Model.C01Stat", "PsutilModel.Model.C01StatDriver",
                  "PsutilModel.Model.C01KillGen", "PsutilModel.Model.C01KillDriver", "PsutilModel.Spec.C01Kill"]
NEEDS_EXT = True
TRUSTED = [
    "C01/C02 world model: the simulated kernel (process table of incarnations, a tick clock that stamps every spawn with a strictly larger `start`, a published btime) and the fake procfs renderer of harness/props/c01.py (/proc/<pid>/stat: `pid (comm) state ppid … starttime …` per proc(5) with comm and every other field an input of the histories — harness/props/c01_stat.py render_line = Model/C01Stat.lean statLine —, /proc/stat btime line)",
    "C01/C02 atomicity: kernel events happen between psutil calls, never inside one (the check-then-kill window of os.kill without pidfd is inherent and outside the model)",
    "C01/C02 arithmetic: create time is modelled exactly as start + CLOCK_TICKS*boot (scaled by CLOCK_TICKS); the implementation computes start/CLOCK_TICKS + boot in doubles — injective in `start` for start < 2^53 and boot < 2^32",
    "C01/C02 permission and readability inputs: which PIDs the kernel refuses (EPERM / EACCES from kill, setpriority, ioprio_set, sched_setaffinity, prlimit) and whose /proc/<pid>/stat cannot be opened are inputs of the simulated kernel, attached to the PID (they persist across a recycling until changed), answered by the recorders / by an `open` shadowing the builtin inside psutil._common; ESRCH is decided by the process table alone (a listed process never answers ESRCH)",
    "C01: the Windows branches of send_signal/suspend/…, which CPUs of the full mask handed over by `cpu_affinity([])` the kernel keeps (C18's subject) and `(pid, None)` identities of Popen over an already reaped child are outside the model",
]
ASSUMPTIONS = [
    # (no assumption on the boot time since /repo 29257b1: `create_time()` tests `BOOT_TIME is not None`, obligation
    #  cfg_none_test; C01/C02 theorems hold from any published boot time, 0 included, with any clock steps)
    "a PID is not recycled within one clock tick (psutil's documented assumption): every spawn advances the model clock",
]
MANIFEST = {
    "level_text": "Machine-checked Lean 4 proof over a model of psutil's process-identity machinery (Process._init/_get_ident/create_time/is_running/_raise_if_pid_reused/_send_signal/setters + _pslinux boot_time/BOOT_TIME) and a simulated kernel: by induction over ALL histories of spawn/exit/reap/PID-reuse/tick/clock-step events and interleaved psutil calls, every effect in the log was delivered to the incarnation the asking object was built for, under exactly the object's PID, signals never to PID<=0 (C01_no_wrong_owner, C01_never_group), a call adds at most one effect carrying exactly the requested signal/values (C01_exact_args, signalMap_correct), a call through an object whose incarnation lost its PID raises NoSuchProcess(pid) and leaves the log unchanged — the kernel is not even asked — (C01_recycled_raises_NSP), and a live incarnation is not refused (C01_live_signal_delivered). The kernel's permission outcome is an input of every effect (histories contain events that make the kernel refuse a PID with EPERM or EACCES and allow it again): a refused os.kill / setpriority / ioprio_set / sched_setaffinity / prlimit is logged as an attempt with its errno, so C01_no_wrong_owner and C01_exact_args also cover what psutil ASKED the kernel for; on a live incarnation exactly one attempt is made and the caller gets AccessDenied(pid) instead of a normal return (C01_live_signal_delivered / C01_live_setter_applied, parametrised by the kernel's answer); in any state a call returns normally iff one OS call was made and carried out, a refused one is AccessDenied(pid), nothing is retried (C01_outcome_truthful); a refusal sets no sticky flag (C02's theorems range over these histories). Outside the property's quantifier (characterisation, not findings): when /proc/pid/stat cannot be opened, Process._init keeps `_ident = (pid, None)` — modelled (mkObj, Kernel.hidden) and compared with the real code; for histories with such phases every logged OS call still carries the asking object's PID, never a PID <= 0, and reaches the right incarnation whenever the object's start time is known (C01_known_start_no_wrong_owner, all histories), while an object with unknown start passes the guard whenever the PID's current holder is unreadable too (C01_unknown_start_counterexample, witness replayed on the real code) — and ONLY then: over all histories with unreadable phases, for every object (start known or not) and whatever was called in between (create_time(), is_running(), process_iter() …), as soon as /proc/pid/stat of the PID opens at the moment of the call (PID free, or its new holder readable) a signal/setter through an object whose incarnation is gone raises NoSuchProcess(pid) and hands nothing to the OS, and every effect issued while the stat file opens reaches the object's own incarnation (C01_recycled_raises_NSP_readable, C01_effect_readable_right_owner); the model's premise that `_ident` is written at construction only is the translator obligation cfg_ident_writers, and the correspondence judges histories with unreadable phases by these clauses (not by the model alone). The object list of a history holds the objects built by Process(pid) and those built and yielded by process_iter() (cached handles of recycled PIDs included), with oneshot() entry/exit as explicit no-op calls. The proofs hold for the configuration extracted by the translator (cfg_good: guard before every effect, `_gone` test in _raise_if_pid_reused, BOOT_TIME written once; cfg_none_test: create_time() takes the cached BOOT_TIME whenever it `is not None` — /repo 29257b1, the repair of the former finding C02-boottime-zero), with NO hypothesis on the boot time: the initial published boot time is any number, 0 included, and clock steps go anywhere (histories from btime 0 are generated and judged by the specification like all others); for the defective configurations the counterexamples are proved (C01_gone_counterexample, C01_bootrewrite_counterexample, and — what-if, the truthiness test `BOOT_TIME or boot_time()` of the source before 29257b1 — C01_btime0_counterexample: from a published btime 0, after a clock step terminate() on the handle of a LIVE process raises NoSuchProcess). Tie: ast-extracted facts + differential run of real psutil.Process objects over a fake procfs with recording OS entry points. STAT BYTES (seeded round 5): the identity the guard compares is parsed from /proc/<pid>/stat, whose comm field is chosen by the process (any bytes: spaces, parentheses, `) `, newlines, a spelled-out fake stat tail). Model/C01Stat.lean keeps comm and all other fields per incarnation, renders the line (proc(5)), lets a history choose them at every spawn and rewrite them while the process lives, and runs the identity machine on the kernel as READ from those bytes by psutil's reader in the shape the translator extracted (facts statSearch/statNeedle/statSkip/statSplit/statCtimeIdx/statStatusIdx/createReads, obtained by following the data flow of _parse_stat_file with helper functions inlined; obligation scfg_good: last `)`, +2, whitespace split, field 19 = starttime, field 0 = state, float(...)/CLOCK_TICKS). Proved for EVERY comm (no hypothesis on it; hypothesis HistWF = the other fields are in the kernel's format): the reader recovers starttime and zombie state from the line (C01_stat_identity_any_comm), every byte-level history runs as its erasure (C01_stat_bytes_refine), hence the recycling clause, no-wrong-owner and live-delivery hold over the byte dimension (C01_recycled_raises_NSP_any_stat_bytes, C01_no_wrong_owner_any_stat_bytes, C01_live_signal_delivered_any_stat_bytes); what-if: a reader that ends the name at the first `) ` reads two different holders of a PID as the same (C01_first_rpar_space_counterexample). Correspondence: the fake procfs shows the chosen bytes (family stat_bytes, corpus stat-bytes / stat-spoofed-tail / stat-rename-live, sweep exhaustive_stat over all pairs of short names over {'(', ')', ' ', 'a'}); the specification never looks at the bytes. EVERY kill(2) (seeded round C01-8): the translator lists every call site through which a function of the package hands a PID to os.kill or to a package function that transitively reaches it (the probe os.kill(pid, 0) of _psposix.pid_exists behind psutil.pid_exists(n) and Process.wait() included), with the sign classes {negative, zero, positive} of that PID for which the guards in front of the call let control through (facts killSites / killRoots); Model/C01Kill.lean walks that graph, and for EVERY integer handed to any public entry point every kill(2) issued has a positive pid argument, whatever the signal (obligation kcfg_good; C01_no_group_kill_any_entry, C01_pid_exists_never_probes_group; what-if C01_probe_before_guard_counterexample); correspondence family `entry`: psutil.pid_exists(n) / Process(n) for structured, exhaustively enumerated small and random integers of both signs on simulated process tables with a recorder that logs every os.kill, signal 0 included, judged in Lean (noGroupKillB) on the observed pid arguments.",
    "level_note": "Trusted: Lean kernel + {propext, Classical.choice, Quot.sound}; the translator; the correspondence harness; the simulated kernel/fake procfs; atomic calls (the inherent check-then-kill window is outside the model); exact arithmetic for create times; hypotheses: no PID recycled within one clock tick and (main theorems) /proc/pid/stat always readable — none on the boot time (any value, 0 included, any clock step); permission refusals attached to the PID, ESRCH decided by the process table alone.",
    "technique": "Lean 4 invariant proof by induction over event histories (ghost incarnation ids) + translator-fed proof obligation + differential correspondence on generated and exhaustively enumerated short histories",
    "design_ref": "DESIGN.md §5 C01",
}

# ------------------------------------------------------------------------------ translator

GUARD = "_raise_if_pid_reused"
SIGNAL_METHODS = ["suspend", "resume", "terminate", "kill"]
SETTERS = {"nice": "nice_set", "ionice": "ionice_set", "rlimit": "rlimit", "cpu_affinity": "cpu_affinity_set"}


def _find_method(tree, cls, name):
    """FunctionDef `name` anywhere inside class `cls` (methods may sit under `if POSIX:` etc.)."""
    c = extract.find_class(tree, cls)
    for n in ast.walk(c):
        if isinstance(n, ast.FunctionDef) and n.name == name:
            return n
    raise NotRecognised("method %s.%s not found" % (cls, name))


def _is_guard_stmt(st):
    return (isinstance(st, ast.Expr) and isinstance(st.value, ast.Call)
            and extract.dotted(st.value.func) == "self." + GUARD)


def _has_call(node, suffix):
    return any(isinstance(n, ast.Call) and extract.dotted(n.func).endswith(suffix) for n in ast.walk(node))


def _is_not_none(test, params):
    return (isinstance(test, ast.Compare) and len(test.ops) == 1 and isinstance(test.ops[0], ast.IsNot)
            and isinstance(test.left, ast.Name) and test.left.id in params
            and isinstance(test.comparators[0], ast.Constant) and test.comparators[0].value is None)


def _dominated(stmts, effect, params, seen=False):
    """Is every occurrence of the effect call in this block preceded, on its path, by the guard
    statement?  None = the block does not contain the effect."""
    for st in stmts:
        if _is_guard_stmt(st):
            seen = True
            continue
        if not _has_call(st, effect):
            # `if <setter argument> is not None: self._raise_if_pid_reused()` guards the setting form
            if isinstance(st, ast.If) and _is_not_none(st.test, params) and any(_is_guard_stmt(b) for b in st.body):
                seen = True
            continue
        if isinstance(st, ast.If):
            res = [_dominated(b, effect, params, seen) for b in (st.body, st.orelse) if any(_has_call(x, effect) for x in b)]
            if _has_call(st.test, effect):
                res.append(seen)
            return all(r for r in res)
        if isinstance(st, ast.Try):
            blocks = [st.body] + [h.body for h in st.handlers] + [st.orelse, st.finalbody]
            return all(_dominated(b, effect, params, seen) for b in blocks if any(_has_call(x, effect) for x in b))
        if isinstance(st, (ast.With, ast.For, ast.While)):
            return _dominated(st.body, effect, params, seen)
        return seen
    return None


def _guarded(fn, effect):
    params = {a.arg for a in fn.args.args}
    r = _dominated(fn.body, effect, params)
    if r is None:
        raise NotRecognised("%s: no call to %s found" % (fn.name, effect))
    return bool(r)


def _posix_branch(fn):
    for st in fn.body:
        if isinstance(st, ast.If) and extract.dotted(st.test) == "POSIX":
            return st.body
    raise NotRecognised("%s: no `if POSIX:` branch" % fn.name)


def _signal_of(init, name):
    """(`signal.SIGXXX` name, number) the public method passes to `_send_signal` on POSIX."""
    fn = _find_method(init, "Process", name)
    calls = [c for st in _posix_branch(fn) for c in extract.calls_in(st, "_send_signal")]
    if len(calls) != 1 or len(calls[0].args) != 1:
        raise NotRecognised("%s does not call _send_signal once" % name)
    a = calls[0].args[0]
    if not (isinstance(a, ast.Attribute) and extract.dotted(a.value) == "signal"):
        raise NotRecognised("%s: signal argument is %s" % (name, ast.unparse(a)))
    return a.attr, int(getattr(_signal, a.attr))


def _send_signal_passes_arg(init):
    fn = _find_method(init, "Process", "send_signal")
    calls = [c for st in _posix_branch(fn) for c in extract.calls_in(st, "_send_signal")]
    params = [a.arg for a in fn.args.args]
    return (len(calls) == 1 and len(calls[0].args) == 1 and isinstance(calls[0].args[0], ast.Name)
            and len(params) == 2 and calls[0].args[0].id == params[1])


def _quiet(fn, default=False):
    """TOTAL extraction: a shape the extractor does not recognise is reported as `default` (fail-closed: the
    method is then simply not in `guardedMethods` and `cfg_good` breaks) instead of skipping the whole fact"""
    try:
        return fn()
    except (NotRecognised, AssertionError, AttributeError, IndexError, KeyError, TypeError, ValueError):
        return default


def _guarded_methods(init):
    """every method is looked at on its own: one unrecognised method does not hide the others"""
    out = []
    if _quiet(lambda: _guarded(_find_method(init, "Process", "_send_signal"), "os.kill")):
        if _quiet(lambda: _send_signal_passes_arg(init)):
            out.append("send_signal")
        for m in SIGNAL_METHODS:
            if _quiet(lambda: bool(_signal_of(init, m))):     # routes through _send_signal exactly once
                out.append(m)
    for pub, plat in SETTERS.items():
        if _quiet(lambda: _guarded(_find_method(init, "Process", pub), "self._proc." + plat)):
            out.append(pub)
    if _quiet(lambda: _guarded(_find_method(init, "Process", "ppid"), "self._proc.ppid")):
        out.append("ppid")
    return out


def _window_calls(init):
    """calls `_send_signal` makes AFTER the reuse guard and BEFORE `os.kill` (the check-then-kill window the model
    treats as atomic): dotted names, in source order; a refusal branch (`if …: raise …`) does not count.  [] on HEAD:
    only attribute loads (`self.pid, self._ppid, self._name`) sit in the window."""
    fn = _find_method(init, "Process", "_send_signal")
    out = []

    def scan(stmts, seen):
        for st in stmts:
            if _is_guard_stmt(st):
                seen = True
                continue
            if not seen:
                if isinstance(st, (ast.If, ast.Try, ast.With, ast.For, ast.While)) and any(_is_guard_stmt(x) for x in ast.walk(st)):
                    raise NotRecognised("_send_signal: the guard is not a top-level statement")
                continue
            if _has_call(st, "os.kill"):
                if isinstance(st, ast.Try):
                    return scan(st.body, True)
                for n in ast.walk(st):
                    if isinstance(n, ast.Call) and extract.dotted(n.func) != "os.kill":
                        out.append(extract.dotted(n.func))
                return True
            if isinstance(st, ast.If) and not st.orelse and isinstance(st.body[-1], ast.Raise):
                out.extend(extract.dotted(n.func) for n in ast.walk(st.test) if isinstance(n, ast.Call))
                continue
            out.extend(extract.dotted(n.func) for n in ast.walk(st) if isinstance(n, ast.Call))
        return seen
    scan(fn.body, False)
    if not _has_call(fn, "os.kill"):
        raise NotRecognised("_send_signal: no os.kill")
    return out


NATIVE = {"nice_set": "setpriority", "ionice_set": "proc_ioprio_set", "cpu_affinity_set": "proc_cpu_affinity_set",
          "rlimit": "prlimit"}


def _native_pid_args(plat):
    """for every platform setter: the first argument (the PID) of EVERY call site of its native entry point, in source
    order — `self.pid` exactly once per site on HEAD (rlimit has a get and a set site)"""
    out = []
    for meth, native in NATIVE.items():
        fn = _quiet(lambda: _find_method(plat, "Process", meth), None)
        sites = []
        if fn is not None:
            for n in ast.walk(fn):
                if isinstance(n, ast.Call) and extract.dotted(n.func).split(".")[-1] == native:
                    sites.append((n.lineno, n.col_offset, ast.unparse(n.args[0]) if n.args else "<none>"))
        out.append((meth, [x[2] for x in sorted(sites)]))
    return out


def _raises(stmts, cls):
    for st in stmts:
        for n in ast.walk(st):
            if isinstance(n, ast.Raise) and n.exc is not None:
                f = n.exc.func if isinstance(n.exc, ast.Call) else n.exc
                if extract.dotted(f).split(".")[-1] == cls:
                    return True
    return False


def _cmp_is(test, left_names, op, const):
    return (isinstance(test, ast.Compare) and len(test.ops) == 1 and isinstance(test.ops[0], op)
            and extract.dotted(test.left) in left_names
            and isinstance(test.comparators[0], ast.Constant) and test.comparators[0].value == const)


def _refusal_before(fn, test_pred, exc, effect):
    """an `if <test>: raise <exc>` statement placed before the first `effect` call"""
    eff_lines = [n.lineno for n in ast.walk(fn) if isinstance(n, ast.Call) and extract.dotted(n.func).endswith(effect)]
    if not eff_lines:
        raise NotRecognised("%s: no call to %s" % (fn.name, effect))
    first = min(eff_lines)
    for n in ast.walk(fn):
        if isinstance(n, ast.If) and test_pred(n.test) and _raises(n.body, exc) and n.lineno < first:
            return True
    return False


def _gone_raises(init):
    fn = _find_method(init, "Process", GUARD)
    ifs = [st for st in fn.body if isinstance(st, ast.If)]
    if not ifs or not _raises(ifs[0].body, "NoSuchProcess"):
        raise NotRecognised("_raise_if_pid_reused: shape not recognised")

    def mentions_gone(test):
        if extract.dotted(test) == "self._gone":
            return True
        return isinstance(test, ast.BoolOp) and isinstance(test.op, ast.Or) and any(extract.dotted(v) == "self._gone" for v in test.values)
    return any(mentions_gone(st.test) and _raises(st.body, "NoSuchProcess") for st in ifs)


def _boot_write_once(plat):
    fn = extract.find_def(plat, "boot_time")
    parents = {}
    for n in ast.walk(fn):
        for ch in ast.iter_child_nodes(n):
            parents[ch] = n
    writes = [n for n in ast.walk(fn) if isinstance(n, ast.Assign)
              and any(isinstance(t, ast.Name) and t.id == "BOOT_TIME" for t in n.targets)]
    if not writes:
        raise NotRecognised("boot_time() never assigns BOOT_TIME")

    def under_is_none(n):
        while n in parents:
            p = parents[n]
            if isinstance(p, ast.If) and n in p.body and isinstance(p.test, ast.Compare) and len(p.test.ops) == 1 \
                    and isinstance(p.test.ops[0], ast.Is) and extract.dotted(p.test.left) == "BOOT_TIME" \
                    and isinstance(p.test.comparators[0], ast.Constant) and p.test.comparators[0].value is None:
                return True
            n = p
        return False
    def under_falsy_test(n):
        while n in parents:
            p = parents[n]
            if isinstance(p, ast.If) and n in p.body and isinstance(p.test, ast.UnaryOp) \
                    and isinstance(p.test.op, ast.Not) and extract.dotted(p.test.operand) == "BOOT_TIME":
                return True
            n = p
        return False
    # (`if not BOOT_TIME:` rewrites a cached 0.0: not the `is None` guard the model's flag describes → false)
    return all(under_is_none(w) for w in writes)


def _boot_stores_elsewhere(snap):
    """every store to `BOOT_TIME` anywhere in the package OUTSIDE `_pslinux.boot_time()` and the module-level
    initialisation `BOOT_TIME = None`: plain / augmented / annotated assignment, `del`, `global`-less attribute stores
    (`_psplatform.BOOT_TIME = …`), `globals()["BOOT_TIME"]`, `setattr(…, "BOOT_TIME", …)` — as "module:function"."""
    out = []
    pkg = snap.pkg
    for fn in sorted(os.listdir(pkg)):
        if not fn.endswith(".py") or fn in ("_pswindows.py", "_psosx.py", "_psbsd.py", "_pssunos.py", "_psaix.py"):
            continue
        tree = ast.parse(snap.source(fn), filename=fn)

        def visit(node, where):
            for ch in ast.iter_child_nodes(node):
                w = where
                if isinstance(ch, (ast.FunctionDef, ast.AsyncFunctionDef)):
                    w = ch.name
                hit = False
                if isinstance(ch, (ast.Assign, ast.AugAssign, ast.AnnAssign, ast.Delete)):
                    tg = ch.targets if isinstance(ch, (ast.Assign, ast.Delete)) else [ch.target]
                    for t in tg:
                        for x in ast.walk(t):
                            if (isinstance(x, ast.Name) and x.id == "BOOT_TIME") or \
                               (isinstance(x, ast.Attribute) and x.attr == "BOOT_TIME") or \
                               (isinstance(x, ast.Subscript) and isinstance(x.slice, ast.Constant) and x.slice.value == "BOOT_TIME"):
                                hit = True
                if isinstance(ch, ast.Call) and extract.dotted(ch.func).split(".")[-1] in ("setattr", "__setattr__", "update", "__setitem__") \
                        and any(isinstance(a, ast.Constant) and a.value == "BOOT_TIME" for a in ast.walk(ch)):
                    hit = True
                if hit:
                    init_none = (where == "<module>" and fn == "_pslinux.py" and isinstance(ch, ast.Assign)
                                 and isinstance(ch.value, ast.Constant) and ch.value.value is None)
                    if not init_none and not (fn == "_pslinux.py" and where == "boot_time"):
                        out.append("%s:%s" % (fn[:-3], where))
                visit(ch, w)
        visit(tree, "<module>")
    return out


def _ident_writers(snap):
    """every function of the package that stores to an attribute named `_ident` — the identity tuple `(pid, create
    time)` the reuse guard, `==` and `hash()` compare — as "file:Class.function" (sorted, unique): attribute stores in
    any binding position (plain / augmented / annotated assignment, tuple unpacking, `for` / `with … as` / walrus
    targets, `del`), `x.__dict__["_ident"]` stores, and `setattr` / `object.__setattr__` / `__dict__.update` /
    `__setitem__` / `delattr` calls naming it.  The model keeps `PObj.ident` for the life of the object; the
    obligation `cfg_ident_writers` requires this list to be exactly [Process._init]."""
    out = set()
    for fn in sorted(os.listdir(snap.pkg)):
        if not fn.endswith(".py") or fn in ("_pswindows.py", "_psosx.py", "_psbsd.py", "_pssunos.py", "_psaix.py"):
            continue
        tree = ast.parse(snap.source(fn), filename=fn)

        def visit(node, where):
            for ch in ast.iter_child_nodes(node):
                w = where
                if isinstance(ch, (ast.FunctionDef, ast.AsyncFunctionDef, ast.ClassDef)):
                    w = ch.name if where == "<module>" else where + "." + ch.name
                hit = False
                if isinstance(ch, ast.Attribute) and ch.attr == "_ident" and isinstance(ch.ctx, (ast.Store, ast.Del)):
                    hit = True
                if isinstance(ch, ast.Subscript) and isinstance(ch.ctx, (ast.Store, ast.Del)) \
                        and isinstance(ch.slice, ast.Constant) and ch.slice.value == "_ident":
                    hit = True
                if isinstance(ch, ast.Call):
                    last = extract.dotted(ch.func).split(".")[-1] if extract.dotted(ch.func) else ""
                    if last in ("setattr", "__setattr__", "update", "__setitem__", "delattr", "__delattr__", "pop", "setdefault"):
                        if any(isinstance(a, ast.Constant) and a.value == "_ident" for a in ast.walk(ch)) \
                                or any(kw.arg == "_ident" for kw in ch.keywords):
                            hit = True
                if hit:
                    out.add("%s:%s" % (fn, where))
                visit(ch, w)
        visit(tree, "<module>")
    return sorted(out)


def _create_boot(plat):
    """how `_pslinux.Process.create_time` obtains the boot time it adds — TOTAL: a string describing the shape.
    "or" = `BOOT_TIME or boot_time()` (truthiness: a cached 0.0 counts as unset), "isNotNone" = `BOOT_TIME if BOOT_TIME
    is not None else boot_time()`, "fresh" = `boot_time()` only; the expression must FLOW INTO the returned value
    (directly, or through one local name that is assigned once and used in the `return`) — otherwise "dead:<shape>"."""
    fn = extract.find_def(plat, "create_time", cls="Process")

    def shape(n):
        if isinstance(n, ast.BoolOp) and isinstance(n.op, ast.Or) and len(n.values) == 2 \
                and extract.dotted(n.values[0]) == "BOOT_TIME" and extract.dotted(n.values[1]) == "boot_time()":
            return "or"
        if isinstance(n, ast.IfExp) and extract.dotted(n.body) == "BOOT_TIME" and extract.dotted(n.orelse) == "boot_time()" \
                and isinstance(n.test, ast.Compare) and len(n.test.ops) == 1 and isinstance(n.test.ops[0], ast.IsNot) \
                and extract.dotted(n.test.left) == "BOOT_TIME" and isinstance(n.test.comparators[0], ast.Constant) \
                and n.test.comparators[0].value is None:
            return "isNotNone"
        return None
    rets = [n for n in ast.walk(fn) if isinstance(n, ast.Return) and n.value is not None]
    if len(rets) != 1:
        return "other:%d returns" % len(rets)
    ret = rets[0]
    names_in_ret = {x.id for x in ast.walk(ret.value) if isinstance(x, ast.Name)}
    found = []
    for n in ast.walk(fn):
        sh = shape(n)
        if sh:
            live = any(x is n for x in ast.walk(ret.value))
            if not live:
                for st in ast.walk(fn):
                    if isinstance(st, ast.Assign) and st.value is n and len(st.targets) == 1 and isinstance(st.targets[0], ast.Name):
                        nm = st.targets[0].id
                        stores = [x for x in ast.walk(fn) if isinstance(x, ast.Name) and x.id == nm and isinstance(x.ctx, ast.Store)]
                        live = nm in names_in_ret and len(stores) == 1
            found.append(sh if live else "dead:" + sh)
    other_boot = [n for n in ast.walk(fn) if isinstance(n, ast.Call) and extract.dotted(n) == "boot_time()"]
    if len(found) == 1 and len(other_boot) == 1:
        return found[0]
    if not found and other_boot:
        return "fresh"
    return "other:%s" % ",".join(found + ["boot_time()x%d" % len(other_boot)])


def _neg_rejected_c(snap, init):
    """second line of defence: `_init` calls cext.check_pid_range(pid) before building the platform
    object, and the C function raises ValueError for pid < 0"""
    import re
    fn = _find_method(init, "Process", "_init")
    calls = [n.lineno for n in ast.walk(fn) if isinstance(n, ast.Call) and extract.dotted(n.func).endswith("check_pid_range")]
    plat_obj = [n.lineno for n in ast.walk(fn) if isinstance(n, ast.Call) and extract.dotted(n.func) == "_psplatform.Process"]
    if not plat_obj:
        raise NotRecognised("_init: _psplatform.Process(pid) not found")
    src = snap.source("_psutil_common.c")
    m = re.search(r"psutil_check_pid_range\s*\([^)]*\)\s*\{(.*?)\n\}", src, re.S)
    if not m:
        raise NotRecognised("psutil_check_pid_range not found in _psutil_common.c")
    body = m.group(1)
    c_rejects = bool(re.search(r"if\s*\(\s*pid\s*<\s*0\s*\)\s*\{[^}]*PyExc_ValueError[^}]*return\s+NULL", body, re.S))
    return bool(calls) and min(calls) < min(plat_obj) and c_rejects


def _clock_ticks(plat):
    for st in plat.body:
        if isinstance(st, ast.Assign) and len(st.targets) == 1 and extract.dotted(st.targets[0]) == "CLOCK_TICKS":
            v = st.value
            if isinstance(v, ast.Call) and extract.dotted(v.func) == "os.sysconf" and len(v.args) == 1:
                return int(os.sysconf(extract.const(v.args[0])))
            return int(extract.const(v))
    raise NotRecognised("CLOCK_TICKS assignment not found")


def _io_no_value(plat):
    enum = {}
    for st in extract.find_class(plat, "IOPriority").body:
        if isinstance(st, ast.Assign) and len(st.targets) == 1 and isinstance(st.targets[0], ast.Name):
            enum[st.targets[0].id] = int(extract.const(st.value))
    fn = _find_method(plat, "Process", "ionice_set")
    for n in ast.walk(fn):
        if isinstance(n, ast.If) and _raises(n.body, "ValueError") and isinstance(n.test, ast.BoolOp) \
                and isinstance(n.test.op, ast.And) and len(n.test.values) == 2 \
                and extract.dotted(n.test.values[0]) == "value":
            c = n.test.values[1]
            if isinstance(c, ast.Compare) and len(c.ops) == 1 and isinstance(c.ops[0], ast.In) \
                    and isinstance(c.comparators[0], (ast.Set, ast.Tuple, ast.List)):
                names = [extract.dotted(e).split(".")[-1] for e in c.comparators[0].elts]
                return sorted(enum[x] for x in names)
    raise NotRecognised("ionice_set: 'ioclass accepts no value' test not recognised")


def _affinity_reset_mask(init):
    """N of the `range(N)` the Linux branch of `if not cpus:` in Process.cpu_affinity asks for"""
    fn = _find_method(init, "Process", "cpu_affinity")
    for n in ast.walk(fn):
        if isinstance(n, ast.If) and isinstance(n.test, ast.UnaryOp) and isinstance(n.test.op, ast.Not) \
                and extract.dotted(n.test.operand) == "cpus":
            for m in n.body:
                if isinstance(m, ast.If) and extract.dotted(m.test) == "LINUX":
                    rs = [c for st in m.body for c in ast.walk(st)
                          if isinstance(c, ast.Call) and extract.dotted(c.func) == "range" and len(c.args) == 1]
                    if len(rs) == 1:
                        return int(extract.const(rs[0].args[0]))
    raise NotRecognised("cpu_affinity: `if not cpus: if LINUX: … range(N)` not recognised")


def all_facts(snap, F, skip=()):
    if skip:
        real_try_add = F.try_add
        F = type("FactsView", (), {"try_add": staticmethod(lambda name, *a, **kw: None if name in skip else real_try_add(name, *a, **kw))})()
    init = extract.parse_module(snap, "__init__.py")
    plat = extract.parse_module(snap, "_pslinux.py")
    F.try_add("clockTicks", "Nat", lambda: extract.lean_nat(_clock_ticks(plat)),
              "_pslinux.CLOCK_TICKS (os.sysconf of the name in the source)")
    F.try_add("goneRaises", "Bool", lambda: extract.lean_bool(_gone_raises(init)),
              "Process._raise_if_pid_reused raises NoSuchProcess when self._gone is set")
    F.try_add("bootWriteOnce", "Bool", lambda: extract.lean_bool(_boot_write_once(plat)),
              "every assignment to BOOT_TIME in _pslinux.boot_time() sits under `if BOOT_TIME is None`")
    F.try_add("bootStoresElsewhere", "List String",
              lambda: extract.lean_list(_boot_stores_elsewhere(snap), extract.lean_str),
              "stores to BOOT_TIME anywhere in the package outside _pslinux.boot_time() and the `BOOT_TIME = None` initialisation (module:function)")
    F.try_add("createBoot", "String", lambda: extract.lean_str(_create_boot(plat)),
              "how _pslinux.Process.create_time gets the boot time that flows into its result: or | isNotNone | fresh | dead:… | other:…")
    F.try_add("windowCalls", "List String", lambda: extract.lean_list(_window_calls(init), extract.lean_str),
              "calls Process._send_signal makes between the reuse guard and os.kill (the check-then-kill window)")
    F.try_add("nativePidArgs", "List (String × List String)",
              lambda: extract.lean_list([extract.lean_pair(extract.lean_str(m), extract.lean_list(a, extract.lean_str))
                                         for m, a in _native_pid_args(plat)]),
              "platform setter -> the PID argument of every call site of its native entry point (setpriority, proc_ioprio_set, proc_cpu_affinity_set, prlimit)")
    F.try_add("guardedMethods", "List String",
              lambda: extract.lean_list(_guarded_methods(init), extract.lean_str),
              "public Process methods whose OS effect is dominated by self._raise_if_pid_reused()")
    F.try_add("signalMap", "List (String × Nat)",
              lambda: extract.lean_list([extract.lean_pair(extract.lean_str(m), extract.lean_nat(_quiet(lambda: _signal_of(init, m)[1], 0)))
                                         for m in SIGNAL_METHODS]),
              "method -> number of the signal.SIGxxx constant it passes to _send_signal")
    F.try_add("pid0Refused", "Bool",
              lambda: extract.lean_bool(_refusal_before(_find_method(init, "Process", "_send_signal"),
                                                        lambda t: _cmp_is(t, ("pid", "self.pid"), ast.Eq, 0), "ValueError", "os.kill")),
              "_send_signal raises ValueError for pid == 0 before os.kill")
    F.try_add("negRejectedPy", "Bool",
              lambda: extract.lean_bool(_refusal_before(_find_method(init, "Process", "_init"),
                                                        lambda t: _cmp_is(t, ("pid",), ast.Lt, 0), "ValueError", "_psplatform.Process")),
              "Process._init raises ValueError for pid < 0 before anything else")
    F.try_add("negRejectedC", "Bool", lambda: extract.lean_bool(_neg_rejected_c(snap, init)),
              "Process._init calls cext.check_pid_range(pid) first, whose C code raises ValueError for pid < 0")
    F.try_add("rlimitPid0Refused", "Bool",
              lambda: extract.lean_bool(_refusal_before(_find_method(plat, "Process", "rlimit"),
                                                        lambda t: _cmp_is(t, ("self.pid",), ast.Eq, 0), "ValueError", "resource.prlimit")),
              "_pslinux.Process.rlimit raises ValueError for pid 0 before resource.prlimit")
    F.try_add("affinityResetMask", "Nat", lambda: extract.lean_nat(_affinity_reset_mask(init)),
              "Process.cpu_affinity(<empty sequence>) on Linux hands range(N) to cpu_affinity_set")
    F.try_add("ioNoValue", "List Int", lambda: extract.lean_list(_io_no_value(plat), extract.lean_int),
              "ioclasses for which ionice_set rejects a non-zero value")


def facts(snap, F):
    all_facts(snap, F)
    # C01-only obligation (`cfg_ident_writers`); C02 calls `all_facts` directly
    F.try_add("identWriters", "List String", lambda: extract.lean_list(_ident_writers(snap), extract.lean_str),
              "functions of the package that store to an attribute named `_ident` (file:Class.function)")
    # C01-only: the reader of /proc/<pid>/stat (obligation `scfg_good`; Model/C01Stat.lean runs on it)
    c01_stat.stat_facts(snap, F)
    # C01-only: every os.kill call site of the package with the guards that dominate it (obligation `kcfg_good`;
    # Model/C01Kill.lean walks it)
    c01_kill.kill_facts(snap, F)


# ------------------------------------------------------------------------------ simulated kernel

class SimKernel:
    """Python twin of `Psutil.C01.Kernel` (used to render the fake procfs and to annotate effects)."""

    def __init__(self, btime):
        self.procs = {}      # pid -> [start, zombie]
        self.lines = {}      # pid -> what /proc/<pid>/stat shows besides pid, state, starttime (c01_stat.line_of)
        self.clock = 0
        self.btime = btime
        self.denied = {}     # pid -> "EPERM" | "EACCES": what the kernel answers to kill/setpriority/… on that PID
        self.hidden = set()  # PIDs whose /proc/<pid>/stat cannot be opened

    def apply(self, op):
        k = op["op"]
        if k == "spawn":
            if op["pid"] not in self.procs:
                self.procs[op["pid"]] = [self.clock, False]
                self.lines[op["pid"]] = c01_stat.line_of(op)
                self.clock += 1
        elif k == "stat":
            # the line of a listed process changes (prctl(PR_SET_NAME), counters, …): pid, state, starttime stay
            if op["pid"] in self.procs:
                self.lines[op["pid"]] = c01_stat.line_of(op)
        elif k == "exit":
            if op["pid"] in self.procs:
                self.procs[op["pid"]][1] = True
        elif k == "reap":
            self.procs.pop(op["pid"], None)
            self.lines.pop(op["pid"], None)
        elif k == "tick":
            self.clock += op["n"]
        elif k == "setbtime":
            self.btime = op["b"]
        elif k == "perm":
            if op["e"] == "allow":
                self.denied.pop(op["pid"], None)
            else:
                self.denied[op["pid"]] = op["e"]
        elif k == "hide":
            (self.hidden.add if op["on"] else self.hidden.discard)(op["pid"])
        else:
            raise ValueError(op)

    def owner(self, pid):
        return self.procs[pid][0] if pid in self.procs else None


KERNEL_OPS = ("spawn", "exit", "reap", "tick", "setbtime", "perm", "hide", "stat")


def line_ok(hist):
    return all(c01_stat.line_wf(c01_stat.line_of(o)) for o in hist["ops"] if o["op"] in ("spawn", "stat"))


def hyp_of(hist):
    """do the theorems' hypotheses hold for this history?  (`HistOK true`: /proc/<pid>/stat always readable — no `hide on`
    event, flag cleared by the generators of such families; permission changes, clock steps and a published boot time of
    0 are inside the hypotheses)"""
    if not all(c01_stat.line_wf(c01_stat.line_of(o)) for o in hist["ops"] if o["op"] in ("spawn", "stat")):
        return False     # a stat line that is not in the kernel's format (HistWF, Proofs/C01Stat.lean): never generated
    return bool(hist.get("hyp", True)) and not any(o["op"] == "hide" and o["on"] for o in hist["ops"])


def judge_as(hist, prop):
    """by which statement a history is judged: the property's full oracle inside the hypotheses (`HistOK`); for C01 in
    histories with unreadable stat files (`HistOKb true`: `hide` events anywhere, any boot time) the clauses that are
    theorems there — "C01h": the any-state clauses (C01_exact_args, C01_outcome_truthful, negative PIDs, no effect by a
    non-effect call, never a process group) and, whenever /proc/<pid>/stat of the object's PID OPENS at the moment of the
    call, the recycling clause itself (C01_recycled_raises_NSP_readable / C01_effect_readable_right_owner); otherwise the
    model only ("none")"""
    if hyp_of(hist):
        return prop
    if prop == "C01" and any(o["op"] == "hide" for o in hist["ops"]):
        return "C01h"
    if prop == "C02" and any(o["op"] == "hide" for o in hist["ops"]) and line_ok(hist) and hist.get("hyp_b", True):
        # C02 over histories with unreadable stat files (`HistOKb`): the clauses that are theorems there — "C02h":
        # is_running() False once the object's incarnation left the table and the PID's stat file opens at the moment
        # of the call (C02_not_running_after_gone_readable), never True again after False, a True == means same PID,
        # equal hashes and — when one of the two has a start time — the same process (C02_eq_any_readability)
        return "C02h"
    return "none"


class SimPs:
    """Python twin of the identity part of `Psutil.C01.Ps` (good configuration) — used by the generators
    only, to know which object indices exist at each point of a history (process_iter() creates objects
    depending on its cache and on `_pids_reused`).  Never used as an oracle: a call through an index that
    turns out not to exist is answered `badCall` on both sides."""

    def __init__(self):
        self.objs = []       # [pid, ghost, gone, reused, start known (stat was readable at construction)]
        self.pmap = {}       # pid -> object index
        self.flagged = set()

    def _new(self, k, pid):
        if pid >= 0 and pid in k.procs:
            self.objs.append([pid, k.procs[pid][0], False, False, pid not in k.hidden])
            return True
        return False

    def _is_running(self, k, i):
        o = self.objs[i]
        if o[2] or o[3]:
            return False
        if o[0] not in k.procs:
            o[2] = True
            return False
        mine = o[1] if o[4] else None
        now = k.procs[o[0]][0] if o[0] not in k.hidden else None
        if now != mine:
            o[2] = o[3] = True
            self.flagged.add(o[0])
            return False
        return True

    def apply(self, k, op):
        kind = op["op"]
        if kind == "new":
            self._new(k, op["pid"])
        elif kind == "process_iter":
            for pid in [q for q in self.pmap if q not in k.procs]:
                del self.pmap[pid]
            evicted = set()
            for pid in self.flagged:
                if pid in self.pmap:
                    del self.pmap[pid]
                    evicted.add(pid)
            self.flagged = set()
            for pid in sorted(k.procs):
                if pid not in self.pmap and pid not in evicted and self._new(k, pid):
                    self.pmap[pid] = len(self.objs) - 1
        elif kind in ("is_running", "signal", "setter", "ppid") or (kind == "other" and op.get("what") == "children"):
            i = op["i"]
            if i < len(self.objs):
                o = self.objs[i]
                if kind == "is_running" or not o[3]:
                    self._is_running(k, i)       # the other three run it through _raise_if_pid_reused()


def stat_line(pid, start, zombie, line=None):
    # pid (comm) state ppid pgrp session tty_nr tpgid flags minflt cminflt majflt cmajflt utime stime
    # cutime cstime priority nice num_threads itrealvalue starttime vsize rss … (52 fields); comm and the other
    # fields are an input of the histories (c01_stat: `spawn` / `stat` ops; default = the line written here since round 1)
    return c01_stat.render_line(pid, start, zombie, line or c01_stat.default_line(pid))


class Impl:
    """Real psutil over a fake procfs; OS entry points replaced by recorders."""

    def __init__(self, ctx):
        self.ps = ctx.psutil
        self.plat = self.ps._psplatform
        self.fp = FakeProc(self.ps, prefix="psv-c01-")
        self.kern = SimKernel(1)
        self.objs = []
        self.log = []
        self.cur = None
        import resource
        self.resource = resource
        self.saved = [(os, "kill", os.kill),
                      (self.plat.cext_posix, "setpriority", self.plat.cext_posix.setpriority),
                      (self.plat.cext, "proc_ioprio_set", self.plat.cext.proc_ioprio_set),
                      (self.plat.cext, "proc_cpu_affinity_set", self.plat.cext.proc_cpu_affinity_set),
                      (resource, "prlimit", resource.prlimit)]
        self.patched = False
        self.in_other = False
        self.saved.append((os, "waitpid", os.waitpid))
        self.clk = int(self.plat.CLOCK_TICKS)
        self._stat_re = re.compile(re.escape(self.fp.root) + r"/(\d+)/stat$")

    # ---- OS recorders
    def _deliver(self, kind, pid, arg):
        pid = int(pid)
        if self.in_other and kind == "kill" and arg == [0] and pid > 0:
            # `pid_exists()` inside wait(): kill(pid, 0) is an existence probe ("if sig is 0 no signal is sent"), not an effect
            if pid not in self.kern.procs:
                raise ProcessLookupError(errno.ESRCH, "No such process")
            res = self.kern.denied.get(pid)
            if res is not None:
                raise OSError(getattr(errno, res), os.strerror(getattr(errno, res)))
            return
        if kind == "kill" and pid <= 0:
            # the OS would signal a whole process group
            self.log.append({"kind": kind, "obj": self.cur, "pid": pid, "arg": arg, "owner": None, "res": None})
            return
        if pid not in self.kern.procs:
            raise ProcessLookupError(errno.ESRCH, "No such process")
        res = self.kern.denied.get(pid)
        # a refused attempt is logged too (whom psutil asked the kernel about, with which values) with the errno
        self.log.append({"kind": kind, "obj": self.cur, "pid": pid, "arg": arg, "owner": self.kern.owner(pid), "res": res})
        if res is not None:
            raise OSError(getattr(errno, res), os.strerror(getattr(errno, res)))    # → PermissionError

    def _open(self, fname, *a, **kw):
        """`open` as psutil._common sees it: /proc/<pid>/stat of a listed, hidden PID cannot be opened
        (EACCES for odd PIDs, EPERM for even ones: both are PermissionError)"""
        m = self._stat_re.match(os.fsdecode(fname)) if isinstance(fname, (str, bytes)) else None
        if m:
            pid = int(m.group(1))
            if pid in self.kern.hidden and pid in self.kern.procs:
                e = errno.EACCES if pid % 2 else errno.EPERM
                raise OSError(e, os.strerror(e), os.fsdecode(fname))
        return open(fname, *a, **kw)

    def patch(self):
        if self.patched:
            return
        os.kill = lambda pid, sig: self._deliver("kill", pid, [int(sig)])
        self.plat.cext_posix.setpriority = lambda pid, value: self._deliver("nice", pid, [int(value)])
        self.plat.cext.proc_ioprio_set = lambda pid, ioclass, value: self._deliver("ionice", pid, [int(ioclass), int(value)])
        self.plat.cext.proc_cpu_affinity_set = lambda pid, cpus: self._deliver("affinity", pid, sorted(int(c) for c in cpus))

        def prlimit(pid, res, limits=None):
            if limits is None:
                raise RuntimeError("harness: prlimit get form not expected")
            self._deliver("rlimit", pid, [int(res)] + [int(x) for x in limits])
        self.resource.prlimit = prlimit

        def waitpid(pid, flags):
            # no simulated process is a child of the harness
            raise ChildProcessError(errno.ECHILD, "No child processes")
        os.waitpid = waitpid
        self.ps._common.open = self._open       # shadows the builtin for open_binary / open_text only
        self.patched = True

    def unpatch(self):
        for mod, name, val in self.saved:
            setattr(mod, name, val)
        if "open" in vars(self.ps._common):
            del self.ps._common.open
        self.patched = False

    def close(self):
        self.unpatch()
        self.fp.close()

    # ---- world
    def render_stat(self):
        self.fp.write("stat", "cpu  1 0 1 10 0 0 0 0 0 0\ncpu0 1 0 1 10 0 0 0 0 0 0\nctxt 1\nbtime %d\nprocesses 1\n" % self.kern.btime)

    def render_pid(self, pid):
        if pid in self.kern.procs:
            st, z = self.kern.procs[pid]
            self.fp.write("%d/stat" % pid, stat_line(pid, st, z, self.kern.lines.get(pid)))
            # every /proc/<pid> has a cmdline file (empty for kernel threads and zombies): for a comm of 15 bytes or more
            # psutil.Process.name() (reached through str(p) / repr(p)) goes on to read it
            self.fp.write("%d/cmdline" % pid, "")
        else:
            self.fp.remove(str(pid))

    def reset(self, btime):
        reset_psutil_state(self.ps)
        self.fp.clear()
        self.kern = SimKernel(btime)
        self.objs = []
        self.idx = {}        # id(Process object) -> index in self.objs (objects are kept alive by self.objs)
        self.ghosts = []     # per object: owner of its PID at the moment the implementation built it
        self.blind = []      # per object: its PID was held and /proc/<pid>/stat did not open at that moment
        self.last_aux = None
        self.cms = {}
        self.log = []
        self.render_stat()

    # ---- one op
    def do(self, op):
        """returns (canonical outcome, list of new effects)"""
        k = op["op"]
        if k in KERNEL_OPS:
            self.kern.apply(op)
            if k in ("spawn", "exit", "reap", "stat"):
                self.render_pid(op["pid"])
            elif k == "setbtime":
                self.render_stat()
            return {"kind": "unit"}, []
        n0 = len(self.log)
        self.last_aux = self._aux(op)
        self.patch()
        try:
            out = self._call(op)
        except BaseException as e:  # every exception is an observable
            if isinstance(e, (KeyboardInterrupt, SystemExit)):
                raise
            out = {"kind": "exc", "exc": type(e).__name__}
            if isinstance(e, self.ps.Error) and getattr(e, "pid", None) is not None:
                out["pid"] = e.pid
        finally:
            self.unpatch()
        return out, self.log[n0:]

    def _aux(self, op):
        """what the specification needs to know about the implementation's own objects named by this call
        (used only by `after_drift`)"""
        i, j = op.get("i"), op.get("j")
        if i is None or i >= len(self.objs):
            return None
        pid = self.objs[i].pid
        aux = {"pid": pid, "ghost": self.ghosts[i], "owner": self.kern.owner(pid),
               "readable": pid not in self.kern.procs or pid not in self.kern.hidden}
        if j is not None and j < len(self.objs):
            aux["pid2"], aux["ghost2"] = self.objs[j].pid, self.ghosts[j]
            aux["blind"], aux["blind2"] = self.blind[i], self.blind[j]
        return aux

    def _handle(self, p):
        i = self.idx.get(id(p))
        if i is None:
            self.objs.append(p)
            self.ghosts.append(self.kern.owner(p.pid))
            self.blind.append(p.pid in self.kern.procs and p.pid in self.kern.hidden)   # built while its stat file did not open
            i = self.idx[id(p)] = len(self.objs) - 1
        return i

    def _obj(self, i):
        if i >= len(self.objs):
            raise BadCall()
        self.cur = i
        return self.objs[i]

    def _call(self, op):
        k = op["op"]
        ps = self.ps
        try:
            if k == "new":
                self.cur = None
                p = ps.Process(op["pid"])
                return {"kind": "obj", "i": self._handle(p)}
            if k == "is_running":
                return {"kind": "bool", "v": bool(self._obj(op["i"]).is_running())}
            if k == "enter":
                # `with p.oneshot():` entered on object i; left by a later `leave` (or never). The identity
                # machine has no notion of oneshot: C16 says it changes speed, never answers, so the model
                # treats both ops as the identity and every later call is compared as usual.
                cm = self._obj(op["i"]).oneshot()
                cm.__enter__()
                self.cms.setdefault(op["i"], []).append(cm)
                return {"kind": "unit"}
            if k == "leave":
                self._obj(op["i"])
                stack = self.cms.get(op["i"]) or []
                if stack:
                    stack.pop().__exit__(None, None, None)
                return {"kind": "unit"}
            if k == "signal":
                p = self._obj(op["i"])
                m = op["m"]
                r = p.send_signal(op["sig"]) if m == "send" else getattr(p, m)()
                return {"kind": "unit"} if r is None else {"kind": "value", "v": repr(r)}
            if k == "setter":
                p = self._obj(op["i"])
                a = op["args"]
                kind = op["k"]
                if kind == "nice" and len(a) == 1:
                    r = p.nice(a[0])
                elif kind == "ionice" and len(a) == 1:
                    r = p.ionice(a[0])
                elif kind == "ionice" and len(a) == 2:
                    r = p.ionice(a[0], a[1])
                elif kind == "rlimit" and len(a) >= 1:
                    r = p.rlimit(a[0], tuple(a[1:]))
                elif kind == "affinity":
                    # (an empty sequence = "all eligible CPUs"; lists and tuples are both documented shapes)
                    r = p.cpu_affinity(tuple(a) if op.get("tuple") else list(a))
                else:
                    raise BadCall()
                return {"kind": "unit"} if r is None else {"kind": "value", "v": repr(r)}
            if k == "ppid":
                r = self._obj(op["i"]).ppid()
                return {"kind": "unit"} if isinstance(r, int) else {"kind": "value", "v": repr(r)}
            if k == "boot_time":
                self.cur = None
                return {"kind": "float", "v": float(ps.boot_time())}
            if k == "create_time":
                return {"kind": "float", "v": float(self._obj(op["i"]).create_time()) * self.clk}
            if k == "eq":
                a, b = self._obj(op["i"]), self._obj(op["j"])
                r = (a == b)
                if (a != b) == r:
                    return {"kind": "value", "v": "== and != agree"}
                return {"kind": "bool", "v": bool(r)}
            if k == "hash":
                p = self._obj(op["i"])
                return {"kind": "hash", "v": hash(p), "again": hash(p)}
            if k == "process_iter":
                # the yielded objects are handles of the history: those that are new by identity are appended to
                # the object list (in yield order), cached ones keep the index they already have
                self.cur = None
                return {"kind": "procs", "v": [[p.pid, self._handle(p)] for p in list(ps.process_iter())]}
            if k == "other":
                # another public call on object i; its own outcome (value or exception) is an ignored observable, what it
                # does to the answers and effects of every LATER call is not
                p = self._obj(op["i"])
                self.in_other = True
                try:
                    OTHER_CALLS[op["what"]](p, self)
                except BadCall:
                    raise
                except BaseException as e:
                    if isinstance(e, (KeyboardInterrupt, SystemExit)):
                        raise
                finally:
                    self.in_other = False
                return {"kind": "other"}
            if k == "status":
                p = self._obj(op["i"])
                txt, rep = str(p), repr(p)
                m = re.search(r"status='([^']*)'", txt)
                word = m.group(1) if m else "none"
                if word not in ("terminated", "terminated + PID reused", "zombie", "none"):
                    word = "alive"       # the kernel's state letter of whoever holds the PID (sleeping, running, …)
                m2 = re.search(r"status='([^']*)'", rep)
                if (m2.group(1) if m2 else "none") != (m.group(1) if m else "none"):
                    return {"kind": "value", "v": "str and repr disagree"}
                return {"kind": "status", "v": word}
        except BadCall:
            return {"kind": "exc", "exc": "badCall"}
        raise ValueError(op)

    def pairs(self):
        n = len(self.objs)
        eq = [[bool(self.objs[i] == self.objs[j]) for j in range(n)] for i in range(n)]
        hs = [hash(o) for o in self.objs]
        return {"eq": eq, "hash": hs}


class BadCall(Exception):
    pass


# public Process calls outside the identity machinery (model: identity, `Call.oneshot`; "children" = the reuse guard,
# `Call.ppid`).  parent()/parents() are not in the table: they shortcut on `pids()[0]` before the guard (C05's subject).
OTHER_CALLS = {
    "wait": lambda p, impl: p.wait(timeout=0),
    "as_dict": lambda p, impl: p.as_dict(attrs=["name", "status"]),
    "name": lambda p, impl: p.name(),
    "status": lambda p, impl: p.status(),
    "cpu_times": lambda p, impl: p.cpu_times(),
    "str": lambda p, impl: str(p),
    "repr": lambda p, impl: repr(p),
    "hash": lambda p, impl: hash(p),
    "eq_self": lambda p, impl: [p == q for q in impl.objs],
    "username": lambda p, impl: p.username(),
    "num_threads": lambda p, impl: p.num_threads(),
    "pid": lambda p, impl: p.pid,
    "children": lambda p, impl: p.children(),
    # a public call that asks create_time() on the way (model: `Call.createTime` — it memoises `_create_time`)
    "as_dict_ct": lambda p, impl: p.as_dict(attrs=["create_time", "name"]),
}
OTHER_NAMES = sorted(OTHER_CALLS)


# ------------------------------------------------------------------------------ comparing

def close(a, b):
    # doubles near 2^31 s carry ~2^-22 s; times CLOCK_TICKS that is far below 1e-3 ticks
    return abs(a - b) <= 1e-3 + 1e-12 * abs(b)


def same_out(im, mo):
    """implementation outcome vs model outcome (canonical forms)"""
    ik, mk = im.get("kind"), mo.get("kind")
    if ik == "float":
        return mk == "nat" and close(im["v"], mo["v"])
    if ik == "hash":
        return mk == "ident" and im["v"] == im["again"]
    if ik == "procs":
        return mk == "procs" and [list(x) for x in im["v"]] == [list(x) for x in mo["v"]]
    if ik == "exc":
        return mk == "exc" and im["exc"] == mo["exc"] and im.get("pid") == mo.get("pid")
    return im == mo


def compress(arg):
    """canonical form of effect values: a list 0, 1, …, n-1 with n > 64 (the full mask of cpu_affinity([])) is
    written {"range": n} — by the driver too (Model/C01Driver.lean: jArg); bijective, so nothing is hidden"""
    arg = list(arg)
    if len(arg) > 64 and arg == list(range(len(arg))):
        return {"range": len(arg)}
    return arg


def norm_eff(e):
    return {"kind": e["kind"], "obj": e["obj"], "pid": e["pid"], "arg": compress(e["arg"]), "owner": e["owner"],
            "res": e.get("res")}


def spec_violation(op, im, effs, sp, prop):
    """None, or a description of how (outcome, effects) of the implementation break what the
    specification printed by the driver promises for this call."""
    k = op["op"]
    if prop == "C02h":
        if k == "is_running" and "bool" in sp and sp.get("readable") and not sp["bool"] and not sp.get("may_raise"):
            if im != {"kind": "bool", "v": False}:
                return "is_running must be False: the object's incarnation left the process table and the PID's stat file opens"
        if k == "eq" and "bool" in sp and im == {"kind": "bool", "v": True}:
            if not sp.get("same_pid", True):
                return "== is True for objects of different PIDs"
            if sp.get("known") and not sp["bool"]:
                return "== is True for objects built for different processes (one of them has a start time)"
    if prop == "C02" or prop is None:
        if k in ("is_running", "eq") and "bool" in sp:
            if im != {"kind": "bool", "v": sp["bool"]}:
                return "%s must be %s for these incarnations" % (k, sp["bool"])
        # (no spec-level judgement on `status` — str(p)/repr(p) are outside C02's statement: the op is compared
        # against the model only, which transcribes __str__ as it is)
        if k == "process_iter" and "listed_pids" in sp and im.get("kind") == "procs":
            ys = [x[0] for x in im["v"]]
            if any(y not in sp["listed_pids"] for y in ys):
                return "process_iter() yielded a PID that is not in the process table"
            if ys != sorted(set(ys)):
                return "process_iter() yielded a PID twice or out of order"
    if prop in ("C01", "C01h") or prop is None:
        # "C01h": a history with unreadable stat files — the recycling clause speaks when the PID's stat file opens
        # at the moment of the call (sp["readable"], Spec.StatOpens)
        speaks = prop != "C01h" or bool(sp.get("readable"))
        if k == "new" and sp.get("exc") == "ValueError" and im != {"kind": "exc", "exc": "ValueError"}:
            return "negative pid must be rejected with ValueError"
        if k not in KERNEL_OPS and k not in ("signal", "setter") and effs:
            return "a call that is neither a signal nor a setter reached the OS"
        if k in ("signal", "setter") and "listed" in sp:
            if len(effs) > 1:
                return "more than one OS effect"
            for e in effs:
                if e["kind"] == "kill" and e["pid"] <= 0:
                    return "signal sent to PID %d (a process group)" % e["pid"]
                if e["pid"] != sp["pid"]:
                    return "effect on PID %d, object has PID %d" % (e["pid"], sp["pid"])
                if speaks and e["owner"] != sp["ghost"]:
                    return "delivered to incarnation %r, object was built for incarnation %r" % (e["owner"], sp["ghost"])
                want = sp.get("want_arg")
                if e["kind"] != sp.get("want_kind"):
                    return "effect kind %s, asked %s" % (e["kind"], sp.get("want_kind"))
                if e["kind"] == "affinity" and isinstance(want, list):
                    want = sorted(set(want))
                if e["arg"] != want:
                    return "values %r handed to the OS, asked %r" % (e["arg"], want)
                # C01_outcome_truthful: what the kernel answered is what the caller is told
                if e["res"] is not None and not (im.get("kind") == "exc" and im.get("exc") == "AccessDenied"
                                                 and im.get("pid") == sp["pid"]):
                    return "the kernel refused (%s): AccessDenied(%d) expected" % (e["res"], sp["pid"])
                if e["res"] is None and im.get("kind") == "exc":
                    return "the OS carried the call out but the caller got %s" % im.get("exc")
            if not effs and im.get("kind") != "exc":
                return "the call returned normally although nothing was handed to the OS"
            if prop == "C01" and k == "signal" and sp["listed"] and sp["pid"] > 0 and not effs:
                # C01_live_signal_delivered: the guard refuses nothing it should not (full hypotheses only; this is the
                # clause the former finding C02-boottime-zero broke: a cached BOOT_TIME of 0.0 read as "unset")
                return ("no os.kill although the object's own incarnation holds the PID: %s(%s) for a live process"
                        % (im.get("exc"), im.get("pid")))
            if not sp["listed"] and speaks:
                if effs:
                    return "effect although the object's incarnation lost the PID"
                if not (im.get("kind") == "exc" and im.get("exc") == "NoSuchProcess" and im.get("pid") == sp["pid"]):
                    return "recycled/ended process: NoSuchProcess(%d) expected" % sp["pid"]
    return None


def run_histories(ctx, impl, hists, driver_file=None):
    """Execute histories on implementation and model. A history = {"btime": b, "ops": [...]}.
    Returns per history {"rows": [(op, impl_out, impl_eff, model_out, model_eff, spec)], "pairs": (impl, model, spec)}"""
    lines = []
    for h in hists:
        lines.append({"op": "reset", "btime": h["btime"]})
        lines.extend(h["ops"])
        lines.append({"op": "pairs"})
    outs = ctx.driver(driver_file).batch(lines)
    res = []
    i = 0
    for h in hists:
        i += 1
        impl.reset(h["btime"])
        rows = []
        for o in h["ops"]:
            m = outs[i]
            i += 1
            if "bad" in m:
                raise RuntimeError("driver rejected %r: %s" % (o, m))
            im, effs = impl.do(o)
            if o["op"] in ONESHOT_OPS and im.get("exc") == "badCall":
                # model: `Call.oneshot` is the identity on every state (C02_oneshot_identity), whatever the index
                im = {"kind": "unit"}
            if o["op"] == "other":
                # the outcome of the call itself is not compared (only that it reached nothing and what follows)
                im = m["model"]["out"]
            rows.append((o, im, [norm_eff(e) for e in effs], m["model"]["out"], m["model"]["eff"], m["spec"], impl.last_aux))
        pm = outs[i]
        i += 1
        res.append({"rows": rows, "pairs": (impl.pairs(), pm["model"], pm["spec"])})
    return res, len(lines)


def validation_drift(op, im, ie, mo, me, sp):
    """A setter on a LIVE object where one side rejects the values (ValueError, nothing delivered) and
    the other delivers exactly what was asked: which values a platform setter accepts is C18's
    subject, not C01's — both behaviours satisfy C01 and leave the identity state untouched."""
    if op["op"] != "setter" or not sp.get("listed"):
        return False
    rej = {"kind": "exc", "exc": "ValueError"}
    for (o1, e1), (o2, e2) in (((im, ie), (mo, me)), ((mo, me), (im, ie))):
        if o1 == rej and not e1 and o2 == {"kind": "unit"} and len(e2) == 1:
            return True
    return False


def after_drift(result, n0, prop, sticky):
    """The implementation has left the model at step n0, so what the driver prints from there on (model AND spec:
    the ghost fields live in the model's state) no longer describes the implementation's objects.  To still name a
    concrete failing input, the rest of the history is judged by the specification evaluated on the implementation's
    own objects: ghost of an object = owner of its PID when the implementation built it (C02_ghost_meaning /
    C02_iter_ghost_meaning), recorded by `Impl._handle`; `owner` = owner of the PID when the call was made."""
    if prop not in ("C01", "C01h", "C02", "C02h"):
        return None
    weak = prop in ("C01h", "C02h")
    if weak:
        prop = prop[:3]
    depth = {}
    sticky = dict(sticky)
    for n, (o, im, ie, mo, me, sp, aux) in enumerate(result["rows"]):
        k = o["op"]
        if k == "enter":
            depth[o["i"]] = depth.get(o["i"], 0) + 1
        elif k == "leave":
            depth[o["i"]] = max(0, depth.get(o["i"], 0) - 1)
        if n < n0 or aux is None:
            continue
        why = None
        listed = aux["owner"] is not None and aux["owner"] == aux["ghost"]
        speaks = (not weak) or aux.get("readable", False)
        if prop == "C02" and weak:
            if k == "is_running" and im.get("kind") == "bool":
                if im["v"] and not listed and aux.get("readable", False):
                    why = "is_running must be False: the object's incarnation left the process table and the PID's stat file opens"
                elif im["v"] and sticky.get(o["i"]) is False:
                    why = "is_running() became True again after it had been False"
                sticky[o["i"]] = im["v"]
            if k == "eq" and im.get("kind") == "bool" and im["v"] and "pid2" in aux:
                if aux["pid"] != aux["pid2"]:
                    why = "== is True for objects of different PIDs"
                elif aux["ghost"] != aux["ghost2"] and not (aux.get("blind") and aux.get("blind2")):
                    why = "== is True for objects built for different processes (one of them was built while its stat file opened)"
        elif prop == "C02":
            if k == "is_running" and im.get("kind") == "bool":
                if im["v"] != listed:
                    why = "is_running must be %s for this incarnation" % listed
                elif im["v"] and sticky.get(o["i"]) is False:
                    why = "is_running() became True again after it had been False"
                sticky[o["i"]] = im["v"]
            if k == "eq" and im.get("kind") == "bool" and "pid2" in aux:
                same = aux["pid"] == aux["pid2"] and aux["ghost"] == aux["ghost2"]
                if im["v"] != same:
                    why = "== must be %s for these incarnations" % same
        if prop == "C01" and k in ("signal", "setter"):
            for e in ie:
                if e["kind"] == "kill" and e["pid"] <= 0:
                    why = "signal sent to PID %d (a process group)" % e["pid"]
                elif e["pid"] != aux["pid"]:
                    why = "effect on PID %d, object has PID %d" % (e["pid"], aux["pid"])
                elif speaks and e["owner"] != aux["ghost"]:
                    why = "delivered to incarnation %r, object was built for incarnation %r" % (e["owner"], aux["ghost"])
            if speaks and not listed and not ie and not (im.get("kind") == "exc" and im.get("exc") == "NoSuchProcess"
                                               and im.get("pid") == aux["pid"]):
                why = "recycled/ended process: NoSuchProcess(%d) expected" % aux["pid"]
        if why:
            return ("spec", n, {"out": im, "eff": ie}, {"out": mo, "eff": me},
                    {"harness_side": True, "pid": aux["pid"], "ghost": aux["ghost"], "owner_now": aux["owner"]},
                    why + " (judged on the implementation's own objects: it left the model at step %d)" % n0)
    return None


def first_problem(result, prop, drift=None):
    """('spec'|'model', step index or None, impl, model, spec, note) for the first disagreement, else None"""
    sticky = {}
    depth = {}
    for n, (o, im, ie, mo, me, sp, _aux) in enumerate(result["rows"]):
        if o["op"] == "enter":
            depth[o["i"]] = depth.get(o["i"], 0) + 1
        elif o["op"] == "leave":
            depth[o["i"]] = max(0, depth.get(o["i"], 0) - 1)
        if o["op"] == "ppid" and depth.get(o["i"], 0) > 0 and not ie and not me:
            # inside a oneshot() block ppid() is memoised by design (C16: the value of the first read in the block),
            # so a repeated call may answer from the cache instead of raising NoSuchProcess; it is a query, not a
            # signal/setter: C01 only requires that it reaches nothing
            continue
        if o["op"] == "status" and depth.get(o["i"], 0) > 0 and not ie and not me:
            # inside a oneshot() block on that object name()/status() are served from the memoised stat record
            # (C16: the record read first in the block), so str(p) may show the state the process had then; the
            # status theorems speak about str(p) taken outside a block
            continue
        why = spec_violation(o, im, ie, sp, prop)
        if why is None and o["op"] == "is_running" and im.get("kind") == "bool" and prop in ("C02", "C02h", None):
            if im["v"] and sticky.get(o["i"]) is False:
                why = "is_running() became True again after it had been False"
            sticky[o["i"]] = im["v"]
        if why:
            return ("spec", n, {"out": im, "eff": ie}, {"out": mo, "eff": me}, sp, why)
        if not same_out(im, mo) or ie != me:
            if validation_drift(o, im, ie, mo, me, sp):
                if drift is not None:
                    drift.append(n)
                continue
            later = after_drift(result, n, prop, sticky)
            if later:
                return later
            return ("model", n, {"out": im, "eff": ie}, {"out": mo, "eff": me}, sp, "implementation differs from the Lean model")
    ip, mp, sp = result["pairs"]
    n = len(ip["hash"])
    if prop in ("C02", None):
        if ip["eq"] != sp["same"]:
            return ("spec", None, ip, mp, sp, "pairwise == differs from 'same PID and same process start'")
        for a in range(n):
            for b in range(n):
                if sp["same"][a][b] and ip["hash"][a] != ip["hash"][b]:
                    return ("spec", None, ip, mp, sp, "equal objects %d,%d hash differently" % (a, b))
    if prop == "C02h":
        # C02_eq_any_readability: objects that compare equal hash alike (judged on the implementation's own answers)
        for a in range(n):
            for b in range(n):
                if ip["eq"][a][b] and ip["hash"][a] != ip["hash"][b]:
                    return ("spec", None, ip, mp, sp, "objects %d,%d compare equal but hash differently" % (a, b))
    if ip["eq"] != mp["eq"]:
        return ("model", None, ip, mp, sp, "pairwise == differs from the model")
    for a in range(n):
        for b in range(n):
            if (mp["hash"][a] == mp["hash"][b]) and ip["hash"][a] != ip["hash"][b]:
                return ("model", None, ip, mp, sp, "hash classes differ from the model")
    return None


# ------------------------------------------------------------------------------ generators

PIDS = [5, 7, 9]
ONESHOT_OPS = ("enter", "leave")
SIG_METHODS = ["suspend", "resume", "terminate", "kill"]


class Plan:
    """builds a history while tracking what the kernel table and the object list will look like"""

    def __init__(self, rng, btime, clk):
        self.rng = rng
        self.k = SimKernel(btime)
        self.ops = []
        self.sp = SimPs()
        self.nobj = 0
        self.obj_pid = []
        self.btime0 = btime
        self.clk = clk

    def ev(self, **op):
        self.ops.append(op)
        if op["op"] in KERNEL_OPS:
            self.k.apply(op)
        else:
            self.sp.apply(self.k, op)
            self.nobj = len(self.sp.objs)
            self.obj_pid = [o[0] for o in self.sp.objs]
        return self

    def tick(self, hi=3):
        # keep the clock below CLOCK_TICKS so that start/CLK + boot never coincides by float rounding
        n = self.rng.randrange(0, hi + 1)
        if self.k.clock + n < self.clk - 20:
            self.ev(op="tick", n=n)

    def any_obj(self):
        return self.rng.randrange(self.nobj) if self.nobj else None

    def rand_signal(self, i):
        r = self.rng.random()
        if r < 0.5:
            self.ev(op="signal", i=i, m=self.rng.choice(SIG_METHODS), sig=0)
        else:
            self.ev(op="signal", i=i, m="send", sig=self.rng.randrange(0, 65))

    def rand_setter(self, i):
        rng = self.rng
        kind = rng.choice(["nice", "ionice", "rlimit", "affinity"])
        if kind == "nice":
            args = [rng.randrange(-25, 25)]
        elif kind == "ionice":
            c = rng.choice([0, 1, 2, 3, 3, 0, 4])
            args = [c] if rng.random() < 0.25 else [c, rng.choice([0, 0, 1, 4, 7, 8, -1])]
        elif kind == "rlimit":
            args = [rng.randrange(0, 16)] + [rng.choice([0, 1, 1024, 2**63 - 1]) for _ in range(rng.choice([2, 2, 2, 2, 0, 1, 3]))]
        else:
            # (empty = "all eligible CPUs"; list or tuple)
            args = [rng.randrange(0, 8) for _ in range(rng.choice([0, 0, 1, 1, 2, 3, 4]))]
            if rng.random() < 0.3:
                self.ev(op="setter", i=i, k=kind, args=args, tuple=True)
                return
        self.ev(op="setter", i=i, k=kind, args=args)

    def deny(self, pid):
        self.ev(op="perm", pid=pid, e=self.rng.choice(["EPERM", "EACCES"]))

    def effect_call(self, i):
        if self.rng.random() < 0.6:
            self.rand_signal(i)
        else:
            self.rand_setter(i)

    def query(self, i):
        r = self.rng.random()
        if r < 0.4:
            self.ev(op="is_running", i=i)
        elif r < 0.55:
            self.ev(op="ppid", i=i)
        elif r < 0.65:
            self.ev(op="create_time", i=i)
        elif r < 0.72:
            self.ev(op="hash", i=i)
        elif r < 0.8:
            self.ev(op="status", i=i)
        elif r < 0.9 and self.k.procs:
            # (an empty process table is impossible on a real system — the caller exists — and makes
            # psutil.pids() raise IndexError on `ret[0]`; not generated)
            self.ev(op="process_iter")
        else:
            self.ev(op="eq", i=i, j=self.rng.randrange(self.nobj))

    def hist(self, family, hyp=True):
        return {"btime": self.btime0, "ops": self.ops, "family": family, "hyp": hyp}


def rand_btime(rng):
    return rng.choice([1, 1000, 1700000000, rng.randrange(1, 2**31)])


def step_btime(rng, b):
    nb = b + rng.choice([-1000, -10, -1, 1, 10, 3600])
    return nb if nb > 0 else b + 7


def gen_history(rng, family, clk):
    if family == "stat_bytes":
        return c01_stat.gen_stat_history(rng, Plan, rand_btime, PIDS, clk)
    P = Plan(rng, rand_btime(rng), clk)
    p = rng.choice(PIDS)
    if family == "gone_path":
        # exit → is_running → reuse → signal: the `_gone` path (lead L1)
        P.ev(op="spawn", pid=p).ev(op="new", pid=p)
        if rng.random() < 0.5:
            P.ev(op="exit", pid=p)
        P.ev(op="reap", pid=p)
        if rng.random() < 0.8:
            P.ev(op="is_running", i=0)
        else:
            P.rand_signal(0)      # os.kill → ESRCH also sets `_gone`
        P.tick()
        P.ev(op="spawn", pid=p)
        if rng.random() < 0.3:
            P.ev(op="new", pid=p)
        for _ in range(rng.randrange(1, 4)):
            P.effect_call(rng.randrange(P.nobj))
        P.ev(op="is_running", i=0)
    elif family == "reuse_noquery":
        P.ev(op="spawn", pid=p).ev(op="new", pid=p).ev(op="reap", pid=p)
        P.tick()
        P.ev(op="spawn", pid=p)
        for _ in range(rng.randrange(1, 4)):
            P.effect_call(0)
        P.ev(op="is_running", i=0)
    elif family == "reuse_zombie":
        P.ev(op="spawn", pid=p).ev(op="new", pid=p).ev(op="reap", pid=p).ev(op="spawn", pid=p).ev(op="exit", pid=p)
        if rng.random() < 0.5:
            P.ev(op="new", pid=p)
        for _ in range(rng.randrange(1, 4)):
            i = rng.randrange(P.nobj)
            P.effect_call(i) if rng.random() < 0.7 else P.query(i)
    elif family == "multi_recycle":
        P.ev(op="spawn", pid=p).ev(op="new", pid=p)
        for _ in range(rng.randrange(2, 7)):
            if rng.random() < 0.3:
                P.ev(op="exit", pid=p)
            P.ev(op="reap", pid=p)
            if rng.random() < 0.4:
                P.query(rng.randrange(P.nobj))
            P.ev(op="spawn", pid=p)
            if rng.random() < 0.5:
                P.ev(op="new", pid=p)
            if rng.random() < 0.5:
                P.effect_call(rng.randrange(P.nobj))
        for i in range(P.nobj):
            P.effect_call(i)
            P.ev(op="is_running", i=i)
    elif family == "pid0":
        P.ev(op="new", pid=-rng.randrange(1, 9))
        P.ev(op="spawn", pid=0).ev(op="new", pid=0)
        for _ in range(rng.randrange(1, 5)):
            P.effect_call(0) if rng.random() < 0.8 else P.query(0)
        if rng.random() < 0.5:
            P.ev(op="reap", pid=0).ev(op="spawn", pid=0)
            P.effect_call(0)
        P.ev(op="new", pid=-1)
    elif family == "clock_step":
        # published btime changes, boot_time() is called, objects are created before and after (lead L2)
        P.ev(op="spawn", pid=p).ev(op="new", pid=p)
        if rng.random() < 0.3:
            P.ev(op="boot_time")
        b = P.k.btime
        for _ in range(rng.randrange(1, 3)):
            b = step_btime(rng, b)
            P.ev(op="setbtime", b=b)
            if rng.random() < 0.8:
                P.ev(op="boot_time")
            if rng.random() < 0.7:
                P.ev(op="new", pid=p)
        q = rng.choice(PIDS)
        P.ev(op="spawn", pid=q).ev(op="new", pid=q)
        for i in range(P.nobj):
            P.ev(op="is_running", i=i)
            if rng.random() < 0.6:
                P.effect_call(i)
        P.ev(op="eq", i=0, j=P.nobj - 1)
    elif family == "coincidence":
        # a clock step + boot_time() that makes the NEW owner's create time equal the old one's
        kk = rng.randrange(1, 4)
        base = rng.randrange(10, 2**31)
        P = Plan(rng, base, clk)
        P.ev(op="spawn", pid=p).ev(op="new", pid=p)       # start 0
        P.ev(op="reap", pid=p)
        P.ev(op="tick", n=clk * kk - P.k.clock)
        P.ev(op="spawn", pid=p)                            # start clk*kk
        P.ev(op="setbtime", b=base - kk)
        P.ev(op="boot_time")
        P.effect_call(0)
        P.ev(op="is_running", i=0)
        P.ev(op="new", pid=p).ev(op="eq", i=0, j=1)
    elif family == "live":
        for q in PIDS[:rng.randrange(1, 4)]:
            P.ev(op="spawn", pid=q)
            if rng.random() < 0.3:
                P.ev(op="exit", pid=q)     # a zombie is still that process
            P.ev(op="new", pid=q)
        for _ in range(rng.randrange(2, 8)):
            i = rng.randrange(P.nobj)
            P.effect_call(i) if rng.random() < 0.7 else P.query(i)
    elif family == "oneshot_reuse":
        # seeded C01-1: the PID is recycled while a oneshot() block is open on the object, after a call in that
        # block already ran the reuse guard on the live process; nothing inside the block may be served from a cache
        P.ev(op="spawn", pid=p).ev(op="new", pid=p)
        P.ev(op="enter", i=0)
        for _ in range(rng.randrange(0, 3)):
            r = rng.random()
            if r < 0.4:
                P.effect_call(0)
            elif r < 0.7:
                P.ev(op="ppid", i=0)
            else:
                P.query(0)
        if rng.random() < 0.3:
            P.ev(op="exit", pid=p)
        P.ev(op="reap", pid=p)
        if rng.random() < 0.3:
            P.query(0)
        P.tick()
        P.ev(op="spawn", pid=p)
        if rng.random() < 0.3:
            P.ev(op="exit", pid=p)          # reuse by a zombie
        for _ in range(rng.randrange(1, 4)):
            P.effect_call(0)
        if rng.random() < 0.5:
            P.ev(op="leave", i=0)
            P.effect_call(0)
        P.ev(op="is_running", i=0)
    elif family == "iter_handles":
        # seeded C02-1 and its neighbourhood: handles come from process_iter(); a stale handle on a recycled PID
        # (built by Process(pid) or cached by an earlier sweep) flags the reuse; the next sweep evicts the cache
        # entry — which may already belong to the NEW owner; every handle is then asked again
        q = rng.choice([x for x in PIDS if x != p])
        if rng.random() < 0.6:
            P.ev(op="spawn", pid=q)                 # bystander
        P.ev(op="spawn", pid=p)
        first = rng.random()
        if first < 0.5:
            P.ev(op="new", pid=p)                   # stale handle built by hand
        elif first < 0.85:
            P.ev(op="process_iter")                 # stale handle sits in the cache
        else:
            P.ev(op="new", pid=p).ev(op="process_iter")
        if rng.random() < 0.3:
            P.ev(op="is_running", i=0)
        if rng.random() < 0.3:
            P.ev(op="exit", pid=p)
        P.ev(op="reap", pid=p)
        P.tick()
        P.ev(op="spawn", pid=p)
        if rng.random() < 0.2:
            P.ev(op="exit", pid=p)                  # the new owner is a zombie
        for _ in range(rng.randrange(1, 4)):
            r = rng.random()
            if r < 0.45:
                P.ev(op="process_iter")
            elif r < 0.75:
                P.ev(op="is_running", i=rng.randrange(P.nobj))
            elif r < 0.9:
                P.effect_call(rng.randrange(P.nobj))
            else:
                P.ev(op="new", pid=p)
        stale = [i for i, o in enumerate(P.sp.objs) if o[0] == p and o[1] == 0] or [0]
        P.ev(op="is_running", i=rng.choice(stale)) if rng.random() < 0.8 else P.effect_call(rng.choice(stale))
        for _ in range(rng.randrange(1, 4)):
            P.ev(op="process_iter")
            if rng.random() < 0.3:
                P.query(rng.randrange(P.nobj))
        if rng.random() < 0.5:
            P.ev(op="new", pid=p)
        for i in range(P.nobj):
            P.ev(op="is_running", i=i)
            r = rng.random()
            if r < 0.35:
                P.effect_call(i)
            elif r < 0.6:
                P.ev(op="status", i=i)
        P.ev(op="eq", i=rng.randrange(P.nobj), j=P.nobj - 1)
    elif family == "iter_mixed":
        for q in PIDS[:rng.randrange(1, 4)]:
            P.ev(op="spawn", pid=q)
        for _ in range(rng.randrange(5, 22)):
            r = rng.random()
            q = rng.choice(PIDS)
            if r < 0.1:
                P.ev(op="spawn", pid=q)
            elif r < 0.14:
                P.ev(op="exit", pid=q)
            elif r < 0.26:
                P.ev(op="reap", pid=q).ev(op="spawn", pid=q) if rng.random() < 0.7 else P.ev(op="reap", pid=q)
            elif r < 0.3:
                P.ev(op="setbtime", b=step_btime(rng, P.k.btime))
            elif r < 0.5 and P.k.procs:
                P.ev(op="process_iter")
            elif r < 0.56:
                P.ev(op="new", pid=q)
            elif P.nobj:
                i = rng.randrange(P.nobj)
                rr = rng.random()
                if rr < 0.45:
                    P.ev(op="is_running", i=i)
                elif rr < 0.7:
                    P.effect_call(i)
                elif rr < 0.85:
                    P.ev(op="status", i=i)
                else:
                    P.query(i)
        for i in range(P.nobj):
            P.ev(op="is_running", i=i)
    elif family == "wait_then_reuse":
        # seeded C01-3 and its family: a public call that is "not part of the identity machinery" (wait() caching the exit
        # code, as_dict(), str(), …) runs on the object, then the PID is recycled: the guard must still refuse
        P.ev(op="spawn", pid=p).ev(op="new", pid=p)
        if rng.random() < 0.3:
            P.ev(op="other", i=0, what="wait")               # still alive: TimeoutExpired, nothing cached
        if rng.random() < 0.3:
            P.ev(op="enter", i=0)
        if rng.random() < 0.5:
            P.ev(op="exit", pid=p)
            if rng.random() < 0.3:
                P.ev(op="other", i=0, what="wait")           # zombie of somebody else: still there
        P.ev(op="reap", pid=p)
        P.ev(op="other", i=0, what="wait" if rng.random() < 0.7 else rng.choice(OTHER_NAMES))   # wait(0) → None
        if rng.random() < 0.3:
            P.ev(op="other", i=0, what=rng.choice(OTHER_NAMES))
        P.tick()
        P.ev(op="spawn", pid=p)
        if rng.random() < 0.2:
            P.ev(op="exit", pid=p)
        if rng.random() < 0.3:
            P.ev(op="other", i=0, what=rng.choice(OTHER_NAMES))
        for _ in range(rng.randrange(1, 4)):
            P.effect_call(0)
        if rng.random() < 0.5:
            P.ev(op="new", pid=p)
            P.ev(op="other", i=1, what="wait")
            P.effect_call(1)
            P.ev(op="is_running", i=1)
        P.ev(op="is_running", i=0)
    elif family == "perm_paths":
        # EPERM / EACCES from os.kill and from every setter's native call: AccessDenied(pid), exactly one attempt on the
        # object's own incarnation with the values asked, no sticky flag; the guard still comes first on a recycled PID
        q = rng.choice([x for x in PIDS if x != p])
        P.ev(op="spawn", pid=p)
        P.ev(op="new", pid=p) if rng.random() < 0.7 else P.ev(op="process_iter")
        if rng.random() < 0.6:
            P.ev(op="spawn", pid=q).ev(op="new", pid=q)      # bystander the kernel allows
        if rng.random() < 0.2:
            P.ev(op="exit", pid=p)                           # a zombie of another user
        P.deny(p)
        for _ in range(rng.randrange(1, 5)):
            P.effect_call(0)
        P.ev(op="is_running", i=0)
        if P.nobj > 1:
            P.effect_call(P.nobj - 1)
        r = rng.random()
        if r < 0.35:
            P.ev(op="perm", pid=p, e="allow")
            P.effect_call(0)
        elif r < 0.8:
            P.ev(op="reap", pid=p)
            if rng.random() < 0.5:
                P.effect_call(0)                             # PID free: NoSuchProcess, no attempt
            P.tick()
            P.ev(op="spawn", pid=p)                          # recycled, still denied
            P.effect_call(0)
            P.ev(op="new", pid=p) if rng.random() < 0.6 else P.ev(op="process_iter").ev(op="process_iter")
            for i in range(P.nobj):
                P.effect_call(i)
            if rng.random() < 0.5:
                P.ev(op="perm", pid=p, e="allow")
                P.effect_call(P.nobj - 1)
                P.effect_call(0)
        else:
            P.deny(p)                                        # the errno changes
            P.effect_call(0)
        for i in range(P.nobj):
            P.ev(op="is_running", i=i)
    elif family == "perm_mixed":
        for q in PIDS[:rng.randrange(1, 4)]:
            P.ev(op="spawn", pid=q)
        for _ in range(rng.randrange(6, 24)):
            r = rng.random()
            q = rng.choice(PIDS)
            if r < 0.08:
                P.ev(op="spawn", pid=q)
            elif r < 0.12:
                P.ev(op="exit", pid=q)
            elif r < 0.22:
                P.ev(op="reap", pid=q).ev(op="spawn", pid=q) if rng.random() < 0.7 else P.ev(op="reap", pid=q)
            elif r < 0.34:
                P.deny(q) if rng.random() < 0.7 else P.ev(op="perm", pid=q, e="allow")
            elif r < 0.42 and P.k.procs:
                P.ev(op="process_iter")
            elif r < 0.52:
                P.ev(op="new", pid=q)
            elif P.nobj:
                i = rng.randrange(P.nobj)
                P.effect_call(i) if rng.random() < 0.7 else P.query(i)
        for i in range(P.nobj):
            P.effect_call(i)
            P.ev(op="is_running", i=i)
    elif family == "unknown_start":
        # OUTSIDE the hypotheses (model correspondence only): /proc/<pid>/stat unreadable → `_ident = (pid, None)`;
        # what ==, is_running(), the guard, ppid(), create_time(), str() and process_iter() then do
        P.ev(op="spawn", pid=p)
        if rng.random() < 0.4:
            P.ev(op="new", pid=p)                            # an object with a known start
        P.ev(op="hide", pid=p, on=True)
        P.ev(op="new", pid=p) if rng.random() < 0.7 else P.ev(op="process_iter")

        def poke():
            i = rng.randrange(P.nobj)
            r = rng.random()
            if r < 0.25:
                P.ev(op="is_running", i=i)
            elif r < 0.4:
                P.ev(op="eq", i=i, j=rng.randrange(P.nobj))
            elif r < 0.5:
                P.ev(op="create_time", i=i)
            elif r < 0.6:
                P.ev(op="ppid", i=i)
            elif r < 0.7:
                P.ev(op="status", i=i)
            elif r < 0.78:
                P.ev(op="hash", i=i)
            elif r < 0.86 and P.k.procs:
                P.ev(op="process_iter")
            else:
                P.effect_call(i)
        for _ in range(rng.randrange(0, 4)):
            poke()
        r = rng.random()
        if r < 0.4:
            P.ev(op="hide", pid=p, on=False)
        if rng.random() < 0.5:
            P.ev(op="reap", pid=p)
            P.tick()
            P.ev(op="spawn", pid=p)
            if rng.random() < 0.3:
                P.ev(op="hide", pid=p, on=rng.random() < 0.5)
        if rng.random() < 0.5:
            P.ev(op="new", pid=p)
        for _ in range(rng.randrange(1, 6)):
            poke()
        for i in range(P.nobj):
            P.ev(op="is_running", i=i)
    elif family == "unknown_recycled":
        # seeded C01-5 — INSIDE C01_recycled_raises_NSP_readable (judged "C01h"): the stat file is unreadable WHILE an
        # object is built (`_ident = (pid, None)`), the process ends, the PID is recycled (1-3 times; the new holder
        # live or a zombie; readable before / after / never), public calls in between (create_time(), as_dict(
        # ['create_time']), hash, str, ==, ppid, children, wait, process_iter, Process(pid), is_running of OTHER
        # objects), then signals / setters through every object: once the PID's stat file opens, a stale object must
        # get NoSuchProcess and reach nobody — it may never adopt the new holder
        P.ev(op="spawn", pid=p)
        if rng.random() < 0.3:
            P.ev(op="new", pid=p)                            # same incarnation, start known
        P.ev(op="hide", pid=p, on=True)
        P.ev(op="new", pid=p) if rng.random() < 0.7 else P.ev(op="process_iter")
        u = P.nobj - 1

        def between():
            i = u if rng.random() < 0.7 else rng.randrange(P.nobj)
            r = rng.random()
            if r < 0.35:
                P.ev(op="create_time", i=i)
            elif r < 0.5:
                P.ev(op="other", i=i, what=rng.choice(["as_dict_ct", "as_dict_ct", "as_dict", "wait", "name", "eq_self", "str",
                                                         "hash", "cpu_times", "username"]))
            elif r < 0.6:
                P.ev(op="hash", i=i)
            elif r < 0.68:
                P.ev(op="status", i=i)
            elif r < 0.76:
                P.ev(op="ppid", i=i)
            elif r < 0.84:
                P.ev(op="eq", i=i, j=rng.randrange(P.nobj))
            elif r < 0.9 and P.k.procs:
                P.ev(op="process_iter")
            elif r < 0.95:
                P.ev(op="new", pid=p)
            else:
                P.ev(op="is_running", i=rng.randrange(P.nobj))
        for _ in range(rng.randrange(0, 3)):
            between()
        for _ in range(rng.choice([1, 1, 1, 2, 3])):
            early = rng.random() < 0.3
            if early:
                P.ev(op="hide", pid=p, on=False)
            if rng.random() < 0.3:
                P.ev(op="exit", pid=p)
            P.ev(op="reap", pid=p)
            P.tick()
            if rng.random() < 0.85:
                P.ev(op="spawn", pid=p)
                if rng.random() < 0.2:
                    P.ev(op="exit", pid=p)                   # the new holder is a zombie
            if not early and rng.random() < 0.8:
                P.ev(op="hide", pid=p, on=False)
            for _ in range(rng.randrange(0, 3)):
                between()
            for _ in range(rng.randrange(1, 4)):
                P.effect_call(u if rng.random() < 0.7 else rng.randrange(P.nobj))
            if rng.random() < 0.4 and p in P.k.procs:
                # another object built blind, on the new holder
                P.ev(op="hide", pid=p, on=True)
                P.ev(op="new", pid=p)
                u = P.nobj - 1 if rng.random() < 0.5 else u
        for i in range(P.nobj):
            P.ev(op="is_running", i=i)
        return P.hist(family, hyp=False)
    elif family == "btime0":
        # a machine that boots at the epoch (published btime 0) and is stepped later.  Inside the theorems since
        # /repo 29257b1 (create_time() tests `BOOT_TIME is not None`; obligation cfg_none_test): judged by the
        # SPECIFICATION like every other family
        P = Plan(rng, 0, clk)
        P.ev(op="spawn", pid=p).ev(op="new", pid=p).ev(op="setbtime", b=rng.choice([0, 5])).ev(op="boot_time")
        P.ev(op="new", pid=p).ev(op="is_running", i=0).ev(op="eq", i=0, j=1)
        P.effect_call(0)
        return P.hist(family, hyp=True)
    else:  # mixed
        for _ in range(rng.randrange(4, 26)):
            r = rng.random()
            q = rng.choice(PIDS)
            if r < 0.14:
                P.ev(op="spawn", pid=q)
            elif r < 0.2:
                P.ev(op="exit", pid=q)
            elif r < 0.3:
                P.ev(op="reap", pid=q)
            elif r < 0.34:
                P.tick()
            elif r < 0.39:
                P.ev(op="setbtime", b=step_btime(rng, P.k.btime))
            elif r < 0.44:
                P.ev(op="boot_time")
            elif r < 0.58:
                P.ev(op="new", pid=q if rng.random() < 0.95 else -q)
            elif P.nobj:
                i = rng.randrange(P.nobj)
                P.effect_call(i) if rng.random() < 0.5 else P.query(i)
    return sprinkle_other(rng, sprinkle_oneshot(rng, P.hist(family)))


def sprinkle_other(rng, h):
    """with probability 1/2 insert 1-3 OTHER public calls (wait(0), as_dict(), name(), str(), children(), …) on some
    object somewhere after its creation: their own outcome is ignored, every later answer and effect is compared as usual"""
    if rng.random() >= 0.5:
        return h
    for _ in range(rng.randrange(1, 4)):
        ops = h["ops"]
        k = SimKernel(1)
        sp = SimPs()
        born = []
        for n, o in enumerate(ops):
            if o["op"] in KERNEL_OPS:
                k.apply(o)
            else:
                sp.apply(k, o)
                born.extend([n] * (len(sp.objs) - len(born)))
        if not born:
            return h
        j = rng.randrange(len(born))
        a = rng.randrange(born[j] + 1, len(ops) + 1)
        what = "wait" if rng.random() < 0.4 else rng.choice(OTHER_NAMES)
        if what == "children" and any(o["op"] == "process_iter" for o in ops[a:]):
            what = "wait"      # (children() runs the guard: it would shift which objects later sweeps create; keep indices valid)
        ops.insert(a, {"op": "other", "i": j, "what": what})
    return h


def sprinkle_oneshot(rng, h):
    """with probability 1/3 open a oneshot() block on some object somewhere after its creation and close it
    later (or never): no answer and no effect may change (the model ignores both ops)"""
    if rng.random() >= 1 / 3:
        return h
    ops = h["ops"]
    k = SimKernel(1)
    sp = SimPs()
    born = []                       # index in ops after which object j exists
    for n, o in enumerate(ops):
        if o["op"] in KERNEL_OPS:
            k.apply(o)
        else:
            sp.apply(k, o)
            born.extend([n] * (len(sp.objs) - len(born)))
    if not born:
        return h
    j = rng.randrange(len(born))
    a = rng.randrange(born[j] + 1, len(ops) + 1)
    ops.insert(a, {"op": "enter", "i": j})
    if rng.random() < 0.6:
        b = rng.randrange(a + 1, len(ops) + 1)
        ops.insert(b, {"op": "leave", "i": j})
    return h


STAT_FAMILIES = ["stat_bytes", "stat_bytes", "stat_bytes"]      # C01 only (correspond_for)
FAMILIES = ["gone_path", "reuse_noquery", "reuse_zombie", "multi_recycle", "pid0", "clock_step", "coincidence",
            "live", "mixed", "oneshot_reuse", "iter_handles", "iter_mixed", "mixed", "iter_handles", "btime0",
            "perm_paths", "perm_mixed", "unknown_start", "perm_paths", "wait_then_reuse", "wait_then_reuse",
            "unknown_recycled", "unknown_recycled"]


def well_indexed(combo):
    """every call that names an object names one that exists at that point (a call through a missing
    index never reaches psutil: the harness answers `badCall` itself)"""
    k = SimKernel(1)
    sp = SimPs()
    for o in combo:
        op = o["op"]
        if op in KERNEL_OPS:
            k.apply(o)
        else:
            if any(o.get(x, -1) >= len(sp.objs) for x in ("i", "j")):
                return False
            sp.apply(k, o)
    return True


def exhaustive_histories(maxlen, btime=1000):
    """all histories up to `maxlen` over a small alphabet on one PID (objects 0 and 1)"""
    p = 5
    alphabet = [
        {"op": "spawn", "pid": p}, {"op": "reap", "pid": p}, {"op": "exit", "pid": p},
        {"op": "new", "pid": p}, {"op": "is_running", "i": 0},
        {"op": "signal", "i": 0, "m": "kill", "sig": 0},
        {"op": "setter", "i": 1, "k": "nice", "args": [3]},
        {"op": "setbtime", "b": btime + 10}, {"op": "boot_time"}, {"op": "eq", "i": 0, "j": 1},
    ]
    for n in range(1, maxlen + 1):
        for combo in itertools.product(alphabet, repeat=n):
            if n > 3 and not well_indexed(combo):
                continue
            yield {"btime": btime, "ops": list(combo), "family": "exhaustive", "hyp": True}


def exhaustive_two_pids(maxlen, btime=1000):
    """all histories up to `maxlen` over a small alphabet on two PIDs (objects 0 and 1 may belong to
    either): cross-PID interference through the shared module state"""
    alphabet = [
        {"op": "spawn", "pid": 5}, {"op": "spawn", "pid": 7}, {"op": "reap", "pid": 5},
        {"op": "new", "pid": 5}, {"op": "new", "pid": 7},
        {"op": "signal", "i": 0, "m": "terminate", "sig": 0}, {"op": "is_running", "i": 1},
        {"op": "eq", "i": 0, "j": 1},
    ]
    for n in range(3, maxlen + 1):
        for combo in itertools.product(alphabet, repeat=n):
            if not well_indexed(combo):
                continue
            yield {"btime": btime, "ops": list(combo), "family": "exhaustive2", "hyp": True}


def exhaustive_oneshot(maxlen, btime=1000):
    """all histories `spawn · Process · w` with |w| <= maxlen over {enter(0), leave(0), reap, spawn, kill(0), nice(0),
    ppid(0), is_running(0)} on one PID: every placement of a PID recycling relative to the entry into / exit
    from a oneshot() block and to the calls inside it"""
    p = 5
    alphabet = [
        {"op": "enter", "i": 0}, {"op": "leave", "i": 0}, {"op": "reap", "pid": p}, {"op": "spawn", "pid": p},
        {"op": "signal", "i": 0, "m": "kill", "sig": 0}, {"op": "setter", "i": 0, "k": "nice", "args": [3]},
        {"op": "ppid", "i": 0}, {"op": "is_running", "i": 0},
    ]
    head = [{"op": "spawn", "pid": p}, {"op": "new", "pid": p}]
    for n in range(1, maxlen + 1):
        for combo in itertools.product(alphabet, repeat=n):
            if not any(o["op"] == "enter" for o in combo):
                continue
            yield {"btime": btime, "ops": head + [dict(o) for o in combo], "family": "exhaustive_oneshot", "hyp": True}


def iter_on_empty_table(ops):
    """process_iter() with an empty process table: impossible on a real system (the caller exists) and
    psutil.pids() raises IndexError on `ret[0]` — not generated"""
    k = SimKernel(1)
    for o in ops:
        if o["op"] in KERNEL_OPS:
            k.apply(o)
        elif o["op"] == "process_iter" and not k.procs:
            return True
    return False


def exhaustive_iter(maxlen, btime=1000):
    """all histories `spawn · Process · reap · spawn · w` (a stale handle 0 on a PID that has just been recycled),
    |w| <= maxlen, over {process_iter(), is_running(0), is_running(1), reap, spawn, kill(1), ==(0,1), cpu_affinity(0, [])}
    containing a process_iter() or a cpu_affinity([]), in which every call names an existing object: every interleaving of sweeps of process_iter() with the call that flags the
    reuse and with further recyclings; handle 1 comes from process_iter() or not at all"""
    p = 5
    alphabet = [
        {"op": "process_iter"}, {"op": "is_running", "i": 0}, {"op": "is_running", "i": 1},
        {"op": "reap", "pid": p}, {"op": "spawn", "pid": p},
        {"op": "signal", "i": 1, "m": "kill", "sig": 0}, {"op": "eq", "i": 0, "j": 1},
        {"op": "setter", "i": 0, "k": "affinity", "args": []},
    ]
    head = [{"op": "spawn", "pid": p}, {"op": "new", "pid": p}, {"op": "reap", "pid": p}, {"op": "spawn", "pid": p}]
    for n in range(1, maxlen + 1):
        for combo in itertools.product(alphabet, repeat=n):
            if not any(o["op"] in ("process_iter", "setter") for o in combo):
                continue
            ops = head + [dict(o) for o in combo]
            if not well_indexed(ops) or iter_on_empty_table(ops):
                continue
            yield {"btime": btime, "ops": ops, "family": "exhaustive_iter", "hyp": True}


def exhaustive_perm(maxlen, btime=1000):
    """all well-indexed histories `spawn · Process · w`, |w| <= maxlen, over {kernel refuses PID 5 (EPERM), allows it again,
    reap, spawn, kill(0), nice(0), is_running(0), Process(5), kill(1)} containing a refusal: every placement of a
    permission change relative to a recycling and to the calls"""
    p = 5
    alphabet = [
        {"op": "perm", "pid": p, "e": "EPERM"}, {"op": "perm", "pid": p, "e": "allow"},
        {"op": "reap", "pid": p}, {"op": "spawn", "pid": p},
        {"op": "signal", "i": 0, "m": "kill", "sig": 0}, {"op": "setter", "i": 0, "k": "nice", "args": [3]},
        {"op": "is_running", "i": 0}, {"op": "new", "pid": p}, {"op": "signal", "i": 1, "m": "kill", "sig": 0},
    ]
    head = [{"op": "spawn", "pid": p}, {"op": "new", "pid": p}]
    for n in range(1, maxlen + 1):
        for combo in itertools.product(alphabet, repeat=n):
            if not any(o.get("e") == "EPERM" for o in combo):
                continue
            ops = head + [dict(o) for o in combo]
            if not well_indexed(ops):
                continue
            yield {"btime": btime, "ops": ops, "family": "exhaustive_perm", "hyp": True}


def exhaustive_wait(maxlen, btime=1000):
    """all histories `spawn · Process · w`, |w| <= maxlen, over {wait(0) on object 0, as_dict(0), children(0), exit, reap,
    spawn, kill(0), nice(0), is_running(0)} containing a wait(0): every placement of a wait() — on the live process, on
    the zombie, after the reaping, after the recycling — relative to the calls the guard protects"""
    p = 5
    alphabet = [
        {"op": "other", "i": 0, "what": "wait"}, {"op": "other", "i": 0, "what": "as_dict"},
        {"op": "other", "i": 0, "what": "children"},
        {"op": "exit", "pid": p}, {"op": "reap", "pid": p}, {"op": "spawn", "pid": p},
        {"op": "signal", "i": 0, "m": "kill", "sig": 0}, {"op": "setter", "i": 0, "k": "nice", "args": [3]},
        {"op": "is_running", "i": 0},
    ]
    head = [{"op": "spawn", "pid": p}, {"op": "new", "pid": p}]
    for n in range(1, maxlen + 1):
        for combo in itertools.product(alphabet, repeat=n):
            if not any(o.get("what") == "wait" for o in combo):
                continue
            yield {"btime": btime, "ops": head + [dict(o) for o in combo], "family": "exhaustive_wait", "hyp": True}


def exhaustive_hidden(maxlen, btime=1000):
    """(outside the hypotheses: model comparison only) all well-indexed histories `spawn · w`, |w| <= maxlen, over
    {stat of PID 5 unreadable, readable, Process(5), reap, spawn, is_running(0), kill(0), ==(0,1)} containing a `hide`"""
    p = 5
    alphabet = [
        {"op": "hide", "pid": p, "on": True}, {"op": "hide", "pid": p, "on": False}, {"op": "new", "pid": p},
        {"op": "reap", "pid": p}, {"op": "spawn", "pid": p}, {"op": "is_running", "i": 0},
        {"op": "signal", "i": 0, "m": "kill", "sig": 0}, {"op": "eq", "i": 0, "j": 1},
    ]
    head = [{"op": "spawn", "pid": p}]
    for n in range(2, maxlen + 1):
        for combo in itertools.product(alphabet, repeat=n):
            if not any(o["op"] == "hide" and o["on"] for o in combo):
                continue
            ops = head + [dict(o) for o in combo]
            if not well_indexed(ops):
                continue
            yield {"btime": btime, "ops": ops, "family": "exhaustive_hidden", "hyp": False}


def exhaustive_unknown_recycled(maxlen, thorough=False, btime=1000):
    """(judged "C01h") object 0 is built while the stat file of PID 5 is unreadable (`_ident = (5, None)`); all histories
    head · w, |w| <= maxlen, for head = spawn·hide·Process(5) and head = spawn·hide·Process(5)·reap·spawn (already
    recycled), over {stat readable, unreadable, create_time(0), is_running(0), kill(0), nice(0, 1), reap, spawn}
    (thorough: + as_dict(['create_time'])(0), Process(5), kill(1)) that make the stat file readable at some point and
    contain a signal / setter"""
    p = 5
    alphabet = [
        {"op": "hide", "pid": p, "on": False}, {"op": "hide", "pid": p, "on": True}, {"op": "create_time", "i": 0},
        {"op": "is_running", "i": 0}, {"op": "signal", "i": 0, "m": "kill", "sig": 0},
        {"op": "setter", "i": 0, "k": "nice", "args": [1]}, {"op": "reap", "pid": p}, {"op": "spawn", "pid": p},
    ]
    if thorough:
        alphabet += [{"op": "other", "i": 0, "what": "as_dict_ct"}, {"op": "new", "pid": p},
                     {"op": "signal", "i": 1, "m": "kill", "sig": 0}]
    base = [{"op": "spawn", "pid": p}, {"op": "hide", "pid": p, "on": True}, {"op": "new", "pid": p}]
    for head in (base, base + [{"op": "reap", "pid": p}, {"op": "spawn", "pid": p}]):
        for n in range(2, maxlen + 1):
            for combo in itertools.product(alphabet, repeat=n):
                if not any(o["op"] == "hide" and not o["on"] for o in combo):
                    continue
                if not any(o["op"] in ("signal", "setter") for o in combo):
                    continue
                ops = head + [dict(o) for o in combo]
                if thorough and not well_indexed(ops):
                    continue
                yield {"btime": btime, "ops": ops, "family": "exhaustive_unknown_recycled", "hyp": False}


def exhaustive_two_pids_iter(maxlen, btime=1000):
    """(thorough tier) all well-indexed histories of length 3..maxlen on two PIDs whose handles come from Process(5)
    or from process_iter(): {spawn 5, spawn 7, reap 5, Process(5), process_iter(), terminate(0), terminate(1),
    is_running(0), is_running(1), ==(0,1)} containing a process_iter() (never on an empty table)"""
    alphabet = [
        {"op": "spawn", "pid": 5}, {"op": "spawn", "pid": 7}, {"op": "reap", "pid": 5},
        {"op": "new", "pid": 5}, {"op": "process_iter"},
        {"op": "signal", "i": 0, "m": "terminate", "sig": 0}, {"op": "signal", "i": 1, "m": "terminate", "sig": 0},
        {"op": "is_running", "i": 0}, {"op": "is_running", "i": 1}, {"op": "eq", "i": 0, "j": 1},
    ]
    for n in range(3, maxlen + 1):
        for combo in itertools.product(alphabet, repeat=n):
            if not any(o["op"] == "process_iter" for o in combo):
                continue
            if not well_indexed(combo) or iter_on_empty_table(combo):
                continue
            yield {"btime": btime, "ops": [dict(o) for o in combo], "family": "exhaustive2_iter", "hyp": True}


def features(h, result):
    """which clauses of the properties a history exercised"""
    f = set()
    for (o, im, ie, mo, me, sp, _aux) in result["rows"]:
        k = o["op"]
        if k in ("signal", "setter") and "listed" in sp:
            f.add("call_live" if sp["listed"] else "call_recycled_or_gone")
            if ie:
                f.add("delivered")
            if any(x[0]["op"] == "enter" for x in result["rows"]):
                f.add("call_after_oneshot_enter")
            if im.get("exc") == "ValueError":
                f.add("value_error")
            if any(e.get("res") for e in ie):
                f.add("refused:" + ie[0]["res"])
                f.add("refused")
            if sp.get("refusal") and not sp["listed"]:
                f.add("refusal_pending_but_recycled")
        if k == "is_running" and "bool" in sp:
            f.add("running_true" if sp["bool"] else "running_false")
        if k == "setbtime":
            f.add("clock_step")
        if k == "boot_time":
            f.add("boot_time_call")
        if k == "eq" and "bool" in sp:
            f.add("eq_true" if sp["bool"] else "eq_false")
        if k == "new" and im.get("kind") == "exc":
            f.add("new_" + im["exc"])
        if k == "hide" and o["on"]:
            f.add("stat_hidden")
        if k in ("signal", "setter") and "readable" in sp and any(x[0]["op"] == "hide" for x in result["rows"]):
            # histories with unreadable phases: did the recycling clause speak for this call (C01h)?
            if not sp["listed"]:
                f.add("hidden:stale_call_stat_opens" if sp["readable"] else "hidden:stale_call_stat_unreadable(clause silent)")
                if sp["readable"] and any(x[0]["op"] in ("create_time",) or x[0].get("what") == "as_dict_ct" for x in result["rows"]):
                    f.add("hidden:stale_call_stat_opens_after_create_time")
            elif sp["readable"]:
                f.add("hidden:live_call_stat_opens")
        if k == "other":
            f.add("other:" + o["what"])
        if im.get("exc") == "AccessDenied" and k not in ("signal", "setter"):
            f.add("access_denied:" + k)
        if k == "process_iter" and im.get("kind") == "procs":
            f.add("iter")
            known = result.setdefault("_seen_handles", set())
            for pid, i in im["v"]:
                if i in known:
                    f.add("iter_yields_cached_handle")
                known.add(i)
            if len(im["v"]) < len(set(sp.get("listed_pids", []))):
                f.add("iter_skips_evicted_pid")
        if k not in KERNEL_OPS and k != "process_iter" and "i" in o and o["i"] in result.get("_seen_handles", ()):
            f.add("call_on_iter_handle")
            if k == "is_running" and "bool" in sp:
                f.add("iter_handle_running_true" if sp["bool"] else "iter_handle_running_false")
        if k == "status" and im.get("kind") == "status":
            f.add("status:" + im["v"] + ("" if sp.get("listed") else " (incarnation gone)"))
    ip = result["pairs"][0]
    if len(ip["hash"]) >= 2:
        f.add("pairs")
    sf = c01_stat.stat_features(h)
    if sf:
        f |= sf
        for (o, im, ie, mo, me, sp, _aux) in result["rows"]:
            if o["op"] in ("signal", "setter") and "listed" in sp:
                f.add("stat:call_live" if sp["listed"] else "stat:call_recycled_or_gone")
    return f


NONTRIVIAL = {"call_recycled_or_gone", "running_false", "clock_step", "eq_false", "eq_true", "value_error", "refused",
              "stat_hidden", "hidden:stale_call_stat_opens",
              "iter_skips_evicted_pid", "iter_handle_running_false", "iter_yields_cached_handle"}


# ------------------------------------------------------------------------------ correspondence

def witness_corpus(clk):
    """the two leads as concrete histories (run first)"""
    l1 = {"btime": 1000, "family": "corpus:L1", "hyp": True, "ops": [
        {"op": "spawn", "pid": 7}, {"op": "new", "pid": 7}, {"op": "reap", "pid": 7},
        {"op": "is_running", "i": 0}, {"op": "spawn", "pid": 7},
        {"op": "signal", "i": 0, "m": "kill", "sig": 0}]}
    l2 = {"btime": 1000, "family": "corpus:L2", "hyp": True, "ops": [
        {"op": "spawn", "pid": 8}, {"op": "new", "pid": 8}, {"op": "setbtime", "b": 1010},
        {"op": "boot_time"}, {"op": "new", "pid": 8}, {"op": "eq", "i": 0, "j": 1},
        {"op": "is_running", "i": 0}, {"op": "signal", "i": 0, "m": "terminate", "sig": 0}]}
    l2b = {"btime": 1000, "family": "corpus:L2-coincidence", "hyp": True, "ops": [
        {"op": "spawn", "pid": 7}, {"op": "new", "pid": 7}, {"op": "reap", "pid": 7},
        {"op": "tick", "n": clk - 1}, {"op": "spawn", "pid": 7}, {"op": "setbtime", "b": 999},
        {"op": "boot_time"}, {"op": "signal", "i": 0, "m": "kill", "sig": 0}]}
    # seeded C02-1: stale handle 0 on PID 5 (bystander 7), PID recycled, process_iter() hands out handle 1 on the
    # new owner (and 2 on the bystander), is_running(0) flags the reuse, the next sweep evicts the cache entry
    # of PID 5 — handle 1, whose process is alive — and skips the PID, the sweep after it builds handle 3
    it = {"btime": 1000, "family": "corpus:iter-evicts-live-handle", "hyp": True, "ops": [
        {"op": "spawn", "pid": 7}, {"op": "spawn", "pid": 5}, {"op": "new", "pid": 5}, {"op": "is_running", "i": 0},
        {"op": "reap", "pid": 5}, {"op": "spawn", "pid": 5}, {"op": "process_iter"},
        {"op": "is_running", "i": 1}, {"op": "eq", "i": 0, "j": 1}, {"op": "is_running", "i": 0},
        {"op": "process_iter"}, {"op": "is_running", "i": 1}, {"op": "process_iter"},
        {"op": "new", "pid": 5}, {"op": "is_running", "i": 4}, {"op": "eq", "i": 1, "j": 4}, {"op": "eq", "i": 1, "j": 3},
        {"op": "hash", "i": 1}, {"op": "is_running", "i": 1}, {"op": "is_running", "i": 3},
        {"op": "status", "i": 1}, {"op": "status", "i": 0},
        {"op": "signal", "i": 1, "m": "terminate", "sig": 0}, {"op": "is_running", "i": 2}]}
    # process_iter() keeps yielding the cached handle of a recycled PID until somebody asks is_running()
    it2 = {"btime": 1000, "family": "corpus:iter-stale-cache", "hyp": True, "ops": [
        {"op": "spawn", "pid": 7}, {"op": "process_iter"}, {"op": "reap", "pid": 7}, {"op": "spawn", "pid": 7},
        {"op": "process_iter"}, {"op": "status", "i": 0}, {"op": "signal", "i": 0, "m": "kill", "sig": 0},
        {"op": "status", "i": 0}, {"op": "process_iter"}, {"op": "process_iter"}, {"op": "enter", "i": 1},
        {"op": "signal", "i": 1, "m": "terminate", "sig": 0}, {"op": "is_running", "i": 0}, {"op": "is_running", "i": 1}]}
    # seeded C01-2: the empty sequence ("all eligible CPUs") through a stale handle, as list and as tuple, before and
    # after is_running() noticed; and on the live handle (full mask delivered to the object's own process)
    aff = {"btime": 1000, "family": "corpus:affinity-empty-stale", "hyp": True, "ops": [
        {"op": "spawn", "pid": 7}, {"op": "new", "pid": 7}, {"op": "setter", "i": 0, "k": "affinity", "args": []},
        {"op": "reap", "pid": 7}, {"op": "spawn", "pid": 7},
        {"op": "setter", "i": 0, "k": "affinity", "args": []},
        {"op": "setter", "i": 0, "k": "affinity", "args": [], "tuple": True},
        {"op": "is_running", "i": 0}, {"op": "setter", "i": 0, "k": "affinity", "args": []},
        {"op": "new", "pid": 7}, {"op": "setter", "i": 1, "k": "affinity", "args": [], "tuple": True}]}
    # permission inputs (Props/C01.lean, example "permission inputs"): refused attempts, AccessDenied, no sticky flag,
    # the guard before the kernel on a recycled PID, delivery once allowed
    perm = {"btime": 1000, "family": "corpus:perm-refused", "hyp": True, "ops": [
        {"op": "spawn", "pid": 7}, {"op": "new", "pid": 7}, {"op": "perm", "pid": 7, "e": "EPERM"},
        {"op": "signal", "i": 0, "m": "terminate", "sig": 0}, {"op": "is_running", "i": 0},
        {"op": "setter", "i": 0, "k": "nice", "args": [5]}, {"op": "setter", "i": 0, "k": "ionice", "args": [2, 4]},
        {"op": "setter", "i": 0, "k": "rlimit", "args": [7, 1024, 1024]}, {"op": "setter", "i": 0, "k": "affinity", "args": [0, 1]},
        {"op": "setter", "i": 0, "k": "affinity", "args": []}, {"op": "perm", "pid": 7, "e": "EACCES"},
        {"op": "signal", "i": 0, "m": "send", "sig": 10}, {"op": "reap", "pid": 7}, {"op": "spawn", "pid": 7},
        {"op": "signal", "i": 0, "m": "kill", "sig": 0}, {"op": "perm", "pid": 7, "e": "allow"},
        {"op": "signal", "i": 0, "m": "kill", "sig": 0}, {"op": "new", "pid": 7},
        {"op": "signal", "i": 1, "m": "kill", "sig": 0}]}
    # the characterisation witnesses of Props/C01.lean / Props/C02.lean (unreadable stat: OUTSIDE the hypotheses, the
    # real code is compared with the model, which proves what happens): C01_unknown_start_counterexample,
    # C02_unknown_start_counterexample
    u1 = {"btime": 1000, "family": "corpus:unknown-start-recycled", "hyp": False, "ops": [
        {"op": "spawn", "pid": 7}, {"op": "hide", "pid": 7, "on": True}, {"op": "new", "pid": 7}, {"op": "reap", "pid": 7},
        {"op": "spawn", "pid": 7}, {"op": "is_running", "i": 0}, {"op": "new", "pid": 7}, {"op": "eq", "i": 0, "j": 1},
        {"op": "signal", "i": 0, "m": "kill", "sig": 0}, {"op": "hide", "pid": 7, "on": False},
        {"op": "signal", "i": 0, "m": "kill", "sig": 0}]}
    u2 = {"btime": 1000, "family": "corpus:unknown-start-then-known", "hyp": False, "ops": [
        {"op": "spawn", "pid": 8}, {"op": "hide", "pid": 8, "on": True}, {"op": "new", "pid": 8},
        {"op": "create_time", "i": 0}, {"op": "ppid", "i": 0}, {"op": "status", "i": 0}, {"op": "hash", "i": 0},
        {"op": "hide", "pid": 8, "on": False}, {"op": "new", "pid": 8}, {"op": "eq", "i": 0, "j": 1},
        {"op": "create_time", "i": 0}, {"op": "eq", "i": 0, "j": 1}, {"op": "is_running", "i": 0},
        {"op": "is_running", "i": 1}, {"op": "process_iter"}, {"op": "process_iter"}, {"op": "status", "i": 0}]}
    u3 = {"btime": 1000, "family": "corpus:known-then-hidden", "hyp": False, "ops": [
        {"op": "spawn", "pid": 8}, {"op": "new", "pid": 8}, {"op": "hide", "pid": 8, "on": True},
        {"op": "create_time", "i": 0}, {"op": "ppid", "i": 0}, {"op": "status", "i": 0},
        {"op": "is_running", "i": 0}, {"op": "signal", "i": 0, "m": "terminate", "sig": 0}, {"op": "process_iter"},
        {"op": "is_running", "i": 1}, {"op": "eq", "i": 0, "j": 1}]}
    # seeded C01-3: wait() returned for the object (exit code cached), the PID is recycled, then signals / setters
    w1 = {"btime": 1000, "family": "corpus:wait-then-reuse", "hyp": True, "ops": [
        {"op": "spawn", "pid": 7}, {"op": "new", "pid": 7}, {"op": "other", "i": 0, "what": "wait"},
        {"op": "reap", "pid": 7}, {"op": "other", "i": 0, "what": "wait"}, {"op": "spawn", "pid": 7},
        {"op": "signal", "i": 0, "m": "kill", "sig": 0}, {"op": "setter", "i": 0, "k": "nice", "args": [5]},
        {"op": "other", "i": 0, "what": "as_dict"}, {"op": "other", "i": 0, "what": "children"},
        {"op": "setter", "i": 0, "k": "affinity", "args": [0]}, {"op": "is_running", "i": 0}]}
    # seeded C01-5 (Props/C01.lean, example after C01_effect_readable_right_owner): an object built blind, the PID
    # recycled by a readable process, create_time() / as_dict(['create_time']) asked in between, then every kind of
    # signal / setter: NoSuchProcess, nothing delivered (judged "C01h": C01_recycled_raises_NSP_readable)
    u4 = {"btime": 1000, "family": "corpus:unknown-start-recycled-readable", "hyp": False, "ops": [
        {"op": "spawn", "pid": 7}, {"op": "hide", "pid": 7, "on": True}, {"op": "new", "pid": 7}, {"op": "reap", "pid": 7},
        {"op": "spawn", "pid": 7}, {"op": "hide", "pid": 7, "on": False}, {"op": "create_time", "i": 0},
        {"op": "signal", "i": 0, "m": "kill", "sig": 0}, {"op": "other", "i": 0, "what": "as_dict_ct"},
        {"op": "setter", "i": 0, "k": "nice", "args": [5]}, {"op": "signal", "i": 0, "m": "send", "sig": 10},
        {"op": "setter", "i": 0, "k": "affinity", "args": []}, {"op": "setter", "i": 0, "k": "ionice", "args": [2, 4]},
        {"op": "setter", "i": 0, "k": "rlimit", "args": [7, 1024, 1024]}, {"op": "is_running", "i": 0},
        {"op": "new", "pid": 7}, {"op": "signal", "i": 1, "m": "terminate", "sig": 0}]}
    return [l1, l2, l2b, it, it2, aff, perm, u1, u2, u3, u4, w1]


def correspond_for(ctx, res, prop, driver_file, n_quick, n_thorough):
    impl = Impl(ctx)
    try:
        entry_lines = 0
        if prop == "C01":
            # public calls with a caller-chosen integer (psutil.pid_exists(n), Process(n), Process(n).wait / terminate): the pid
            # argument of EVERY os.kill they make, signal 0 included (Model/C01Kill.lean, Driver/C01Kill.lean); run first
            entry_lines = c01_kill.correspond_entry(ctx, res, impl)
        res.rule = ("histories of simulated kernel events (incl. permission changes: the kernel refuses a PID with EPERM/EACCES) "
                    "and psutil calls from 17 clause-directed families "
                    "(PRNG from VERIF_SEED) + the lead witnesses + exhaustive sweeps of short histories; "
                    "non-trivial = the history contains a signal/setter through an object whose incarnation lost "
                    "its PID, an is_running() that must be False, a clock step, a == between objects, a rejected argument, "
                    "an OS call the kernel refused, or an unreadable stat file (outside HistOK: compared with the model, and judged by the "
                    "clauses proved for such histories — any-state clauses + the recycling clause whenever the PID's stat file opens at the "
                    "moment of the call); "
                    "distinct = distinct op sequences")
        if prop == "C01":
            res.rule += c01_kill.RULE_NOTE
        hists = witness_corpus(impl.clk)
        fams = list(FAMILIES)
        if prop == "C01":
            # the bytes of /proc/<pid>/stat (comm, other fields) as an input: C01's driver runs the identity machine on the
            # kernel as READ from those bytes (Model/C01Stat.lean); C02's driver has no such ops
            hists.extend(c01_stat.corpus())
            fams += STAT_FAMILIES
        n = ctx.n(n_quick, n_thorough)
        for i in range(n):
            hists.append(gen_history(ctx.rng, fams[i % len(fams)], impl.clk))
        n_rand = len(hists)
        maxlen = 5 if ctx.tier == "quick" else 6
        hists.extend(exhaustive_histories(maxlen))
        hists.extend(exhaustive_two_pids(maxlen))
        hists.extend(exhaustive_oneshot(4 if ctx.tier == "quick" else 5))
        hists.extend(exhaustive_iter(4 if ctx.tier == "quick" else 5))
        hists.extend(exhaustive_perm(4 if ctx.tier == "quick" else 5))
        hists.extend(exhaustive_wait(4 if ctx.tier == "quick" else 5))
        hists.extend(exhaustive_hidden(4 if ctx.tier == "quick" else 5))
        hists.extend(exhaustive_unknown_recycled(4 if ctx.tier == "quick" else 5))
        if prop == "C01":
            hists.extend(c01_stat.exhaustive_stat(2 if ctx.tier == "quick" else 3))
        if ctx.tier != "quick":
            hists.extend(h for h in exhaustive_unknown_recycled(4, thorough=True)
                         if any(o.get("what") == "as_dict_ct" or o["op"] == "new" or o.get("i") == 1 for o in h["ops"][3:]))
        if ctx.tier != "quick":
            hists.extend(exhaustive_two_pids_iter(6))
        total_lines = 0
        CH = 3000
        sampled = 0
        for a in range(0, len(hists), CH):
            chunk = hists[a:a + CH]
            results, nl = run_histories(ctx, impl, chunk, driver_file)
            total_lines += nl
            for h, r in zip(chunk, results):
                fam = h["family"]
                feats = features(h, r)
                res.count("family:" + fam)
                for f in feats:
                    res.count("feature:" + f)
                res.count("ops", len(h["ops"]))
                res.count("objects", len(r["pairs"][0]["hash"]))
                sample = None
                if not fam.startswith("exhaustive") and sampled < 6 and (feats & NONTRIVIAL):
                    sampled += 1
                    sample = {"family": fam, "btime": h["btime"], "ops": h["ops"],
                              "impl": [[x[1], x[2]] for x in r["rows"]]}
                res.case((h["btime"], h["ops"]), nontrivial=bool(feats & NONTRIVIAL), sample=sample)
                drift = []
                pr = first_problem(r, judge_as(h, prop), drift)
                if drift:
                    res.count("drift:setter_validation", len(drift))
                if pr:
                    kind, nstep, im, mo, sp, why = pr
                    ops = h["ops"] if nstep is None else h["ops"][:nstep + 1]
                    res.disagree(kind, {"btime": h["btime"], "ops": ops, "family": fam, "hyp": h.get("hyp", True)},
                                 im, mo, sp, note=("step %s: %s" % (nstep, why)))
        res.exhaustive = ("all %d histories of length <= %d over {spawn, reap, exit, Process(pid), is_running(0), kill(0), "
                          "nice(1), clock step, boot_time(), ==(0,1)} on one PID, and of length 3..%d over {spawn 5, spawn 7, "
                          "reap 5, Process(5), Process(7), terminate(0), is_running(1), ==(0,1)} on two PIDs (beyond length 3 "
                          "only those in which every call names an object that exists at that point — other calls never "
                          "reach psutil); all histories spawn·Process·w, |w| <= %d, over {enter oneshot(0), leave(0), reap, spawn, kill(0), "
                          "nice(0), ppid(0), is_running(0)} containing an enter; all well-indexed histories spawn·Process·reap·spawn·w, "
                          "|w| <= %d, over {process_iter(), is_running(0), is_running(1), reap, spawn, kill(1), ==(0,1), cpu_affinity(0, [])} "
                          "containing a process_iter() or a cpu_affinity([]); all well-indexed histories spawn·Process·w, |w| <= %d, over "
                          "{kernel refuses PID 5 with EPERM, allows it, reap, spawn, kill(0), nice(0), is_running(0), Process(5), kill(1)} "
                          "containing a refusal; all histories spawn·Process·w, |w| <= same bound, over {wait(0) on object 0, as_dict(0), "
                          "children(0), exit, reap, spawn, kill(0), nice(0), is_running(0)} containing a wait(0); (model comparison only, outside the hypotheses) all well-indexed histories spawn·w, "
                          "2 <= |w| <= %d, over {stat of PID 5 unreadable, readable, Process(5), reap, spawn, is_running(0), kill(0), ==(0,1)} "
                          "containing an unreadable phase; (judged by C01_recycled_raises_NSP_readable) all histories head·w, 2 <= |w| <= the "
                          "same bound, head = spawn·unreadable·Process(5) or spawn·unreadable·Process(5)·reap·spawn (object 0 has no start "
                          "time), over {stat readable, unreadable, create_time(0), is_running(0), kill(0), nice(0), reap, spawn} with a "
                          "readable phase and a signal/setter; (C01) all pairs (c1, c2) of command names of length <= 2 (thorough: 3) over "
                          "{'(', ')', ' ', 'a'}: spawn(c1)·Process·reap·spawn(c2)·kill(0)·nice(0) with equal other stat fields, and "
                          "spawn(c1)·Process·rename to c2·terminate(0)%s; the random families are samples"
                          % (len(hists) - n_rand, maxlen, maxlen, 4 if ctx.tier == "quick" else 5, 4 if ctx.tier == "quick" else 5,
                             4 if ctx.tier == "quick" else 5, 4 if ctx.tier == "quick" else 5,
                             "" if ctx.tier == "quick" else "; all well-indexed histories of length 3..6 over {spawn 5, spawn 7, reap 5, "
                             "Process(5), process_iter(), terminate(0), terminate(1), is_running(0), is_running(1), ==(0,1)} containing "
                             "a process_iter() (handles from process_iter() on two PIDs)"))
        res.extra["driver_lines"] = total_lines + entry_lines
        res.extra["clock_ticks"] = impl.clk
    finally:
        impl.close()


def correspond(ctx, res):
    correspond_for(ctx, res, "C01", None, 700, 30000)


def search(ctx, res, broken):
    correspond(ctx, res)


def _fails(ctx, impl, hist, prop, driver_file):
    results, _ = run_histories(ctx, impl, [hist], driver_file)
    pr = first_problem(results[0], judge_as(hist, prop))
    return pr if (pr and pr[0] == "spec") else None


def shrink_for(ctx, d, prop, driver_file):
    inp = d["input"]
    ops = inp.get("ops")
    if inp.get("entry") and prop == "C01":
        impl = Impl(ctx)
        try:
            return c01_kill.shrink_entry(ctx, impl, d)
        finally:
            impl.close()
    if not ops:
        return d
    impl = Impl(ctx)
    try:
        def fails(o):
            return _fails(ctx, impl, dict(inp, ops=o), prop, driver_file) is not None
        small = ddmin(ops, fails, max_tests=40)
        pr = _fails(ctx, impl, dict(inp, ops=small), prop, driver_file)
        if pr:
            kind, nstep, im, mo, sp, why = pr
            cut = small if nstep is None else small[:nstep + 1]
            return dict(d, input=dict(inp, ops=cut, family="shrunk"), impl=im, model=mo, spec=sp,
                        note="step %s: %s" % (nstep, why))
    finally:
        impl.close()
    return d


def shrink(ctx, d):
    return shrink_for(ctx, d, "C01", None)


def replay_for(ctx, rp, prop, driver_file):
    inp = rp.get("input") or {}
    if inp.get("entry") and prop == "C01":
        impl = Impl(ctx)
        try:
            return c01_kill.fails(ctx, impl, inp["entry"]) is not None
        finally:
            impl.close()
    if not inp.get("ops"):
        return True
    impl = Impl(ctx)
    try:
        return _fails(ctx, impl, inp, prop, driver_file) is not None
    finally:
        impl.close()


def replay(ctx, rp, res):
    return replay_for(ctx, rp, "C01", None)
