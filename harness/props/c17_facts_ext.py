"""C17 translator, extension round: facts for Model/C17Ext.lean.

  §11 psutil_convert_ipaddr / psutil_net_if_addrs   (regex over _psutil_posix.c + socket headers)
  §12 ifreq entry points                             (regex over _psutil_posix.c, arch/linux/net.c, <net/if.h>)
  §13 disk_partitions C loop                         (regex over arch/linux/disk.c + a probe of libc's getmntent buffer)
  §14 linux_sysinfo                                  (regex over arch/linux/mem.c + <linux/sysinfo.h>)
  §15 errno as discriminator                         (scan of every Linux C file)

Same contract as c17_facts.py: an unrecognised shape raises NotRecognised (fact skipped, baseline kept).
"""
import ctypes
import os
import re
import tempfile

from harness.common.extract import NotRecognised, lean_bool, lean_list, lean_nat, lean_str

# sizes of the socket address structs on Linux (ABI constants; <netinet/in.h>, <linux/if_packet.h>, <sys/socket.h>)
SOCKADDR_SIZES = {"sockaddr_in": 16, "sockaddr_in6": 28, "sockaddr": 16, "sockaddr_ll": 20, "sockaddr_storage": 128,
                  "sockaddr_un": 110}
C_TYPE_SIZES = {"unsigned short int": 2, "unsigned short": 2, "__be16": 2, "__u16": 2, "short": 2, "int": 4, "unsigned int": 4,
                "__u32": 4, "unsigned char": 1, "char": 1, "__u8": 1, "__kernel_ulong_t": 8, "__kernel_long_t": 8,
                "unsigned long": 8, "long": 8, "__u64": 8}


def _read(path):
    with open(path, encoding="utf-8", errors="replace") as f:
        return f.read()


def header_macro(name):
    """numeric value of AF_* / IFF_* / IF_NAMESIZE from the system headers"""
    if name.startswith("AF_"):
        h = _read("/usr/include/x86_64-linux-gnu/bits/socket.h")
        m = re.search(r"#\s*define\s+%s\s+(\w+)" % re.escape(name), h)
        if not m:
            raise NotRecognised("%s not in bits/socket.h" % name)
        v = m.group(1)
        if not v.isdigit():
            m2 = re.search(r"#\s*define\s+%s\s+(\d+)" % re.escape(v), h)
            if not m2:
                raise NotRecognised("%s -> %s not numeric" % (name, v))
            v = m2.group(1)
        return int(v)
    if name.startswith("IFF_"):
        h = _read("/usr/include/net/if.h")
        m = re.search(r"\b%s\s*=\s*(0x[0-9a-fA-F]+)" % re.escape(name), h)
        if not m:
            raise NotRecognised("%s not in net/if.h" % name)
        return int(m.group(1), 16)
    if name in ("IFNAMSIZ", "IF_NAMESIZE"):
        h = _read("/usr/include/net/if.h")
        m = re.search(r"#\s*define\s+IF_NAMESIZE\s+(\d+)", h)
        a = re.search(r"#\s*define\s+IFNAMSIZ\s+IF_NAMESIZE", h)
        if not (m and a):
            raise NotRecognised("IFNAMSIZ not recognised in net/if.h")
        return int(m.group(1))
    raise NotRecognised("macro %s" % name)


def struct_offsets(header, struct):
    """member -> (offset, size) of a flat C struct whose members have naturally aligned scalar / char-array types"""
    h = re.sub(r"/\*.*?\*/", " ", _read(header), flags=re.S)
    m = re.search(r"struct\s+%s\s*\{(.*?)\}\s*;" % re.escape(struct), h, re.S)
    if not m:
        raise NotRecognised("struct %s not found in %s" % (struct, header))
    off, out = 0, {}
    for decl in m.group(1).split(";"):
        decl = " ".join(decl.split())
        if not decl:
            continue
        d = re.fullmatch(r"(.+?)\s*\b(\w+)\s*(?:\[\s*([^\]]+)\s*\])?", decl)
        if not d or d.group(1) not in C_TYPE_SIZES:
            raise NotRecognised("member %r of struct %s not understood" % (decl, struct))
        sz = C_TYPE_SIZES[d.group(1)]
        n = 1
        if d.group(3) is not None:
            if not d.group(3).strip().isdigit():
                out[d.group(2)] = (off + (-off % sz), None)
                break                                    # a computed padding array at the end: stop
            n = int(d.group(3))
        off += -off % sz
        out[d.group(2)] = (off, sz)
        off += sz * n
    return out


def linux_view(src):
    """`src` with the preprocessor branches that only depend on PSUTIL_<platform> macros resolved for the Linux build
    (PSUTIL_LINUX, PSUTIL_POSIX defined; every other PSUTIL_<PLATFORM> undefined); other conditionals keep all branches."""
    defined = {"PSUTIL_LINUX", "PSUTIL_POSIX"}
    plat = re.compile(r"PSUTIL_(LINUX|POSIX|BSD|OSX|FREEBSD|OPENBSD|NETBSD|SUNOS|SUNOS10|AIX|WINDOWS|CYGWIN)$")

    def ev(cond):
        ids = set(re.findall(r"[A-Za-z_]\w*", cond)) - {"defined"}
        if not ids or not all(plat.match(i) for i in ids):
            return None
        e = re.sub(r"defined\s*\(\s*(\w+)\s*\)|defined\s+(\w+)", lambda m: "1" if (m.group(1) or m.group(2)) in defined else "0", cond)
        e = e.replace("||", " or ").replace("&&", " and ").replace("!", " not ")
        try:
            return bool(eval(e, {"__builtins__": {}}, {}))  # noqa: S307
        except Exception:
            return None
    out, stack = [], []          # stack of [emit_now, known, any_taken]
    for line in src.split("\n"):
        t = line.strip()
        m = re.match(r"#\s*(ifdef|ifndef|if|elif|else|endif)\b(.*)", t)
        if m:
            k, rest = m.group(1), m.group(2).strip()
            if k in ("ifdef", "ifndef", "if"):
                c = ev("defined(%s)" % rest if k == "ifdef" else ("!defined(%s)" % rest if k == "ifndef" else rest))
                stack.append([True if c is None else c, c is not None, bool(c)])
                if c is None:
                    out.append(line)
                continue
            if k == "elif" and stack:
                fr = stack[-1]
                if fr[1]:
                    c = ev(rest)
                    fr[0] = (not fr[2]) and (c is None or c)
                    fr[2] = fr[2] or bool(fr[0])
                else:
                    out.append(line)
                continue
            if k == "else" and stack:
                fr = stack[-1]
                if fr[1]:
                    fr[0] = not fr[2]
                else:
                    out.append(line)
                continue
            if k == "endif" and stack:
                fr = stack.pop()
                if not fr[1]:
                    out.append(line)
                continue
        if all(fr[0] for fr in stack):
            out.append(line)
    return "\n".join(out)


# ---------------------------------------------------------------------------------- §11 net_if_addrs

def nif_facts(src, c_function):
    conv = c_function(src, "psutil_convert_ipaddr")
    m = re.search(r"else\s+if\s*\(\s*family\s*==\s*(AF_\w+)\s*\|\|\s*family\s*==\s*(AF_\w+)\s*\)\s*\{\s*"
                  r"if\s*\(\s*family\s*==\s*(AF_\w+)\s*\)\s*addrlen\s*=\s*sizeof\s*\(\s*struct\s+(\w+)\s*\)\s*;\s*"
                  r"else\s+addrlen\s*=\s*sizeof\s*\(\s*struct\s+(\w+)\s*\)\s*;", conv)
    if not m or m.group(3) != m.group(1):
        raise NotRecognised("family switch / addrlen selection of psutil_convert_ipaddr not recognised")
    for s in (m.group(4), m.group(5)):
        if s not in SOCKADDR_SIZES:
            raise NotRecognised("sizeof(struct %s) unknown" % s)
    g = re.search(r"getnameinfo\s*\(\s*addr\s*,\s*addrlen\s*,\s*buf\s*,\s*([^,]+?)\s*,\s*NULL\s*,\s*0\s*,\s*NI_NUMERICHOST\s*\)", conv)
    if not g:
        raise NotRecognised("getnameinfo call not recognised")
    p = re.search(r"#ifdef\s+PSUTIL_LINUX\s+else\s+if\s*\(\s*family\s*==\s*(AF_\w+)\s*\)\s*\{\s*struct\s+sockaddr_ll\s*\*\s*lladdr\s*=\s*"
                  r"\(\s*struct\s+sockaddr_ll\s*\*\s*\)\s*addr\s*;\s*len\s*=\s*lladdr->(\w+)\s*;\s*data\s*=\s*\(\s*const\s+char\s*\*\s*\)\s*lladdr->(\w+)\s*;",
                  conv)
    if not p:
        raise NotRecognised("AF_PACKET branch not recognised")
    offs = struct_offsets("/usr/include/netpacket/packet.h", "sockaddr_ll")
    for mem in (p.group(2), p.group(3)):
        if mem not in offs:
            raise NotRecognised("sockaddr_ll has no member %s" % mem)
    if not re.search(r"if\s*\(\s*addr\s*==\s*NULL\s*\)\s*\{\s*Py_INCREF\s*\(\s*Py_None\s*\)\s*;\s*return\s+Py_None\s*;", conv):
        raise NotRecognised("NULL address -> None not recognised")

    body = c_function(src, "psutil_net_if_addrs")
    if not re.search(r"if\s*\(\s*!\s*ifa->ifa_addr\s*\)\s*continue\s*;", body):
        raise NotRecognised("`if (!ifa->ifa_addr) continue;` not found")
    fs = re.search(r"\bfamily\s*=\s*ifa->(\w+)->sa_family\s*;", body)
    if not fs:
        raise NotRecognised("family source not recognised")
    if not re.search(r"py_address\s*=\s*psutil_convert_ipaddr\s*\(\s*ifa->ifa_addr\s*,\s*family\s*\)\s*;\s*if\s*\(\s*py_address\s*==\s*Py_None\s*\)\s*continue\s*;", body):
        raise NotRecognised("address conversion / skip of None not recognised")
    nm = re.search(r"py_netmask\s*=\s*psutil_convert_ipaddr\s*\(\s*ifa->(\w+)\s*,\s*family\s*\)\s*;", body)
    if not nm:
        raise NotRecognised("netmask conversion not recognised")
    chain = re.search(r"if\s*\(\s*ifa->ifa_flags\s*&\s*(IFF_\w+)\s*\)\s*\{(.*?)\}\s*else\s+if\s*\(\s*ifa->ifa_flags\s*&\s*(IFF_\w+)\s*\)\s*\{(.*?)\}\s*else\s*\{(.*?)\}",
                      body, re.S)
    if not chain:
        raise NotRecognised("broadcast / ptp selection chain not recognised")
    links = []
    for flag, blk in ((chain.group(1), chain.group(2)), (chain.group(3), chain.group(4))):
        c = re.findall(r"(py_\w+)\s*=\s*psutil_convert_ipaddr\s*\(\s*ifa->(\w+)\s*,\s*family\s*\)\s*;", blk)
        nones = re.findall(r"(py_\w+)\s*=\s*Py_None\s*;", blk)
        if len(c) != 1 or c[0][1] not in ("ifa_broadaddr", "ifa_dstaddr") or len(nones) != 1 or {c[0][0], nones[0]} != {"py_broadcast", "py_ptp"}:
            raise NotRecognised("branch for %s not recognised" % flag)
        links.append((header_macro(flag), c[0][0]))
    if sorted(re.findall(r"(py_\w+)\s*=\s*Py_None\s*;", chain.group(5))) != ["py_broadcast", "py_ptp"] \
            or "psutil_convert_ipaddr" in chain.group(5):
        raise NotRecognised("final else branch not recognised")
    t = re.search(r"Py_BuildValue\s*\(\s*\"\(siOOOO\)\"\s*,(.*?)\)\s*;", body, re.S)
    if not t:
        raise NotRecognised("Py_BuildValue(\"(siOOOO)\", ...) not found")
    order = [re.sub(r"^ifa->", "", a.strip()) for a in t.group(1).split(",")]
    if len(order) != 6:
        raise NotRecognised("tuple slots %r" % (order,))
    return {"famInet": header_macro(m.group(1)), "famInet6": header_macro(m.group(2)), "famPacket": header_macro(p.group(1)),
            "lenInet": SOCKADDR_SIZES[m.group(4)], "lenInet6": SOCKADDR_SIZES[m.group(5)],
            "hostlenIsBuf": bool(re.fullmatch(r"sizeof\s*\(\s*buf\s*\)", g.group(1))),
            "halenOff": offs[p.group(2)][0], "lladdrOff": offs[p.group(3)][0], "chain": links, "order": order,
            "netmaskSrc": nm.group(1), "familySrc": fs.group(1)}


# ---------------------------------------------------------------------------------- §12 ifreq entry points

IFREQ_FUNCS = [("_psutil_posix.c", "psutil_net_if_mtu"), ("_psutil_posix.c", "psutil_net_if_flags"),
               ("_psutil_posix.c", "psutil_net_if_is_running"), ("arch/linux/net.c", "psutil_net_if_duplex_speed")]


def ifreq_copies(sources, c_function):
    """(function, name copied with PSUTIL_STRNCPY(ifr.ifr_name, nic_name, sizeof(ifr.ifr_name)) before the ioctl) for every
    function of the Linux build that hands a `struct ifreq` to ioctl()"""
    out = []
    allsrc = "\n".join(linux_view(v) for v in sources.values())
    users = set(re.findall(r"\b(psutil_\w+)\s*\(\s*PyObject\s*\*\s*self\s*,\s*PyObject\s*\*\s*args\s*\)\s*\{", allsrc))
    for fn in sorted(users):
        body = c_function(allsrc, fn)
        io = re.search(r"\bioctl\s*\(\s*sock\s*,\s*\w+\s*,\s*&ifr\s*\)", body)
        if not io:
            continue
        pre = body[:io.start()]
        ok = bool(re.search(r"PSUTIL_STRNCPY\s*\(\s*ifr\.ifr_name\s*,\s*nic_name\s*,\s*sizeof\s*\(\s*ifr\.ifr_name\s*\)\s*\)\s*;", pre)) \
            and not re.search(r"\b(strcpy|strncpy|memcpy|sprintf|snprintf|strcat)\s*\(\s*ifr\.", body)
        out.append((fn, ok))
    if not out:
        raise NotRecognised("no ifreq entry point found")
    return out


def running_bit(src, c_function):
    body = c_function(src, "psutil_net_if_is_running")
    m = re.search(r"if\s*\(\s*\(\s*ifr\.ifr_flags\s*&\s*(IFF_\w+)\s*\)\s*!=\s*0\s*\)\s*return\s+Py_BuildValue\s*\(\s*\"O\"\s*,\s*Py_True\s*\)", body)
    if not m:
        raise NotRecognised("running test not recognised")
    return header_macro(m.group(1))


# ---------------------------------------------------------------------------------- §13 disk.c

def c_defines_any(src):
    return {k: int(v, 0) for k, v in re.findall(r"^[ \t]*#[ \t]*define[ \t]+(\w+)[ \t]+\(?\s*(0[xX][0-9a-fA-F]+|\d+)\s*\)?[ \t]*$", src, re.M)}


def mnt_facts(src, c_function):
    body = re.sub(r'"(?:[^"\\]|\\.)*"', lambda m: m.group(0) if m.group(0) in ('"(OOss)"', '"s"', '"r"') else '""', c_function(src, "psutil_disk_partitions"))
    calls = re.findall(r"\b(getmntent(?:_r)?)\s*\(([^()]*(?:\([^()]*\)[^()]*)*)\)", body)
    if len(calls) != 1:
        raise NotRecognised("expected exactly one getmntent call, found %d" % len(calls))
    name, args = calls[0]
    args = [a.strip() for a in args.split(",")]
    if name == "getmntent":
        if args != ["file"]:
            raise NotRecognised("getmntent arguments %r" % (args,))
        reent, size = False, 0
    else:
        if len(args) != 4 or args[0] != "file":
            raise NotRecognised("getmntent_r arguments %r" % (args,))
        buf = args[2]
        decl = re.search(r"\bchar\s+%s\s*\[\s*(\w+)\s*\]" % re.escape(buf), body)
        if not decl:
            raise NotRecognised("buffer %s of getmntent_r is not a local char array" % buf)
        defs = c_defines_any(src)
        n = decl.group(1)
        if n.isdigit():
            declared = int(n)
        elif n in defs:
            declared = defs[n]
        else:
            raise NotRecognised("size %s of %s" % (n, buf))
        sz = args[3]
        if re.fullmatch(r"sizeof\s*\(\s*%s\s*\)" % re.escape(buf), sz):
            size = declared
        elif sz.isdigit():
            size = int(sz)
        elif sz in defs:
            size = defs[sz]
        else:
            raise NotRecognised("buffer size argument %r" % sz)
        if size > declared:
            raise NotRecognised("getmntent_r is told %d bytes but the array has %d" % (size, declared))
        reent = True
    t = re.search(r"Py_BuildValue\s*\(\s*\"\(OOss\)\"\s*,(.*?)\)\s*;", body, re.S)
    if not t:
        raise NotRecognised("Py_BuildValue(\"(OOss)\", ...) not found")
    order = []
    for a in [x.strip() for x in t.group(1).split(",")]:
        if a.startswith("entry->"):
            order.append(a[7:])
            continue
        srcs = set(re.findall(r"\b%s\s*=\s*PyUnicode_DecodeFSDefault\s*\(\s*entry->(\w+)\s*\)" % re.escape(a), body))
        if len(srcs) != 1:
            raise NotRecognised("source of tuple slot %s not recognised" % a)
        order.append(srcs.pop())
    return {"reentrant": reent, "userBuf": size, "order": order}


_LIBC_BUF = []


def libc_mntent_buf():
    """Size of the line buffer of the platform libc's getmntent(), measured: B-1 = the longest line whose bytes all come back.  4096 on glibc up to 2.36 (a fixed static buffer); a libc whose buffer grows reports the cap."""
    if _LIBC_BUF:
        return _LIBC_BUF[0]
    libc = ctypes.CDLL(None, use_errno=True)

    class Mntent(ctypes.Structure):
        _fields_ = [("fsname", ctypes.c_char_p), ("dir", ctypes.c_char_p), ("type", ctypes.c_char_p), ("opts", ctypes.c_char_p),
                    ("freq", ctypes.c_int), ("passno", ctypes.c_int)]
    libc.setmntent.restype = ctypes.c_void_p
    libc.setmntent.argtypes = [ctypes.c_char_p, ctypes.c_char_p]
    libc.getmntent.restype = ctypes.POINTER(Mntent)
    libc.getmntent.argtypes = [ctypes.c_void_p]
    libc.endmntent.argtypes = [ctypes.c_void_p]

    def whole(total):
        # one line of exactly `total` bytes (without the newline)
        opts = b"o" * (total - len(b"/d /m t "))        # the line ends with the options: a cut shows in them
        line = b"/d /m t " + opts
        assert len(line) == total
        fd, path = tempfile.mkstemp(prefix="psv-c17-mnt-")
        try:
            with os.fdopen(fd, "wb") as f:
                f.write(line + b"\n")
            fp = libc.setmntent(path.encode(), b"r")
            if not fp:
                raise NotRecognised("setmntent failed on probe file")
            try:
                e = libc.getmntent(fp)
                return bool(e) and e.contents.opts == opts
            finally:
                libc.endmntent(fp)
        finally:
            os.unlink(path)
    cap = 1 << 20
    if whole(cap):
        _LIBC_BUF.append(cap + 2)
        return cap + 2
    lo, hi = 64, cap          # whole(lo) true, whole(hi) false
    if not whole(lo):
        raise NotRecognised("getmntent probe: a 64-byte line is not returned whole")
    while hi - lo > 1:
        mid = (lo + hi) // 2
        if whole(mid):
            lo = mid
        else:
            hi = mid
    _LIBC_BUF.append(lo + 1)          # fgets(buf, B) delivers at most B-1 bytes of the line
    return lo + 1


# ---------------------------------------------------------------------------------- §14 sysinfo

def sysinfo_facts(src, c_function):
    body = c_function(src, "psutil_linux_sysinfo")
    if not re.search(r"struct\s+sysinfo\s+info\s*;", body) or not re.search(r"if\s*\(\s*sysinfo\s*\(\s*&info\s*\)\s*!=\s*0\s*\)\s*return\s+PyErr_SetFromErrno", body):
        raise NotRecognised("sysinfo call not recognised")
    t = re.search(r"Py_BuildValue\s*\(\s*\"\((\w+)\)\"\s*,(.*?)\)\s*;", body, re.S)
    if not t:
        raise NotRecognised("Py_BuildValue not recognised")
    args = [a.strip() for a in t.group(2).split(",")]
    if any(not re.fullmatch(r"info\.\w+", a) for a in args) or len(args) != len(t.group(1)):
        raise NotRecognised("arguments %r for format %r" % (args, t.group(1)))
    return t.group(1), [a[5:] for a in args]


def sysinfo_header_bits():
    offs = struct_offsets("/usr/include/linux/sysinfo.h", "sysinfo")
    out = [(k, v[1] * 8) for k, v in offs.items() if v[1] is not None]
    if len(out) < 8:
        raise NotRecognised("struct sysinfo members: %r" % (out,))
    return out


# ---------------------------------------------------------------------------------- §15 errno

def errno_discriminators(sources, c_function):
    """Functions of the Linux build that use errno to tell a legitimate sentinel from an error (`errno != 0`, `errno == 0`,
    `if (errno)`, `!errno` — as opposed to reading errno AFTER a call reported failure), with: is `errno = 0;` executed before
    the first such test, with nothing but declarations / argument parsing / the call in between; number of call sites of
    the function in the Linux build for non entry points."""
    out = []
    allsrc = "\n".join(linux_view(v) for v in sources.values())
    for rel, src in sorted(sources.items()):
        src = linux_view(src)
        for m in re.finditer(r"^(?:static\s+)?[\w\s\*]+?\b(\w+)\s*\(([^;{}()]*)\)\s*\{", src, re.M):
            fn = m.group(1)
            if fn in ("if", "while", "for", "switch"):
                continue
            try:
                body = c_function(src, fn)
            except NotRecognised:
                continue
            test = re.search(r"\berrno\s*(?:!=|==)\s*0\b|\bif\s*\(\s*!?\s*errno\s*\)|&&\s*!?\s*errno\b|\|\|\s*!?\s*errno\b", body)
            if not test:
                continue
            reset = re.search(r"\berrno\s*=\s*0\s*;", body[:test.start()])
            entry = "PyObject" in m.group(2) and "args" in m.group(2)
            sites = len(re.findall(r"\b%s\s*\(" % re.escape(fn), allsrc)) - 1
            out.append((fn, bool(reset), entry, max(sites, 0)))
    return out


def getpriority_facts(src, c_function):
    body = c_function(src, "psutil_posix_getpriority")
    call = re.search(r"#else\s+priority\s*=\s*getpriority\s*\(\s*PRIO_PROCESS\s*,\s*pid\s*\)\s*;\s*#endif|priority\s*=\s*getpriority\s*\(\s*PRIO_PROCESS\s*,\s*(?:\(\s*id_t\s*\)\s*)?pid\s*\)\s*;", body)
    if not call:
        raise NotRecognised("getpriority call not recognised")
    pre, post = body[:call.start()], body[call.end():]
    # between the reset and the call only declarations, the PyArg_ParseTuple block and preprocessor lines may stand
    reset = re.search(r"\berrno\s*=\s*0\s*;", pre)
    ok_reset = False
    if reset:
        between = pre[reset.end():]
        between = re.sub(r"if\s*\(\s*!\s*PyArg_ParseTuple\s*\([^;]*\)\s*\)\s*return\s+NULL\s*;", " ", between)
        between = re.sub(r"#\s*(?:ifdef|ifndef|if|else|endif)[^\n]*", " ", between)
        between = re.sub(r"priority\s*=\s*getpriority\s*\([^;]*\)\s*;", " ", between)      # the other arm of the #ifdef
        ok_reset = not between.strip()
    t = re.search(r"if\s*\(\s*(priority\s*==\s*-1\s*&&\s*)?errno\s*!=\s*0\s*\)\s*return\s+PyErr_SetFromErrno\s*\(\s*PyExc_OSError\s*\)\s*;", post)
    if not t:
        raise NotRecognised("error test after getpriority not recognised")
    return ok_reset, bool(t.group(1))


# ---------------------------------------------------------------------------------- all

def facts(snap, F, c_source, c_function, LINUX_C):
    cache = {}

    def memo(key, fn):
        if key not in cache:
            try:
                cache[key] = ("ok", fn())
            except Exception as e:
                cache[key] = ("err", e)
        st, v = cache[key]
        if st == "err":
            raise v
        return v

    def sources():
        def load():
            out = {}
            for rel in LINUX_C:
                try:
                    out[rel] = c_source(snap, rel)
                except OSError:
                    pass
            return out
        return memo("sources", load)

    posix_c = lambda: sources()["_psutil_posix.c"]
    nf = lambda: memo("nif", lambda: nif_facts(posix_c(), c_function))
    F.try_add("nifFamInet", "Nat", lambda: lean_nat(nf()["famInet"]), "psutil_convert_ipaddr: value of the first macro of `family == A || family == B` (also the one selecting the first addrlen)")
    F.try_add("nifFamInet6", "Nat", lambda: lean_nat(nf()["famInet6"]), "… of the second macro")
    F.try_add("nifFamPacket", "Nat", lambda: lean_nat(nf()["famPacket"]), "value of the macro of the link-level branch (PSUTIL_LINUX)")
    F.try_add("nifLenInet", "Nat", lambda: lean_nat(nf()["lenInet"]), "addrlen when family is the first macro: sizeof of the struct named there")
    F.try_add("nifLenInet6", "Nat", lambda: lean_nat(nf()["lenInet6"]), "addrlen otherwise")
    F.try_add("nifHostlenIsBuf", "Bool", lambda: lean_bool(nf()["hostlenIsBuf"]), "getnameinfo(addr, addrlen, buf, sizeof(buf), NULL, 0, NI_NUMERICHOST)")
    F.try_add("nifHalenOff", "Nat", lambda: lean_nat(nf()["halenOff"]), "offset in struct sockaddr_ll of the member read as the address length")
    F.try_add("nifLladdrOff", "Nat", lambda: lean_nat(nf()["lladdrOff"]), "offset in struct sockaddr_ll of the member read as the address bytes")
    F.try_add("nifIfuChain", "List (Nat × String)", lambda: lean_list(nf()["chain"], lambda e: "(%d, %s)" % (e[0], lean_str(e[1]))),
              "psutil_net_if_addrs: `if (ifa_flags & A) … else if (ifa_flags & B) …`: (flag value from <net/if.h>, variable filled from ifa_ifu)")
    F.try_add("nifTupleOrder", "List String", lambda: lean_list(nf()["order"], lean_str), "slots of Py_BuildValue(\"(siOOOO)\", …)")
    F.try_add("nifNetmaskSrc", "String", lambda: lean_str(nf()["netmaskSrc"]), "ifa member py_netmask is converted from")
    F.try_add("nifFamilySrc", "String", lambda: lean_str(nf()["familySrc"]), "family = ifa-><member>->sa_family")

    F.try_add("ifnamsiz", "Nat", lambda: lean_nat(header_macro("IFNAMSIZ")), "IFNAMSIZ = sizeof(ifr.ifr_name) from <net/if.h>")
    F.try_add("ifRunningBit", "Nat", lambda: lean_nat(running_bit(posix_c(), c_function)), "bit tested by psutil_net_if_is_running")
    F.try_add("ifreqCopies", "List (String × Bool)",
              lambda: lean_list(memo("ifreq", lambda: ifreq_copies(sources(), c_function)), lambda e: "(%s, %s)" % (lean_str(e[0]), lean_bool(e[1]))),
              "every entry point that passes &ifr to ioctl(): (function, the NIC name reaches ifr.ifr_name only through PSUTIL_STRNCPY(ifr.ifr_name, nic_name, sizeof(ifr.ifr_name)))")

    mf = lambda: memo("mnt", lambda: mnt_facts(sources()["arch/linux/disk.c"], c_function))
    F.try_add("mntReentrant", "Bool", lambda: lean_bool(mf()["reentrant"]), "disk.c reads entries with getmntent_r (true) / getmntent (false)")
    F.try_add("mntUserBuf", "Nat", lambda: lean_nat(mf()["userBuf"]), "size of the caller's line buffer given to getmntent_r (0 for getmntent)")
    F.try_add("mntLibcBuf", "Nat", lambda: lean_nat(libc_mntent_buf()), "size of the line buffer of the platform libc's getmntent(), measured by a probe (longest line whose content comes back whole, + 1 for the NUL)")
    F.try_add("mntOrder", "List String", lambda: lean_list(mf()["order"], lean_str), "struct mntent members behind the four slots of Py_BuildValue(\"(OOss)\", …)")

    sf = lambda: memo("sysinfo", lambda: sysinfo_facts(sources()["arch/linux/mem.c"], c_function))
    F.try_add("sysinfoFormat", "String", lambda: lean_str(sf()[0]), "format units of Py_BuildValue in psutil_linux_sysinfo")
    F.try_add("sysinfoFields", "List String", lambda: lean_list(sf()[1], lean_str), "struct sysinfo members passed, in order")
    F.try_add("sysinfoFieldBits", "List (String × Nat)", lambda: lean_list(sysinfo_header_bits(), lambda e: "(%s, %d)" % (lean_str(e[0]), e[1])),
              "width in bits of the members of struct sysinfo (<linux/sysinfo.h>, LP64)")

    gp = lambda: memo("getprio", lambda: getpriority_facts(posix_c(), c_function))
    F.try_add("getprioResetBefore", "Bool", lambda: lean_bool(gp()[0]), "psutil_posix_getpriority executes `errno = 0;` before getpriority() with only argument parsing in between")
    F.try_add("getprioTestMinusOne", "Bool", lambda: lean_bool(gp()[1]), "the error test is `priority == -1 && errno != 0` (true) / `errno != 0` (false)")
    F.try_add("errnoDiscriminators", "List (String × Bool × Bool × Nat)",
              lambda: lean_list(memo("errno", lambda: errno_discriminators(sources(), c_function)),
                                lambda e: "(%s, %s, %s, %d)" % (lean_str(e[0]), lean_bool(e[1]), lean_bool(e[2]), e[3])),
              "functions of the Linux build that test errno against 0 to tell a legitimate sentinel from an error: (name, `errno = 0;` precedes the test, is a Python entry point, call sites in the Linux build)")
