"""C20 — expected return value of EVERY public method of every platform `Process` class over the scripted native layer
(harness/props/c20_emul.py), without any fault.

Two parts:
  * `per_item(ident, meth)`: the methods that build one namedtuple PER ITEM of a native list (`threads`, `open_files`,
    `net_connections`) or hand a native list on (`memory_maps`). Written BY HAND from the layout the native layer documents for
    each item (C sources: `Py_BuildValue("Idd", thread id, user time, system time)`, `("si", path, fd)`,
    `("(iiiNNi)", fd, family, type, laddr, raddr, status)`, ...) applied to the stub's native answers restated below -
    NOT from the platform modules. A swapped `pthread(thread_id, stime, utime)` or `popenfile(fd, path)` differs from this.
  * `SCALARS`: reviewed literal of what the remaining methods return for the stub's answers (bare values, one-shot tuples):
    every value is the stub's native answer handed through (cmdline, cwd, exe, environ, name, nice, ...) or the slot value
    `1000*record + 101 + slot` (the slot-based ones are ALSO checked, independently, against the Lean slot rows).
A method with no entry in either part is reported ("no expectation") - nothing is skipped silently.
"""
import socket

NATIVE_THREADS = [(1, 2.5, 3.5), (2, 4.5, 5.5)]                 # (thread id, user time, system time)
NATIVE_OPEN_FILES = [("/tmp/f1", 3), ("/tmp/f2", 4)]            # (path, fd)
NATIVE_CONN = (7, socket.AF_INET, socket.SOCK_STREAM, ("10.0.0.1", 80), ("10.0.0.2", 9000))   # fd, family, type, laddr, raddr; status LISTEN


def nt(name, **fields):
    return {"nt": name, "fields": [[k, v] for k, v in fields.items()]}


def enum(cls, name, value):
    return {"enum": cls, "name": name, "value": value}


def per_item(ident, meth):
    """expected canonical value, or None when `meth` is not a per-item method"""
    if meth == "threads":
        if ident == "sunos":
            # /proc/<pid>/lwp lists lwp 1 and 2; query_process_thread(pid, tid) -> (user time, system time) = (2.5 + tid, 3.5 + tid)
            return [nt("pthread", id=t, user_time=2.5 + t, system_time=3.5 + t) for t in (1, 2)]
        return [nt("pthread", id=t[0], user_time=t[1], system_time=t[2]) for t in NATIVE_THREADS]
    if meth == "open_files":
        if ident == "aix":
            return []                     # `procfiles -n` prints nothing in the scripted world
        if ident == "sunos":
            # /proc/<pid>/path/{0,1,5} are links to regular files /tmp/fd<N>
            return [nt("popenfile", path="/tmp/fd%d" % fd, fd=fd) for fd in (0, 1, 5)]
        if ident == "windows":
            # native: NT device paths only; \Device\HarddiskVolume1 is C: ; no fd on Windows: -1
            return [nt("popenfile", path="C:\\f1.txt", fd=-1)]
        return [nt("popenfile", path=p, fd=fd) for p, fd in NATIVE_OPEN_FILES]
    if meth == "net_connections":
        fd, fam, typ, laddr, raddr = NATIVE_CONN
        return [nt("pconn", fd=fd, family=enum("AddressFamily", "AF_INET", int(fam)), type=enum("SocketKind", "SOCK_STREAM", int(typ)),
                   laddr=nt("addr", ip=laddr[0], port=laddr[1]), raddr=nt("addr", ip=raddr[0], port=raddr[1]), status="LISTEN")]
    if meth == "memory_maps":
        if ident == "freebsd":
            return [["0x1-0x2", "r-x", "/lib/x.so", 1, 2, 3, 4]]          # native tuples handed on unchanged
        if ident == "sunos":
            # native (start, end, perms, name, rss, anon, locked): address range in hex without 0x; "a.out" is resolved through
            # /proc/<pid>/path/a.out (-> /usr/bin/c20proc); "[heap]" stays
            return [["1000-2000", "r-x", "/usr/bin/c20proc", 11, 12, 13], ["3000-4000", "rw-", "[heap]", 21, 22, 23]]
        if ident == "windows":
            return [["0x1000", "r", "C:\\x.dll", 77]]                      # (hex(address), perms, DOS path, rss)
    return None


SCALARS = {('freebsd', 'cmdline'): ['/usr/bin/c20proc', '-x'],
 ('freebsd', 'cpu_affinity_get'): [0, 1],
 ('freebsd', 'cpu_affinity_set'): None,
 ('freebsd', 'cpu_num'): 1124,
 ('freebsd', 'cpu_times'): {'nt': 'pcputimes', 'fields': [['user', 1115], ['system', 1116], ['children_user', 1117], ['children_system', 1118]]},
 ('freebsd', 'create_time'): 1110,
 ('freebsd', 'cwd'): '/home/c20',
 ('freebsd', 'environ'): {'dict': [['A', '1']]},
 ('freebsd', 'exe'): '/usr/bin/c20proc',
 ('freebsd', 'gids'): {'nt': 'pgids', 'fields': [['real', 1106], ['effective', 1107], ['saved', 1108]]},
 ('freebsd', 'io_counters'): {'nt': 'pio', 'fields': [['read_count', 1113], ['write_count', 1114], ['read_bytes', -1], ['write_bytes', -1]]},
 ('freebsd', 'memory_full_info'): {'nt': 'pmem', 'fields': [['rss', 1119], ['vms', 1120], ['text', 1121], ['data', 1122], ['stack', 1123]]},
 ('freebsd', 'memory_info'): {'nt': 'pmem', 'fields': [['rss', 1119], ['vms', 1120], ['text', 1121], ['data', 1122], ['stack', 1123]]},
 ('freebsd', 'name'): 'c20proc',
 ('freebsd', 'nice_get'): 9,
 ('freebsd', 'nice_set'): None,
 ('freebsd', 'num_ctx_switches'): {'nt': 'pctxsw', 'fields': [['voluntary', 1111], ['involuntary', 1112]]},
 ('freebsd', 'num_fds'): 6,
 ('freebsd', 'num_threads'): 3,
 ('freebsd', 'oneshot'): [1101,
                          2,
                          1103,
                          1104,
                          1105,
                          1106,
                          1107,
                          1108,
                          777,
                          1110,
                          1111,
                          1112,
                          1113,
                          1114,
                          1115,
                          1116,
                          1117,
                          1118,
                          1119,
                          1120,
                          1121,
                          1122,
                          1123,
                          1124,
                          'c20proc'],
 ('freebsd', 'ppid'): 1101,
 ('freebsd', 'rlimit'): [31, 32],
 ('freebsd', 'status'): 'running',
 ('freebsd', 'terminal'): '/dev/ttyC20',
 ('freebsd', 'uids'): {'nt': 'puids', 'fields': [['real', 1103], ['effective', 1104], ['saved', 1105]]},
 ('freebsd', 'wait'): 0,
 ('openbsd', 'cmdline'): ['/usr/bin/c20proc', '-x'],
 ('openbsd', 'cpu_times'): {'nt': 'pcputimes', 'fields': [['user', 1115], ['system', 1116], ['children_user', 1117], ['children_system', 1118]]},
 ('openbsd', 'create_time'): 1110,
 ('openbsd', 'cwd'): '/home/c20',
 ('openbsd', 'environ'): {'dict': [['A', '1']]},
 ('openbsd', 'exe'): '',
 ('openbsd', 'gids'): {'nt': 'pgids', 'fields': [['real', 1106], ['effective', 1107], ['saved', 1108]]},
 ('openbsd', 'io_counters'): {'nt': 'pio', 'fields': [['read_count', 1113], ['write_count', 1114], ['read_bytes', -1], ['write_bytes', -1]]},
 ('openbsd', 'memory_full_info'): {'nt': 'pmem', 'fields': [['rss', 1119], ['vms', 1120], ['text', 1121], ['data', 1122], ['stack', 1123]]},
 ('openbsd', 'memory_info'): {'nt': 'pmem', 'fields': [['rss', 1119], ['vms', 1120], ['text', 1121], ['data', 1122], ['stack', 1123]]},
 ('openbsd', 'name'): 'c20proc',
 ('openbsd', 'nice_get'): 9,
 ('openbsd', 'nice_set'): None,
 ('openbsd', 'num_ctx_switches'): {'nt': 'pctxsw', 'fields': [['voluntary', 1111], ['involuntary', 1112]]},
 ('openbsd', 'num_fds'): 6,
 ('openbsd', 'num_threads'): 2,
 ('openbsd', 'oneshot'): [1101,
                          2,
                          1103,
                          1104,
                          1105,
                          1106,
                          1107,
                          1108,
                          777,
                          1110,
                          1111,
                          1112,
                          1113,
                          1114,
                          1115,
                          1116,
                          1117,
                          1118,
                          1119,
                          1120,
                          1121,
                          1122,
                          1123,
                          1124,
                          'c20proc'],
 ('openbsd', 'ppid'): 1101,
 ('openbsd', 'status'): 'waking',
 ('openbsd', 'terminal'): '/dev/ttyC20',
 ('openbsd', 'uids'): {'nt': 'puids', 'fields': [['real', 1103], ['effective', 1104], ['saved', 1105]]},
 ('openbsd', 'wait'): 0,
 ('netbsd', 'cmdline'): ['/usr/bin/c20proc', '-x'],
 ('netbsd', 'cpu_times'): {'nt': 'pcputimes', 'fields': [['user', 1115], ['system', 1116], ['children_user', 1117], ['children_system', 1118]]},
 ('netbsd', 'create_time'): 1110,
 ('netbsd', 'cwd'): '/home/c20',
 ('netbsd', 'environ'): {'dict': [['A', '1']]},
 ('netbsd', 'exe'): '/usr/bin/c20proc',
 ('netbsd', 'gids'): {'nt': 'pgids', 'fields': [['real', 1106], ['effective', 1107], ['saved', 1108]]},
 ('netbsd', 'io_counters'): {'nt': 'pio', 'fields': [['read_count', 1113], ['write_count', 1114], ['read_bytes', -1], ['write_bytes', -1]]},
 ('netbsd', 'memory_full_info'): {'nt': 'pmem', 'fields': [['rss', 1119], ['vms', 1120], ['text', 1121], ['data', 1122], ['stack', 1123]]},
 ('netbsd', 'memory_info'): {'nt': 'pmem', 'fields': [['rss', 1119], ['vms', 1120], ['text', 1121], ['data', 1122], ['stack', 1123]]},
 ('netbsd', 'name'): 'c20proc',
 ('netbsd', 'nice_get'): 9,
 ('netbsd', 'nice_set'): None,
 ('netbsd', 'num_ctx_switches'): {'nt': 'pctxsw', 'fields': [['voluntary', 1111], ['involuntary', 1112]]},
 ('netbsd', 'num_fds'): 6,
 ('netbsd', 'num_threads'): 3,
 ('netbsd', 'oneshot'): [1101,
                         2,
                         1103,
                         1104,
                         1105,
                         1106,
                         1107,
                         1108,
                         777,
                         1110,
                         1111,
                         1112,
                         1113,
                         1114,
                         1115,
                         1116,
                         1117,
                         1118,
                         1119,
                         1120,
                         1121,
                         1122,
                         1123,
                         1124,
                         'c20proc'],
 ('netbsd', 'ppid'): 1101,
 ('netbsd', 'status'): 'waking',
 ('netbsd', 'terminal'): '/dev/ttyC20',
 ('netbsd', 'uids'): {'nt': 'puids', 'fields': [['real', 1103], ['effective', 1104], ['saved', 1105]]},
 ('netbsd', 'wait'): 0,
 ('macos', 'cmdline'): ['/usr/bin/c20proc', '-x'],
 ('macos', 'cpu_times'): {'nt': 'pcputimes', 'fields': [['user', 2101], ['system', 2102], ['children_user', 0.0], ['children_system', 0.0]]},
 ('macos', 'create_time'): 1109,
 ('macos', 'cwd'): '/home/c20',
 ('macos', 'environ'): {'dict': [['A', '1'], ['B', '2']]},
 ('macos', 'exe'): '/usr/bin/c20proc',
 ('macos', 'gids'): {'nt': 'pgids', 'fields': [['real', 1105], ['effective', 1106], ['saved', 1107]]},
 ('macos', 'memory_full_info'): {'nt': 'pfullmem', 'fields': [['rss', 2103], ['vms', 2104], ['pfaults', 2105], ['pageins', 2106], ['uss', 999]]},
 ('macos', 'memory_info'): {'nt': 'pmem', 'fields': [['rss', 2103], ['vms', 2104], ['pfaults', 2105], ['pageins', 2106]]},
 ('macos', 'name'): 'c20proc',
 ('macos', 'nice_get'): 9,
 ('macos', 'nice_set'): None,
 ('macos', 'num_ctx_switches'): {'nt': 'pctxsw', 'fields': [['voluntary', 2108], ['involuntary', 0]]},
 ('macos', 'num_fds'): 6,
 ('macos', 'num_threads'): 2107,
 ('macos', 'ppid'): 1101,
 ('macos', 'status'): 'running',
 ('macos', 'terminal'): '/dev/ttyC20',
 ('macos', 'uids'): {'nt': 'puids', 'fields': [['real', 1102], ['effective', 1103], ['saved', 1104]]},
 ('macos', 'wait'): 0,
 ('sunos', 'cmdline'): ['/usr/bin/c20proc', '-x'],
 ('sunos', 'cpu_num'): 1,
 ('sunos', 'cpu_times'): {'nt': 'pcputimes',
                          'fields': [['user', 5101.0], ['system', 5102.0], ['children_user', 5103.0], ['children_system', 5104.0]]},
 ('sunos', 'create_time'): 1104,
 ('sunos', 'cwd'): '/home/c20',
 ('sunos', 'environ'): {'dict': [['A', '1']]},
 ('sunos', 'exe'): '/usr/bin/c20proc',
 ('sunos', 'gids'): {'nt': 'pgids', 'fields': [['real', 3104], ['effective', 3105], ['saved', 3106]]},
 ('sunos', 'memory_full_info'): {'nt': 'pmem', 'fields': [['rss', 1128448], ['vms', 1129472]]},
 ('sunos', 'memory_info'): {'nt': 'pmem', 'fields': [['rss', 1128448], ['vms', 1129472]]},
 ('sunos', 'name'): 'c20proc',
 ('sunos', 'nice_get'): 1105,
 ('sunos', 'nice_set'): None,
 ('sunos', 'num_ctx_switches'): {'nt': 'pctxsw', 'fields': [['voluntary', 7101], ['involuntary', 7102]]},
 ('sunos', 'num_fds'): 3,
 ('sunos', 'num_threads'): 1106,
 ('sunos', 'ppid'): 1101,
 ('sunos', 'status'): 'running',
 ('sunos', 'terminal'): '/dev/pts/0',
 ('sunos', 'uids'): {'nt': 'puids', 'fields': [['real', 3101], ['effective', 3102], ['saved', 3103]]},
 ('sunos', 'wait'): 0,
 ('aix', 'cmdline'): ['/usr/bin/c20proc', '-x'],
 ('aix', 'cpu_times'): {'nt': 'pcputimes', 'fields': [['user', 5101.0], ['system', 5102.0], ['children_user', 5103.0], ['children_system', 5104.0]]},
 ('aix', 'create_time'): 1104,
 ('aix', 'cwd'): '/home/c20',
 ('aix', 'environ'): {'dict': [['A', '1']]},
 ('aix', 'exe'): '/usr/bin/c20proc',
 ('aix', 'gids'): {'nt': 'pgids', 'fields': [['real', 3104], ['effective', 3105], ['saved', 3106]]},
 ('aix', 'io_counters'): {'nt': 'pio', 'fields': [['read_count', 6101], ['write_count', 6102], ['read_bytes', 6103], ['write_bytes', 6104]]},
 ('aix', 'memory_full_info'): {'nt': 'pmem', 'fields': [['rss', 1128448], ['vms', 1129472]]},
 ('aix', 'memory_info'): {'nt': 'pmem', 'fields': [['rss', 1128448], ['vms', 1129472]]},
 ('aix', 'name'): 'c20proc',
 ('aix', 'nice_get'): 9,
 ('aix', 'nice_set'): None,
 ('aix', 'num_ctx_switches'): {'nt': 'pctxsw', 'fields': [['voluntary', 7101], ['involuntary', 7102]]},
 ('aix', 'num_fds'): 3,
 ('aix', 'num_threads'): 1106,
 ('aix', 'ppid'): 1101,
 ('aix', 'status'): 'running',
 ('aix', 'terminal'): '/dev/ttyC20',
 ('aix', 'uids'): {'nt': 'puids', 'fields': [['real', 3101], ['effective', 3102], ['saved', 3103]]},
 ('aix', 'wait'): 0,
 ('windows', 'cmdline'): ['c20proc.exe', '/x', 'peb'],
 ('windows', 'cpu_affinity_get'): [0, 2],
 ('windows', 'cpu_affinity_set'): None,
 ('windows', 'cpu_times'): {'nt': 'pcputimes', 'fields': [['user', 8101.0], ['system', 8102.0], ['children_user', 0.0], ['children_system', 0.0]]},
 ('windows', 'create_time'): 8103.0,
 ('windows', 'cwd'): 'C:\\Users\\c20',
 ('windows', 'environ'): {'dict': [['A', '1'], ['B', '2']]},
 ('windows', 'exe'): 'C:\\Windows\\c20proc.exe',
 ('windows', 'io_counters'): {'nt': 'pio',
                              'fields': [['read_count', 6101],
                                         ['write_count', 6102],
                                         ['read_bytes', 6103],
                                         ['write_bytes', 6104],
                                         ['other_count', 6105],
                                         ['other_bytes', 6106]]},
 ('windows', 'ionice_get'): {'enum': 'IOPriority', 'name': 'IOPRIO_NORMAL', 'value': 2},
 ('windows', 'ionice_set'): None,
 ('windows', 'kill'): None,
 ('windows', 'memory_full_info'): {'nt': 'pfullmem',
                                   'fields': [['rss', 4103],
                                              ['vms', 4108],
                                              ['num_page_faults', 4101],
                                              ['peak_wset', 4102],
                                              ['wset', 4103],
                                              ['peak_paged_pool', 4104],
                                              ['paged_pool', 4105],
                                              ['peak_nonpaged_pool', 4106],
                                              ['nonpaged_pool', 4107],
                                              ['pagefile', 4108],
                                              ['peak_pagefile', 4109],
                                              ['private', 4110],
                                              ['uss', 12288]]},
 ('windows', 'memory_info'): {'nt': 'pmem',
                              'fields': [['rss', 4103],
                                         ['vms', 4108],
                                         ['num_page_faults', 4101],
                                         ['peak_wset', 4102],
                                         ['wset', 4103],
                                         ['peak_paged_pool', 4104],
                                         ['paged_pool', 4105],
                                         ['peak_nonpaged_pool', 4106],
                                         ['nonpaged_pool', 4107],
                                         ['pagefile', 4108],
                                         ['peak_pagefile', 4109],
                                         ['private', 4110]]},
 ('windows', 'name'): 'c20proc.exe',
 ('windows', 'nice_get'): {'enum': 'Priority', 'name': 'HIGH_PRIORITY_CLASS', 'value': 128},
 ('windows', 'nice_set'): None,
 ('windows', 'num_ctx_switches'): {'nt': 'pctxsw', 'fields': [['voluntary', 1102], ['involuntary', 0]]},
 ('windows', 'num_handles'): 55,
 ('windows', 'num_threads'): 1106,
 ('windows', 'ppid'): 7,
 ('windows', 'resume'): None,
 ('windows', 'send_signal'): None,
 ('windows', 'status'): 'running',
 ('windows', 'suspend'): None,
 ('windows', 'username'): 'DOM\\user',
 ('windows', 'wait'): 0}


def expected(ident, meth):
    """(found, canonical value)"""
    v = per_item(ident, meth)
    if v is not None:
        return True, v
    if (ident, meth) in SCALARS:
        return True, SCALARS[(ident, meth)]
    return False, None


# ---- status(): native status code -> documented psutil status, per platform identity.
# Written from the platforms' <sys/proc.h> comments and docs/index.rst ("STATUS_*"): SIDL = being created (idle), SRUN = runnable,
# SSLEEP = sleeping on an address, SSTOP = stopped (debugging / suspension), SZOMB = awaiting collection by parent (zombie),
# FreeBSD SWAIT = waiting for interrupt, SLOCK = blocked on a lock; OpenBSD / NetBSD: SONPROC = currently on a CPU (running) while
# SRUN = on a run queue, not yet running ("waking"); OpenBSD SDEAD = almost a zombie (reported as zombie, SZOMB unused since 5.x);
# Solaris SONPROC = being run on a processor, SWAIT = waiting to become runnable; AIX SACTIVE = active, SSWAP = swapped (still runnable).
STATUS_DOC = {
    "freebsd": {"SIDL": "idle", "SRUN": "running", "SSLEEP": "sleeping", "SSTOP": "stopped", "SZOMB": "zombie", "SWAIT": "waiting",
                "SLOCK": "locked"},
    "openbsd": {"SIDL": "idle", "SSLEEP": "sleeping", "SSTOP": "stopped", "SDEAD": "zombie", "SZOMB": "zombie", "SRUN": "waking",
                "SONPROC": "running"},
    "netbsd": {"SIDL": "idle", "SSLEEP": "sleeping", "SSTOP": "stopped", "SZOMB": "zombie", "SRUN": "waking", "SONPROC": "running"},
    "macos": {"SIDL": "idle", "SRUN": "running", "SSLEEP": "sleeping", "SSTOP": "stopped", "SZOMB": "zombie"},
    "sunos": {"SSLEEP": "sleeping", "SRUN": "running", "SZOMB": "zombie", "SSTOP": "stopped", "SIDL": "idle", "SONPROC": "running",
              "SWAIT": "waiting"},
    "aix": {"SIDL": "idle", "SZOMB": "zombie", "SACTIVE": "running", "SSWAP": "running", "SSTOP": "stopped"},
}
