"""C16, record objects: the dict a memoised helper returns is ONE object shared by every consumer of the block.

Model: lean/PsutilModel/Model/C16Rec.lean (+ Model/C16RecGen.lean with the translator's facts); spec:
Spec/C16Rec.lean; theorems: Props/C16.lean, part "records". Driver op `rec` (stateless, one history per line).

Translator (facts below): what each memoised platform helper returns (a mutable dict / immutable bytes), the rows of
the dict-building parser (key, position of the kernel line, behaviour on a short line), for every platform method that
asks for the dict the list of things it does to it (subscript / .get / .pop / del / item store / .clear(); anything
else is an unknown token and fails the obligation), and the public methods that reach such a platform method, with or
without the front-end memoisation.

Correspondence (family `rec:*`): a REAL psutil.Process over a fake procfs whose stat line carries an independent value
in every position (all non-zero in most lines, also the positions no method reads and delayacct_blkio_ticks; lines of
every length the kernel has ever printed), histories of enter / exit (normal, by exception) / nested enter / every
public route in every order / new kernel line / as_dict over routes; each answer decoded back to (key, value) pairs
and compared with the Lean spec (= what the method returns outside a block on the record first read in the block) and
the Lean model. Plus a model-independent sweep: for every ordered pair (A, B) of the methods the documentation groups
around one record, `with p.oneshot(): A(); B()` must give B the answer it gives outside the block on the same files.
"""
import ast
import itertools

from harness.common import extract
from harness.common.extract import NotRecognised
from harness.props import c16_facts

# ------------------------------------------------------------------------------ translator


def _parents(fn):
    par = {}
    for n in ast.walk(fn):
        for ch in ast.iter_child_nodes(n):
            par[ch] = n
    return par


def _key(node):
    """constant string key of a subscript / first argument, or None"""
    if isinstance(node, ast.Constant) and isinstance(node.value, str):
        return node.value
    return None


def _nat(node):
    if isinstance(node, ast.Constant) and isinstance(node.value, int) and not isinstance(node.value, bool) and node.value >= 0:
        return node.value
    return None


class Records:
    def __init__(self, tree):
        self.lx = c16_facts.Linux(tree)
        self.defs = self.lx.defs
        self.helpers = {n: s for n, s in self.lx.helper_src.items()}      # helper name -> file

    # ---- what a helper returns
    def return_kind(self, helper):
        fn = self.defs[helper]
        rets = [n for n in ast.walk(fn) if isinstance(n, ast.Return) and n.value is not None]
        if not rets:
            return "other"
        kinds = set()
        for r in rets:
            v = r.value
            if isinstance(v, ast.Name):
                binds = [a for a in ast.walk(fn) if isinstance(a, ast.Assign) and len(a.targets) == 1
                         and isinstance(a.targets[0], ast.Name) and a.targets[0].id == v.id]
                if binds and all((isinstance(b.value, ast.Dict) and not b.value.keys)
                                 or (isinstance(b.value, ast.Call) and extract.dotted(b.value.func) == "dict")
                                 for b in binds):
                    kinds.add("dict")
                elif binds and all(self._bytes_expr(b.value) for b in binds):
                    kinds.add("bytes")
                else:
                    kinds.add("other")
            elif self._bytes_expr(v):
                kinds.add("bytes")
            else:
                kinds.add("other")
        return kinds.pop() if len(kinds) == 1 else "other"

    @staticmethod
    def _bytes_expr(v):
        """`f.read()`, `f.read().strip()`, `bcat(...)`: what open_binary / bcat deliver (immutable bytes)"""
        if isinstance(v, ast.Call):
            d = extract.dotted(v.func)
            last = d.split(".")[-1]
            if last in ("read", "bcat"):
                return True
            if last in ("strip", "rstrip", "lstrip") and isinstance(v.func, ast.Attribute):
                return Records._bytes_expr(v.func.value)
        return False

    def dict_helpers(self):
        return [h for h in self.helpers if self.return_kind(h) == "dict"]

    # ---- the parser rows
    def parse_rows(self, helper):
        """(key, position, short, default) per `ret[key] = …` of the helper; position 0 = the name between the
        parentheses, i + 1 = fields[i]; a store the translator cannot describe gives short = '?…'"""
        fn = self.defs[helper]
        rets = [n.value.id for n in ast.walk(fn) if isinstance(n, ast.Return) and isinstance(n.value, ast.Name)]
        if len(set(rets)) != 1:
            raise NotRecognised("%s: expected one returned local" % helper)
        ret = rets[0]
        # the local holding the name: bound from a slice of the raw data; the local holding the fields: `….split()`
        name_locals, field_locals = set(), set()
        for a in ast.walk(fn):
            if isinstance(a, ast.Assign) and len(a.targets) == 1 and isinstance(a.targets[0], ast.Name):
                if isinstance(a.value, ast.Subscript) and isinstance(a.value.slice, ast.Slice):
                    name_locals.add(a.targets[0].id)
                if isinstance(a.value, ast.Call) and extract.dotted(a.value.func).split(".")[-1] == "split":
                    field_locals.add(a.targets[0].id)

        def is_store(st):
            return (isinstance(st, ast.Assign) and len(st.targets) == 1 and isinstance(st.targets[0], ast.Subscript)
                    and isinstance(st.targets[0].value, ast.Name) and st.targets[0].value.id == ret)

        def position(v):
            if isinstance(v, ast.Name) and v.id in name_locals:
                return 0
            if isinstance(v, ast.Subscript) and isinstance(v.value, ast.Name) and v.value.id in field_locals:
                i = _nat(v.slice)
                if i is not None:
                    return i + 1
            return None

        def stores_in(stmts):
            return [n for s in stmts for n in ast.walk(s) if is_store(n)]

        rows = []
        for st in fn.body:
            if is_store(st):
                k, pos = _key(st.targets[0].slice), position(st.value)
                rows.append((k or "?", pos or 0, "fail" if (k and pos is not None) else "?store", 0))
            elif isinstance(st, ast.Try) and stores_in([st]):
                body, hs = stores_in(st.body), [s for h in st.handlers for s in stores_in(h.body)]
                ok = (len(body) == 1 and len(st.handlers) == 1 and c16_facts._handler_names(st.handlers[0]) == ["IndexError"]
                      and not stores_in(st.orelse + st.finalbody))
                k = _key(body[0].targets[0].slice) if body else None
                pos = position(body[0].value) if body else None
                if ok and k and pos is not None and len(hs) == 1 and _key(hs[0].targets[0].slice) == k \
                        and _nat(hs[0].value) is not None:
                    rows.append((k, pos, "default", _nat(hs[0].value)))
                elif ok and k and pos is not None and not hs:
                    rows.append((k, pos, "omit", 0))
                else:
                    rows.append((k or "?", pos or 0, "?try", 0))
            elif isinstance(st, ast.If) and stores_in([st]):
                body, other = stores_in(st.body), stores_in(st.orelse)
                t = st.test
                k = _key(body[0].targets[0].slice) if len(body) == 1 else None
                pos = position(body[0].value) if len(body) == 1 else None
                guard = (isinstance(t, ast.Compare) and len(t.ops) == 1 and isinstance(t.ops[0], ast.Gt)
                         and isinstance(t.left, ast.Call) and extract.dotted(t.left.func) == "len"
                         and isinstance(t.left.args[0], ast.Name) and t.left.args[0].id in field_locals
                         and pos is not None and _nat(t.comparators[0]) == pos - 1)
                if guard and k and not other:
                    rows.append((k, pos, "omit", 0))
                elif guard and k and len(other) == 1 and _key(other[0].targets[0].slice) == k and _nat(other[0].value) is not None:
                    rows.append((k, pos, "default", _nat(other[0].value)))
                else:
                    rows.append((k or "?", pos or 0, "?if", 0))
            elif stores_in([st]):
                rows.append(("?", 0, "?nested", 0))
        # any other way of filling the dict (update(), setdefault(), a comprehension …)
        for n in ast.walk(fn):
            if isinstance(n, ast.Attribute) and isinstance(n.value, ast.Name) and n.value.id == ret \
                    and isinstance(n.ctx, ast.Load):
                rows.append(("?", 0, "?method:" + n.attr, 0))
        return rows

    # ---- what a platform method does with the dict
    def _classify(self, node, par):
        """`node` evaluates to the record object; what is done with it"""
        p = par.get(node)
        if isinstance(p, ast.Subscript) and p.value is node:
            k = _key(p.slice)
            if k is None:
                return ("?subscript", "", 0)
            if isinstance(p.ctx, ast.Load):
                return ("read", k, 0)
            if isinstance(p.ctx, ast.Del):
                return ("drop", k, 0)
            gp = par.get(p)
            if isinstance(gp, ast.Assign) and _nat(gp.value) is not None and len(gp.targets) == 1:
                return ("put", k, _nat(gp.value))
            return ("?store", k, 0)
        if isinstance(p, ast.Attribute) and p.value is node:
            gp = par.get(p)
            if isinstance(gp, ast.Call) and gp.func is p and not gp.keywords:
                args = gp.args
                k = _key(args[0]) if args else None
                if p.attr == "get" and len(args) == 2 and k and _nat(args[1]) is not None:
                    return ("readOr", k, _nat(args[1]))
                if p.attr == "pop" and len(args) == 1 and k:
                    return ("take", k, 0)
                if p.attr == "pop" and len(args) == 2 and k and _nat(args[1]) is not None:
                    return ("takeOr", k, _nat(args[1]))
                if p.attr == "clear" and not args:
                    return ("wipe", "", 0)
            return ("?" + p.attr, "", 0)
        return ("?escapes", "", 0)

    def uses(self, meth, helper, depth=0):
        """ordered uses of the dict returned by `self.<helper>()` inside platform method `meth`; [] = not a consumer"""
        fn = self.defs[meth]
        par = _parents(fn)
        found = []
        consumers_called = []
        for n in ast.walk(fn):
            if isinstance(n, ast.Call) and isinstance(n.func, ast.Attribute) and isinstance(n.func.value, ast.Name) \
                    and n.func.value.id == "self":
                if n.func.attr == helper:
                    p = par.get(n)
                    if isinstance(p, ast.Assign) and p.value is n and len(p.targets) == 1 and isinstance(p.targets[0], ast.Name):
                        local = p.targets[0].id
                        rebinds = [a for a in ast.walk(fn) if isinstance(a, (ast.Assign, ast.AugAssign, ast.For, ast.With))
                                   and a is not p and any(isinstance(t, ast.Name) and t.id == local and isinstance(t.ctx, ast.Store)
                                                          for t in ast.walk(a))]
                        if rebinds:
                            found.append((n.lineno, n.col_offset, ("?rebound", "", 0)))
                        for m in ast.walk(fn):
                            if isinstance(m, ast.Name) and m.id == local and isinstance(m.ctx, ast.Load):
                                found.append((m.lineno, m.col_offset, self._classify(m, par)))
                    else:
                        found.append((n.lineno, n.col_offset, self._classify(n, par)))
                elif n.func.attr in self.defs and n.func.attr != meth and depth < 3 and n.func.attr not in self.helpers:
                    consumers_called.append(n)
        for n in consumers_called:
            inner = self.uses(n.func.attr, helper, depth + 1)
            for j, u in enumerate(inner):
                found.append((n.lineno, n.col_offset + j * 1e-6, u))
        found.sort(key=lambda t: (t[0], t[1]))
        return [u for _, _, u in found]

    def consumers(self, helper):
        out = []
        for name in self.defs:
            if name in self.helpers:
                continue
            u = self.uses(name, helper)
            if u:
                out.append((name, u))
        return out


def front_routes(front, consumer_names):
    """public front-end methods whose body calls `self._proc.<consumer>()`: (name, consumer, memoised)"""
    rows = []
    for name, fn in front.defs.items():
        if name.startswith("_") or name in ("oneshot", "as_dict"):
            continue
        called = []
        # `if self._x is None: self._x = self._proc.m()` — the answer is kept for the object's lifetime ("The return value is
        # cached after first call", create_time()): once the constructor has filled it the method never asks the platform
        # layer again, so it is no route to the block's record
        lifetime = set()
        for n in ast.walk(fn):
            if isinstance(n, ast.If) and isinstance(n.test, ast.Compare) and len(n.test.ops) == 1 \
                    and isinstance(n.test.ops[0], ast.Is) and extract.dotted(n.test.left).startswith("self._") \
                    and isinstance(n.test.comparators[0], ast.Constant) and n.test.comparators[0].value is None:
                attr = extract.dotted(n.test.left)
                for a in n.body:
                    if isinstance(a, ast.Assign) and len(a.targets) == 1 and extract.dotted(a.targets[0]) == attr \
                            and isinstance(a.value, ast.Call):
                        lifetime.add(a.value)
        for n in ast.walk(fn):
            if isinstance(n, ast.Call) and isinstance(n.func, ast.Attribute) and extract.dotted(n.func.value) == "self._proc" \
                    and n.func.attr in consumer_names and n.func.attr not in called and n not in lifetime:
                called.append(n.func.attr)
        if len(called) == 1:
            rows.append((name, called[0], name in front.memo))
        elif called:
            rows.append((name, "?several:" + ",".join(called), name in front.memo))
    return rows


def facts(snap, F):
    L = extract
    memo = {}

    def get(key, fn):
        if key not in memo:
            memo[key] = fn()
        return memo[key]

    def rec():
        return get("rec", lambda: Records(extract.parse_module(snap, "_pslinux.py")))

    def front():
        return get("front", lambda: c16_facts.Front(extract.parse_module(snap, "__init__.py")))

    def the_helper():
        hs = rec().dict_helpers()
        if len(hs) != 1:
            raise NotRecognised("expected exactly one dict-returning memoised helper, found %r" % (hs,))
        return hs[0]

    def helper_returns():
        r = rec()
        return L.lean_list(sorted((r.helpers[h], r.return_kind(h)) for h in r.helpers),
                           lambda p: L.lean_pair(L.lean_str(p[0]), L.lean_str(p[1])))
    F.try_add("helperReturns", "List (String × String)", helper_returns,
              "what each memoised platform helper returns (by the file it reads): \"dict\" = a dict built in the helper (a "
              "mutable object shared by every consumer of the block), \"bytes\" = what read()/bcat() delivered (immutable), "
              "\"other\" = anything else")

    def stat_parse():
        rows = rec().parse_rows(the_helper())
        return L.lean_list(rows, lambda r: "(%s, %s, %s, %s)" % (L.lean_str(r[0]), L.lean_nat(r[1]), L.lean_str(r[2]), L.lean_nat(r[3])))
    F.try_add("statParse", "List (String × Nat × String × Nat)", stat_parse,
              "the dict-building helper, one row per `ret[key] = …`: (key, position of the kernel line: 0 = the name between "
              "the parentheses, i+1 = fields[i], on a line too short: \"fail\" = IndexError / \"default\" = the constant of the "
              "except IndexError branch / \"omit\" = the key is left out, that constant)")

    def rec_consumers():
        cons = rec().consumers(the_helper())
        return L.lean_list(cons, lambda c: L.lean_pair(L.lean_str(c[0]), L.lean_list(
            c[1], lambda u: "(%s, %s, %s)" % (L.lean_str(u[0]), L.lean_str(u[1]), L.lean_nat(u[2])))))
    F.try_add("recConsumers", "List (String × List (String × String × Nat))", rec_consumers,
              "every _pslinux.Process method that asks for the dict of the memoised helper, with what it does to that "
              "object in program order: (read, k) = values[k]; (readOr, k, d) = .get(k, d); (take, k) = .pop(k); "
              "(takeOr, k, d) = .pop(k, d); (drop, k) = del values[k]; (put, k, c) = values[k] = c; (wipe) = .clear(); "
              "a token starting with ? = something else (passed on, returned, another method, a computed store …)")

    def rec_routes():
        names = [c[0] for c in rec().consumers(the_helper())]
        rows = front_routes(front(), names)
        return L.lean_list(rows, lambda r: "(%s, %s, %s)" % (L.lean_str(r[0]), L.lean_str(r[1]), L.lean_bool(r[2])))
    F.try_add("recRoutes", "List (String × String × Bool)", rec_routes,
              "public psutil.Process methods whose body calls `self._proc.<consumer>()` for a consumer of that dict: "
              "(public name, consumer, the public method carries @memoize_when_activated); a call under `if self._x is None: "
              "self._x = self._proc.m()` (answer kept for the object's lifetime: create_time) is not a route")


# ------------------------------------------------------------------------------ correspondence

STATE_LETTERS = "RSDTI"            # position 1 of the line (field 3 of proc(5): state); value n is printed as STATE_LETTERS[n]
START_POS = 20                     # starttime: constant for one process (the identity check of ppid() compares it)
FIELD_COUNTS = [39, 40, 41, 42, 44, 47, 52]      # number of fields after the name: kernels with / without delayacct_blkio_ticks …
DOC_STAT_ROUTES = ["cpu_num", "cpu_percent", "cpu_times", "name", "ppid", "status", "terminal"]
OPAQUE_ROUTES = {"cpu_percent", "create_time"}   # answer depends on the clock / is cached for the object's lifetime


def rich_line(rng, start, nfields=None):
    """a kernel record with an independent value in every position (most of them non-zero and distinct)"""
    n = nfields or rng.choice(FIELD_COUNTS)
    line = []
    for pos in range(n + 1):
        r = rng.random()
        if r < 0.75:
            v = rng.randrange(1, 10 ** 6)
        elif r < 0.85:
            v = 0
        else:
            v = rng.randrange(1, 10)
        line.append(v)
    line[1] = rng.randrange(len(STATE_LETTERS))
    line[START_POS] = start
    return line


def render_stat(pid, line):
    f = [str(x) for x in line[1:]]
    f[0] = STATE_LETTERS[line[1] % len(STATE_LETTERS)]
    return "%d (v%d) %s\n" % (pid, line[0], " ".join(f))


class TermMap(dict):
    """stands for _psposix.get_terminal_map(): every device number has a terminal"""

    def __missing__(self, k):
        return "/dev/pts/%d" % k


def decode(impl, route, r):
    """the real return value of public method `route` -> {key: value} (None = cannot be decoded: compare the outcome kind only)"""
    tck = impl.tck
    if route in OPAQUE_ROUTES:
        return None
    if route == "name":
        return {"name": int(r[1:])}
    if route == "ppid":
        return {"ppid": int(r)}
    if route == "cpu_num":
        return {"cpu_num": int(r)}
    if route == "terminal":
        return {"ttynr": int(r.rsplit("/", 1)[1])}
    if route == "status":
        st = impl.plat.PROC_STATUSES
        idx = [i for i, ch in enumerate(STATE_LETTERS) if st[ch] == r]
        if len(idx) != 1:
            raise ValueError("status %r" % (r,))
        return {"status": idx[0]}
    if route == "cpu_times":
        out = {}
        for k, x in (("utime", r.user), ("stime", r.system), ("children_utime", r.children_user),
                     ("children_stime", r.children_system), ("blkio_ticks", r.iowait)):
            t = x * tck
            if abs(t - round(t)) > 1e-6 * max(1.0, abs(t)):
                raise ValueError("cpu_times field %s = %r is not a whole number of ticks" % (k, x))
            out[k] = int(round(t))
        return out
    return None


def routes_of(ctx):
    """callable routes = the translator's routes that as_dict() would call"""
    from harness.common import extract as ex
    import os
    gen = ex.parse_generated(open(os.path.join(ex.GEN_DIR, "C16.lean"), encoding="utf-8").read())
    txt = gen.get("recRoutes", ("", "[]"))[1]
    import re
    names = re.findall(r'\("([^"]+)", "([^"]*)", (true|false)\)', txt)
    valid = set(ctx.psutil._as_dict_attrnames)
    out = [n for n, cons, _ in names if n in valid and not cons.startswith("?")]
    # … and, whatever the translator saw, the methods the documentation groups around the stat record (docs/index.rst,
    # oneshot(), Linux column) except create_time (kept for the object's lifetime): a documented route the facts of this
    # tree no longer list is still exercised (the Lean driver then has no answer for it: reported as drift)
    for n in DOC_STAT_ROUTES:
        if n in valid and n not in out:
            out.append(n)
    return out


class RecRunner:
    def __init__(self, ctx, impl):
        self.ctx = ctx
        self.impl = impl
        self.posix = impl.ps._psposix
        self.saved_tmap = self.posix.get_terminal_map
        self.posix.get_terminal_map = lambda: TermMap()

        self.ref_cache = {}
        self.routes = routes_of(ctx)

    def close(self):
        self.posix.get_terminal_map = self.saved_tmap
        self.impl.stat_line = None
        self.impl.reset()

    def reference(self, line):
        """what every route answers OUTSIDE any block, on a fresh Process object, while the kernel record is `line`"""
        key = tuple(line)
        if key not in self.ref_cache:
            impl = self.impl
            impl.stat_line = list(line)
            impl.reset()
            p = impl.p
            self.ref_cache[key] = {m: self.outcome(m, getattr(p, m)) for m in self.routes}
        return self.ref_cache[key]

    def set_line(self, line):
        self.impl.stat_line = list(line)
        self.impl._write("stat")

    def outcome(self, route, fn):
        try:
            r = fn()
        except BaseException as e:  # noqa: BLE001
            if isinstance(e, (KeyboardInterrupt, SystemExit)):
                raise
            return {"kind": "exc", "exc": type(e).__name__}
        try:
            d = decode(self.impl, route, r)
        except Exception as e:  # noqa: BLE001
            return {"kind": "undecodable", "repr": repr(r)[:200], "why": "%s: %s" % (type(e).__name__, e)}
        return {"kind": "ok", "value": d} if d is not None else {"kind": "ok"}

    def run(self, line0, hist):
        """one history on the real code -> list of outcomes, one per op (as_dict: one per requested name, in set order)"""
        impl = self.impl
        impl.stat_line = list(line0)
        impl.reset()
        p = impl.p
        cms, outs = [], []
        for o in hist:
            k = o["op"]
            if k == "enter":
                cm = p.oneshot()
                try:
                    cm.__enter__()
                    cms.append(cm)
                    outs.append([{"kind": "unit"}])
                except Exception as e:  # noqa: BLE001
                    cms.append(None)
                    outs.append([{"kind": "exc", "exc": type(e).__name__}])
            elif k == "exit":
                cm = cms.pop() if cms else None
                if cm is None:
                    outs.append([{"kind": "unit"}])
                    continue
                try:
                    if o["exc"]:
                        import sys
                        from harness.props import c16
                        try:
                            raise c16.Boom()
                        except c16.Boom:
                            cm.__exit__(*sys.exc_info())
                    else:
                        cm.__exit__(None, None, None)
                    outs.append([{"kind": "unit"}])
                except Exception as e:  # noqa: BLE001
                    outs.append([{"kind": "unit"} if type(e).__name__ == "Boom" else {"kind": "exc", "exc": type(e).__name__}])
            elif k == "call":
                outs.append([self.outcome(o["m"], getattr(p, o["m"]))])
            elif k == "line":
                self.set_line(o["line"])
                outs.append([{"kind": "unit"}])
            elif k == "asdict":
                order = list(set(o["attrs"]))
                try:
                    d = p.as_dict(attrs=list(o["attrs"]))
                    row = [{"kind": "unit"}]
                    for n in order:
                        row.append(self.outcome(n, lambda n=n: d[n]))
                    row.append({"kind": "unit"})
                except BaseException as e:  # noqa: BLE001
                    if isinstance(e, (KeyboardInterrupt, SystemExit)):
                        raise
                    row = [{"kind": "exc", "exc": type(e).__name__, "in": "as_dict"}] * (len(order) + 2)
                outs.append(row)
            else:
                raise ValueError(o)
        # leave no block open
        while cms:
            cm = cms.pop()
            try:
                if cm is not None:
                    cm.__exit__(None, None, None)
            except Exception:  # noqa: BLE001
                pass
        return outs


def driver_hist(hist):
    """the primitive ops the Lean model runs for one harness history; as_dict(attrs) = enter, the names in the iteration
    order of set(attrs), exit (what Model/C16.lean's asDictBody is)"""
    out, groups = [], []
    for o in hist:
        k = o["op"]
        if k == "enter":
            ops = [["enter"]]
        elif k == "exit":
            ops = [["exit", bool(o["exc"])]]
        elif k == "call":
            ops = [["call", o["m"]]]
        elif k == "line":
            ops = [["line", list(o["line"])]]
        elif k == "asdict":
            ops = [["enter"]] + [["call", n] for n in list(set(o["attrs"]))] + [["exit", False]]
        else:
            raise ValueError(o)
        groups.append(len(ops))
        out.extend(ops)
    return out, groups


def well_nested(hist):
    d = 0
    for o in hist:
        if o["op"] == "enter":
            d += 1
        elif o["op"] == "exit":
            d -= 1
            if d < 0:
                return False
    return True


def same(impl_out, lean_out):
    if impl_out.get("kind") != lean_out.get("kind"):
        return False
    if impl_out["kind"] == "exc":
        return impl_out.get("exc") == lean_out.get("exc")
    if impl_out["kind"] == "ok" and "value" in impl_out:
        return impl_out["value"] == {k: v for k, v in lean_out.get("value", [])}
    return True


def expected_rows(runner, line0, dh):
    """The clause evaluated with `outside` taken from the REAL code (no translator fact, no Lean definition involved): a
    depth counter, the kernel record current at the first call of the open outermost block, and for every call the answer
    the same public method gives OUTSIDE any block on a fresh object while the files hold that record."""
    depth, frozen, cur, out = 0, None, list(line0), []
    for op in dh:
        k = op[0]
        if k == "enter":
            depth += 1
            out.append({"kind": "unit"})
        elif k == "exit":
            if depth:
                depth -= 1
                if depth == 0:
                    frozen = None
            out.append({"kind": "unit"})
        elif k == "line":
            cur = list(op[1])
            out.append({"kind": "unit"})
        else:
            if depth and frozen is None:
                frozen = cur
            out.append(runner.reference(frozen if depth else cur)[op[1]])
    return out


def same_impl(a, b):
    """two outcomes of the real code"""
    if a.get("kind") != b.get("kind"):
        return False
    if a["kind"] == "exc":
        return a.get("exc") == b.get("exc")
    return a.get("value") == b.get("value")


def judge(cases, runner, ctx):
    """cases: [(tag, line0, hist)] -> [(tag, line0, hist, None | (step, kind, impl row, model row, spec row))]
    kind "spec": the real code inside the block differs from the real code outside the block on the record first read in
    the block (a failing input whatever the translator understood); kind "model": it differs from the Lean specification /
    model only (the facts no longer describe the code: correspondence broken, no failing input by itself)."""
    lines = []
    for _, line0, hist in cases:
        dh, _ = driver_hist(hist)
        lines.append({"op": "rec", "line": list(line0), "hist": dh})
    answers = ctx.driver().batch(lines)
    verdicts = []
    for (tag, line0, hist), ans in zip(cases, answers):
        if "bad" in ans:
            # a route the generated table does not know (the facts of this tree dropped it): no Lean answer for this history
            ans = None
        dh, groups = driver_hist(hist)
        outs = runner.run(line0, hist)
        exp = expected_rows(runner, line0, dh)
        pos = 0
        bad = None
        for i, (o, row, g) in enumerate(zip(hist, outs, groups)):
            ex = exp[pos:pos + g]
            mo = ans["model"][pos:pos + g] if ans else None
            sp = ans["spec"][pos:pos + g] if ans else None
            pos += g
            if len(row) != g:
                raise RuntimeError("row length mismatch at %r" % (o,))
            if not all(same_impl(a, b) for a, b in zip(row, ex)):
                bad = (i, "spec", row, mo, {"outside_the_block_on_the_first_read_record": ex, "lean_spec": sp})
                break
            if ans is None:
                bad = (i, "model", row, None, {"lean": "no answer: the generated route table does not contain this route"})
                break
            if not all(same(a, b) for a, b in zip(row, sp)) or not all(same(a, b) for a, b in zip(row, mo)):
                bad = (i, "model", row, mo, sp)
                break
        verdicts.append((tag, line0, hist, bad))
    return verdicts


def gen_random(rng, routes, start):
    h, depth = [], 0
    for _ in range(rng.randrange(4, 15)):
        r = rng.random()
        if r < 0.15:
            h.append({"op": "enter"})
            depth += 1
        elif r < 0.27 and depth:
            h.append({"op": "exit", "exc": rng.random() < 0.3})
            depth -= 1
        elif r < 0.72:
            h.append({"op": "call", "m": rng.choice(routes)})
        elif r < 0.87:
            h.append({"op": "line", "line": rich_line(rng, start)})
        else:
            h.append({"op": "asdict", "attrs": rng.sample(routes, rng.randrange(1, min(5, len(routes)) + 1))})
    while depth and rng.random() < 0.7:
        h.append({"op": "exit", "exc": rng.random() < 0.3})
        depth -= 1
    if rng.random() < 0.7:
        h.append({"op": "call", "m": rng.choice(routes)})
    return h


def cases_for(ctx, routes, thorough, factor=1):
    rng = ctx.rng
    cases = []

    def fresh():
        start = rng.randrange(1, 10 ** 6)
        return start, rich_line(rng, start, nfields=rng.choice([44, 52]))
    # exhaustive: every ordered pair (A, B) of routes inside one block, then B again after the block; same with a new
    # kernel record between the two calls
    for a, b in itertools.product(routes, repeat=2):
        start, l0 = fresh()
        cases.append(("rec:pairs", l0, [{"op": "enter"}, {"op": "call", "m": a}, {"op": "call", "m": b},
                                         {"op": "exit", "exc": False}, {"op": "call", "m": b}]))
        start, l0 = fresh()
        cases.append(("rec:pairs", l0, [{"op": "enter"}, {"op": "call", "m": a}, {"op": "line", "line": rich_line(rng, start)},
                                         {"op": "call", "m": b}, {"op": "exit", "exc": True},
                                         {"op": "line", "line": rich_line(rng, start)}, {"op": "call", "m": b}]))
    if thorough:
        for a, b, c in itertools.product(routes, repeat=3):
            start, l0 = fresh()
            cases.append(("rec:triples", l0, [{"op": "enter"}, {"op": "call", "m": a}, {"op": "call", "m": b},
                                               {"op": "call", "m": c}, {"op": "exit", "exc": False}]))
    # structured: every route called before / inside / in a nested block / after an exceptional exit, around a bypassing call
    for b in routes:
        for a in routes:
            if a == b:
                continue
            start, l0 = fresh()
            cases.append(("rec:structured", l0, [
                {"op": "call", "m": b}, {"op": "enter"}, {"op": "call", "m": a}, {"op": "line", "line": rich_line(rng, start)},
                {"op": "call", "m": b}, {"op": "enter"}, {"op": "call", "m": a}, {"op": "call", "m": b}, {"op": "exit", "exc": False},
                {"op": "call", "m": b}, {"op": "exit", "exc": True}, {"op": "call", "m": b}]))
            if len(cases) % 3 == 0:
                start, l0 = fresh()
                cases.append(("rec:structured", l0, [
                    {"op": "enter"}, {"op": "call", "m": a}, {"op": "asdict", "attrs": [a, b]}, {"op": "call", "m": b},
                    {"op": "exit", "exc": False}, {"op": "asdict", "attrs": [b, a]}]))
    # every kernel generation: with / without the optional trailing positions
    for n in FIELD_COUNTS:
        for a, b in itertools.islice(itertools.product(routes, repeat=2), 0, None, max(1, len(routes) // 2)):
            start = rng.randrange(1, 10 ** 6)
            cases.append(("rec:short", rich_line(rng, start, nfields=n),
                          [{"op": "call", "m": b}, {"op": "enter"}, {"op": "call", "m": a}, {"op": "call", "m": b},
                           {"op": "line", "line": rich_line(rng, start)}, {"op": "call", "m": b}, {"op": "exit", "exc": False},
                           {"op": "call", "m": b}]))
    for _ in range(int((2000 if thorough else 150) * factor)):
        start = rng.randrange(1, 10 ** 6)
        cases.append(("rec:random", rich_line(rng, start), gen_random(rng, routes, start)))
    return cases


def pair_sweep(ctx, impl, res):
    """Model-independent: for every ordered pair (A, B) of the methods the documentation groups around one record (and the
    two oneshot() itself names as cached), `with p.oneshot(): A(); r = B()` must give B what B gives outside the block on
    the same files. Real methods, nothing stubbed, values compared as they are."""
    from harness.props import c16
    names = sorted({n for ns in c16.DOC_GROUPS.values() for n in ns} | set(c16.FRONT_STATM))
    names = [n for n in names if n in impl.valid]
    rng = ctx.rng
    n_bad = 0
    for a, b in itertools.product(names, repeat=2):
        if b in OPAQUE_ROUTES and b != "create_time":
            continue                       # B's own answer depends on the clock
        start = rng.randrange(1, 10 ** 6)
        line = rich_line(rng, start, nfields=52)
        impl.stat_line = line
        impl.reset()
        p = impl.p
        want = c16._raw(getattr(p, b))
        cm = p.oneshot()
        cm.__enter__()
        try:
            ra = c16._raw(getattr(p, a))
            got = c16._raw(getattr(p, b))
        finally:
            try:
                cm.__exit__(None, None, None)
            except Exception:  # noqa: BLE001
                pass
        after = c16._raw(getattr(p, b))
        res.count("family:rec:pair_sweep")
        res.case(("rec-sweep", a, b), nontrivial=True)
        if got != want or after != want:
            n_bad += 1
            if n_bad <= 3:
                res.disagree("spec", {"pair_sweep": [a, b], "line": line},
                             {"outside": want, "first": ra, "inside_after_first": got, "after_block": after}, None,
                             {"clause": "inside a block a method returns what it returns outside the block"},
                             note="with p.oneshot(): %s(); %s() -> %s, but %s() outside the block (same files) -> %s"
                                  % (a, b, got[1], b, want[1]))
    impl.stat_line = None
    return len(names)


def replay_pair(ctx, impl, inp):
    from harness.props import c16
    a, b = inp["pair_sweep"]
    impl.stat_line = list(inp["line"])
    impl.reset()
    p = impl.p
    want = c16._raw(getattr(p, b))
    with p.oneshot():
        c16._raw(getattr(p, a))
        got = c16._raw(getattr(p, b))
    after = c16._raw(getattr(p, b))
    impl.stat_line = None
    return got != want or after != want


def correspond_records(ctx, impl, res):
    routes = routes_of(ctx)
    res.extra["rec_routes"] = routes
    if not routes:
        res.disagree("model", {"rec": "no callable route"}, None, None, None,
                     note="the translator found no public route to the record of the dict-returning helper")
        return
    thorough = ctx.tier == "thorough"
    runner = RecRunner(ctx, impl)
    try:
        cases = cases_for(ctx, routes, thorough, factor=min(ctx.budget_factor, 3))
        verdicts = judge(cases, runner, ctx)
        reported = {"spec": 0, "model": 0}
        sampled = False
        for tag, line0, hist, bad in verdicts:
            res.count("family:" + tag)
            res.count("ops", len(hist))
            res.count("rec_nonzero_positions", sum(1 for x in line0 if x))
            res.count("rec_positions", len(line0))
            smp = None
            if tag == "rec:random" and not sampled and not bad:
                sampled = True
                smp = {"family": tag, "line": line0, "history": hist}
            res.case(("rec", tuple(line0), repr(hist)), nontrivial=True, sample=smp)
            if bad:
                res.count("rec_disagreement:" + bad[1])
            if bad and reported[bad[1]] < 2:
                reported[bad[1]] += 1
                i, kind, row, mo, sp = bad
                res.disagree(kind, {"rec": {"line": line0, "hist": hist[:i + 1]}, "source": tag}, row, mo, sp,
                             note="step %d (%s): %s" % (
                                 i, hist[i].get("m") or hist[i]["op"],
                                 "inside the block the method does not return what the same method returns outside the block on the "
                                 "record first read in the block" if kind == "spec" else
                                 "the implementation differs from the Lean specification / model of the shared record object (it agrees "
                                 "with its own answers outside the block: the translator's facts no longer describe the code)"))
        n = pair_sweep(ctx, impl, res)
        res.extra["rec_exhaustive"] = ("every ordered pair%s of the %d public routes to the stat record %s inside one block (with and "
                                       "without a new kernel record in between); every ordered pair of the %d documented/grouped methods "
                                       "in the model-independent sweep" % (" and triple" if thorough else "", len(routes), routes, n))
    finally:
        runner.close()


def fails(ctx, impl, line0, hist):
    runner = RecRunner(ctx, impl)
    try:
        v = judge([("replay", line0, hist)], runner, ctx)[0]
        return v[3] is not None and v[3][1] == "spec", v
    finally:
        runner.close()


def shrink(ctx, impl, d):
    from harness.common.shrink import ddmin
    rec = d["input"]["rec"]
    line0, hist = rec["line"], rec["hist"]
    small = ddmin(hist, lambda h: bool(h) and well_nested(h) and fails(ctx, impl, line0, h)[0], max_tests=60)
    ok, v = fails(ctx, impl, line0, small)
    if ok:
        i, kind, row, mo, sp = v[3]
        return dict(d, input={"rec": {"line": line0, "hist": small[:i + 1]}, "source": "shrunk"}, impl=row, model=mo, spec=sp)
    return d
