"""C03 fault layer: every OS access psutil makes below a fake procfs root goes through here.

Patched from outside the repository (no source hooks): `builtins.open` (and the returned
file's read / readline / iteration), `os.readlink`, `os.listdir`, `os.stat`, `os.lstat`
(`os.path.exists` / `lexists` / `isfile` call those), `os.scandir` (only to notice it — psutil
does not use it for processes; a use would be an access kind the model does not know), and
the native calls `cext_posix.getpriority`, `cext.proc_cpu_affinity_get`,
`cext.proc_ioprio_get`, `resource.prlimit`.

While a case is active each access
  * gets the next index k and is logged as "<kind> <path relative to the root>",
  * fails with the errno of the fault plan when `deny[k]` is set and the path lies below
    /proc/<some pid> (a denial is about a process becoming unreadable; system-wide files such
    as the /proc listing itself or /proc/net/* are not denied),
  * otherwise behaves as the process' current state says: state of the target =
    last `switch` entry with index <= k (alive / zombie / gone); pids in `stale_pids` are gone
    although still listed; everything else is alive = the real files of the fake tree, minus
    the `stale` paths (entries that were listed and closed/exited before they are looked at).

The ZOMBIE table below was captured from the sandbox kernel (6.18) with a real zombie child
(DESIGN Appendix A.8); `probe_live_zombie()` re-checks it on every run.
Granularity: one access per open(), one per *first* read-like call on the returned file (a
procfs record of these sizes is produced by a single read(2); later readline()/iteration is
served from the buffer).
"""
import builtins
import errno
import io
import os
import re
import time

_REAL = {
    "open": builtins.open,
    "readlink": os.readlink,
    "listdir": os.listdir,
    "stat": os.stat,
    "lstat": os.lstat,
    "scandir": os.scandir,
}

ERRNO = {"ENOENT": errno.ENOENT, "ESRCH": errno.ESRCH, "EACCES": errno.EACCES, "EPERM": errno.EPERM}

# ---- zombie behaviour table: file name below /proc/<pid> -> (open, read)
ZOMBIE_FILES = {
    "stat": ("ok", "ok"), "status": ("ok", "ok"), "statm": ("ok", "ok"), "io": ("ok", "ok"),
    "cmdline": ("ok", "empty"), "smaps": ("ok", "empty"),
    "environ": ("ESRCH", "empty"), "smaps_rollup": ("ESRCH", "ESRCH"),
}
ZOMBIE_LINKS = {"exe": "ENOENT", "cwd": "ENOENT"}
ZOMBIE_DIRS = {"fd": "empty", "task": "self"}


def _oserr(name, path):
    e = ERRNO[name]
    return OSError(e, os.strerror(e), path)


class Plan:
    def __init__(self, d=None):
        d = d or {}
        self.switch = sorted((int(k), st) for k, st in d.get("switch", []))
        self.deny = {int(k): e for k, e in d.get("deny", [])}

    def ws(self, k):
        st = "alive"
        for i, s in self.switch:
            if i <= k:
                st = s
        return st


class _FileProxy:
    """The object psutil gets back from open(): the first read-like call is an access."""

    def __init__(self, fs, f, path, text):
        object.__setattr__(self, "_fs", fs)
        object.__setattr__(self, "_f", f)
        object.__setattr__(self, "_path", path)
        object.__setattr__(self, "_text", text)
        object.__setattr__(self, "_first", True)

    def _pre(self):
        if self._first:
            object.__setattr__(self, "_first", False)
            ov = self._fs._access("read", self._path)
            if ov is not None:
                self._f.close()
                if self._text:
                    object.__setattr__(self, "_f", io.StringIO(ov.decode("utf-8", "surrogateescape")))
                else:
                    object.__setattr__(self, "_f", io.BytesIO(ov))

    def read(self, *a):
        self._pre()
        return self._f.read(*a)

    def readline(self, *a):
        self._pre()
        return self._f.readline(*a)

    def readlines(self, *a):
        self._pre()
        return self._f.readlines(*a)

    def __iter__(self):
        return self

    def __next__(self):
        self._pre()
        line = self._f.readline()
        if not line:
            raise StopIteration
        return line

    def __enter__(self):
        return self

    def __exit__(self, *a):
        self._f.close()
        return False

    def close(self):
        self._f.close()

    def __getattr__(self, name):
        return getattr(self._f, name)

    def __setattr__(self, name, value):
        # open_text() sets fobj._CHUNK_SIZE; keep it on the proxy, harmless
        object.__setattr__(self, name, value)


class FaultFS:
    def __init__(self, root, target, stale_pids=(), stale=(), ext=None):
        self.root = os.path.realpath(root)
        # paths OUTSIDE the fake procfs that a query looks at because a procfs record of some pid names them (the backing
        # path of a mapping printed in /proc/<pid>/smaps): absolute path -> "<pid>/map/<i>". An os.stat of one of them is
        # an access of the call like any other: it gets an index, is logged, and may be the one the plan refuses. What
        # it answers otherwise does not depend on the state of the process (the real file system decides).
        self.ext = dict(ext or {})
        self.target = target
        self.stale_pids = set(stale_pids)
        self.stale = set(stale)          # relative paths that behave as gone although listed
        self.active = False
        self.plan = Plan()
        self.k = 0
        self.trace = []
        self.unknown = []
        self.natives = {}
        self.installed = False

    # ------------------------------------------------------------------ patching
    def install(self, ps):
        plat = ps._psplatform
        self._saved = {
            "open": builtins.open, "readlink": os.readlink, "listdir": os.listdir,
            "stat": os.stat, "lstat": os.lstat, "scandir": os.scandir,
            "getpriority": plat.cext_posix.getpriority,
            "affinity": getattr(plat.cext, "proc_cpu_affinity_get", None),
            "ioprio": getattr(plat.cext, "proc_ioprio_get", None),
        }
        import resource
        self._resource = resource
        self._saved["prlimit"] = getattr(resource, "prlimit", None)
        self._plat = plat
        builtins.open = self._open
        os.readlink = self._readlink
        os.listdir = self._listdir
        os.stat = self._stat
        os.lstat = self._lstat
        os.scandir = self._scandir
        plat.cext_posix.getpriority = lambda pid: self._native("getpriority", pid, 0)
        if self._saved["affinity"] is not None:
            plat.cext.proc_cpu_affinity_get = lambda pid: self._native("affinity", pid, [0])
        if self._saved["ioprio"] is not None:
            plat.cext.proc_ioprio_get = lambda pid: self._native("ioprio", pid, (0, 4))
        if self._saved["prlimit"] is not None:
            resource.prlimit = lambda pid, res, *a: self._native("prlimit", pid, (1024, 4096))
        self.installed = True

    def uninstall(self):
        if not self.installed:
            return
        s = self._saved
        builtins.open = s["open"]
        os.readlink = s["readlink"]
        os.listdir = s["listdir"]
        os.stat = s["stat"]
        os.lstat = s["lstat"]
        os.scandir = s["scandir"]
        self._plat.cext_posix.getpriority = s["getpriority"]
        if s["affinity"] is not None:
            self._plat.cext.proc_cpu_affinity_get = s["affinity"]
        if s["ioprio"] is not None:
            self._plat.cext.proc_ioprio_get = s["ioprio"]
        if s["prlimit"] is not None:
            self._resource.prlimit = s["prlimit"]
        self.installed = False

    # ------------------------------------------------------------------ one case
    def begin(self, plan):
        self.plan = plan if isinstance(plan, Plan) else Plan(plan)
        self.k = 0
        self.trace = []
        self.unknown = []
        self.active = True

    def end(self):
        self.active = False
        return list(self.trace)

    # ------------------------------------------------------------------ classification
    def _rel(self, path):
        if isinstance(path, bytes):
            path = os.fsdecode(path)
        if not isinstance(path, str):
            return None
        if path == self.root:
            return "."
        if path.startswith(self.root + "/"):
            return os.path.normpath(path[len(self.root) + 1:])
        return None

    def _state(self, k, owner):
        if owner == self.target:
            return self.plan.ws(k)
        if owner in self.stale_pids:
            return "gone"
        return "alive"

    def _access(self, kind, path):
        """Decide the k-th access. Returns None (use the real file), or an override value;
        raises the injected OSError."""
        rel = self._rel(path)
        k = self.k
        self.k += 1
        self.trace.append("%s %s" % (kind, rel))
        parts = rel.split("/")
        owner = int(parts[0]) if parts[0].isdigit() else None
        if owner is not None and k in self.plan.deny:
            raise _oserr(self.plan.deny[k], path)
        if owner is None:
            if kind == "listdir" and rel == ".":
                if self.plan.ws(k) == "gone":
                    return [n for n in _REAL["listdir"](self.root) if n != str(self.target)]
            return None
        st = self._state(k, owner)
        sub = "/".join(parts[1:])
        if st == "gone":
            raise _oserr("ESRCH" if kind == "read" else "ENOENT", path)
        if st == "alive":
            if rel in self.stale:
                raise _oserr("ESRCH" if kind == "read" else "ENOENT", path)
            return None
        # ---- zombie
        return self._zombie(kind, sub, owner, path)

    def _zombie(self, kind, sub, owner, path):
        parts = sub.split("/") if sub else []
        if kind in ("stat", "lstat"):
            if not parts or sub in ZOMBIE_FILES or sub in ZOMBIE_DIRS:
                return None
            raise _oserr("ENOENT", path)
        if kind == "readlink":
            raise _oserr("ENOENT", path)
        if kind == "listdir":
            if sub == "fd":
                return []
            if sub == "task":
                return [str(owner)]
            self.unknown.append("zombie listdir " + sub)
            return None
        if kind in ("open", "read"):
            col = 0 if kind == "open" else 1
            if sub in ZOMBIE_FILES:
                what = ZOMBIE_FILES[sub][col]
            elif len(parts) == 3 and parts[0] == "task" and parts[2] == "stat":
                what = "ok" if parts[1] == str(owner) else ("ENOENT" if kind == "open" else "ESRCH")
            elif len(parts) == 2 and parts[0] == "fdinfo":
                what = "ENOENT" if kind == "open" else "ESRCH"
            else:
                self.unknown.append("zombie %s %s" % (kind, sub))
                return None
            if what in ERRNO:
                raise _oserr(what, path)
            if kind == "read":
                if what == "empty":
                    return b""
                if sub == "stat" or sub.endswith("/stat"):
                    with _REAL["open"](path, "rb") as f:
                        data = f.read()
                    # state letter of a zombie
                    return re.sub(rb"\) [A-Za-z] ", b") Z ", data, count=1)
            return None
        self.unknown.append("zombie %s %s" % (kind, sub))
        return None

    def _ext(self, path):
        if isinstance(path, bytes):
            path = os.fsdecode(path)
        if isinstance(path, str) and self.ext:
            return self.ext.get(path)
        return None

    def _access_ext(self, kind, path, label):
        k = self.k
        self.k += 1
        self.trace.append("%s %s" % (kind, label))
        if kind != "stat":
            self.unknown.append("%s %s" % (kind, label))
        if k in self.plan.deny:
            raise _oserr(self.plan.deny[k], path)

    # ------------------------------------------------------------------ wrappers
    def _open(self, file, mode="r", *a, **kw):
        if self.active and self._ext(file) is not None:
            self._access_ext("open", file, self._ext(file))
            return _REAL["open"](file, mode, *a, **kw)
        if self.active and self._rel(file) is not None:
            if any(c in mode for c in "wax+"):
                self.unknown.append("open mode %s %s" % (mode, self._rel(file)))
            self._access("open", file)
            f = _REAL["open"](file, mode, *a, **kw)
            return _FileProxy(self, f, os.fsdecode(file) if isinstance(file, bytes) else file, "b" not in mode)
        return _REAL["open"](file, mode, *a, **kw)

    def _readlink(self, path, *a, **kw):
        if self.active and self._ext(path) is not None:
            self._access_ext("readlink", path, self._ext(path))
            return _REAL["readlink"](path, *a, **kw)
        if self.active and self._rel(path) is not None:
            self._access("readlink", path)
        return _REAL["readlink"](path, *a, **kw)

    def _listdir(self, path="."):
        if self.active and self._rel(path) is not None:
            ov = self._access("listdir", path)
            if ov is not None:
                return [os.fsencode(n) for n in ov] if isinstance(path, bytes) else list(ov)
        return _REAL["listdir"](path)

    def _stat(self, path, *a, **kw):
        if self.active and not isinstance(path, int) and self._ext(path) is not None:
            self._access_ext("stat", path, self._ext(path))
            return _REAL["stat"](path, *a, **kw)
        if self.active and not isinstance(path, int) and self._rel(path) is not None:
            self._access("stat", path)
        return _REAL["stat"](path, *a, **kw)

    def _lstat(self, path, *a, **kw):
        if self.active and self._ext(path) is not None:
            self._access_ext("lstat", path, self._ext(path))
            return _REAL["lstat"](path, *a, **kw)
        if self.active and self._rel(path) is not None:
            self._access("lstat", path)
        return _REAL["lstat"](path, *a, **kw)

    def _scandir(self, path="."):
        if self.active and not isinstance(path, int) and self._rel(path) is not None:
            self.unknown.append("scandir " + self._rel(path))
            self._access("scandir", path)
        return _REAL["scandir"](path)

    def _native(self, name, pid, value):
        if not self.active:
            return value
        k = self.k
        self.k += 1
        self.trace.append("native %s %d" % (name, pid))
        if k in self.plan.deny:
            raise _oserr(self.plan.deny[k], None)
        if self._state(k, pid) == "gone":
            raise _oserr("ESRCH", None)
        return value


# ---------------------------------------------------------------------- live validation

def probe_live_zombie():
    """Fork a child, let it exit without reaping it, and compare what the kernel does with
    the ZOMBIE tables above (and the GONE rule after reaping). Returns a list of mismatches."""
    bad = []
    r, w = os.pipe()
    pid = os.fork()
    if pid == 0:
        try:
            os.close(r)
            os.close(w)
        finally:
            os._exit(0)
    os.close(w)
    os.read(r, 1)          # EOF once the child has closed its end (it exits right after)
    os.close(r)
    base = "/proc/%d" % pid
    for _ in range(200):
        try:
            with _REAL["open"](base + "/stat", "rb") as f:
                d = f.read()
            if d[d.rfind(b")") + 2:d.rfind(b")") + 3] == b"Z":
                break
        except OSError:
            pass
        time.sleep(0.005)
    else:
        bad.append("child did not become a zombie")

    def op_open(p):
        try:
            f = _REAL["open"](p, "rb")
        except OSError as e:
            return errno.errorcode[e.errno], None
        return "ok", f

    try:
        for name, (o_exp, r_exp) in ZOMBIE_FILES.items():
            got, f = op_open(base + "/" + name)
            if got != o_exp:
                bad.append("zombie open %s: kernel %s, table %s" % (name, got, o_exp))
            if f is not None:
                try:
                    d = f.read()
                    g = "empty" if not d else "ok"
                except OSError as e:
                    g = errno.errorcode[e.errno]
                f.close()
                if g != r_exp:
                    bad.append("zombie read %s: kernel %s, table %s" % (name, g, r_exp))
        for name, exp in ZOMBIE_LINKS.items():
            try:
                _REAL["readlink"](base + "/" + name)
                g = "ok"
            except OSError as e:
                g = errno.errorcode[e.errno]
            if g != exp:
                bad.append("zombie readlink %s: kernel %s, table %s" % (name, g, exp))
        if _REAL["listdir"](base + "/fd") != []:
            bad.append("zombie fd listing not empty")
        if _REAL["listdir"](base + "/task") != [str(pid)]:
            bad.append("zombie task listing is not [pid]")
        try:
            _REAL["stat"](base)
        except OSError:
            bad.append("zombie /proc/<pid> does not stat")
        try:
            os.getpriority(os.PRIO_PROCESS, pid)
        except OSError as e:
            bad.append("zombie getpriority: %s" % errno.errorcode[e.errno])
        held = {}
        for name in ("stat", "status", "statm", "io", "cmdline", "smaps"):
            got, f = op_open(base + "/" + name)
            if f is not None:
                held[name] = f
    finally:
        os.waitpid(pid, 0)
    # ---- gone
    for name in list(ZOMBIE_FILES) + ["task/%d/stat" % pid]:
        got, f = op_open(base + "/" + name)
        if got != "ENOENT":
            bad.append("gone open %s: kernel %s" % (name, got))
        if f is not None:
            f.close()
    for name, f in held.items():
        try:
            f.read()
            g = "ok"
        except OSError as e:
            g = errno.errorcode[e.errno]
        f.close()
        if g != "ESRCH":
            bad.append("gone read on open %s: kernel %s, table ESRCH" % (name, g))
    for name in ("exe", "cwd", "fd/0"):
        try:
            _REAL["readlink"](base + "/" + name)
            g = "ok"
        except OSError as e:
            g = errno.errorcode[e.errno]
        if g != "ENOENT":
            bad.append("gone readlink %s: kernel %s" % (name, g))
    for name in ("fd", "task", ""):
        try:
            _REAL["listdir"](base + "/" + name)
            g = "ok"
        except OSError as e:
            g = errno.errorcode[e.errno]
        if g != "ENOENT":
            bad.append("gone listdir %s: kernel %s" % (name, g))
    try:
        os.getpriority(os.PRIO_PROCESS, pid)
        bad.append("gone getpriority succeeded")
    except OSError as e:
        if e.errno != errno.ESRCH:
            bad.append("gone getpriority: %s" % errno.errorcode[e.errno])
    return bad
