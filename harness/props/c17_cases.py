"""C17 case generators (clause-directed, all randomness from the rng passed in)."""
from harness.props import c17_util as U

# ------------------------------------------------------------------------------- users / utmp

FILL = [b"", b"root", b"tty1", b"pts/0", b":0", b":0.0", b":0.00", b":0x", b":", b"::1", b"localhost",
        b"10.0.0.1", b"fe80::1%eth0", b"\xc3\xa9l\xc3\xa8ve", b"\xff\xfe", b"a b\tc"]


def gen_field(rng, width, style):
    """A fixed-width char array: style decides terminator placement."""
    if style == "full":            # filled to full width, no NUL
        return bytes(rng.choice([65, 66, 0x7A, 0xC3, 0xFF, rng.randrange(1, 256)]) for _ in range(width))
    if style == "exact":           # width-1 chars + NUL
        return bytes(rng.randrange(1, 256) for _ in range(width - 1)) + b"\0"
    if style == "zero":
        return b"\0" * width
    if style == "junk_after":      # string, NUL, then stale non-zero bytes (as real utmp files have)
        s = rng.choice(FILL)[:width - 1]
        rest = bytes(rng.randrange(0, 256) for _ in range(width - len(s) - 1))
        return s + b"\0" + rest
    s = rng.choice(FILL)[:width]
    if rng.random() < 0.3:
        s = bytes(rng.randrange(1, 256) for _ in range(rng.randrange(0, width + 1)))
    return s + b"\0" * (width - len(s))


def gen_rec(rng, fam):
    styles = ["plain", "plain", "junk_after", "exact", "zero", "full"]
    if fam == "fullwidth":
        st = lambda: "full" if rng.random() < 0.8 else rng.choice(styles)
    elif fam == "plain":
        st = lambda: rng.choice(["plain", "junk_after"])
    else:
        st = lambda: rng.choice(styles)
    typ = 7 if rng.random() < (0.85 if fam != "types" else 0.3) else rng.choice([0, 1, 2, 3, 4, 5, 6, 8, 9, -1, 32767, -32768, 7 + 256, rng.randrange(-32768, 32768)])
    host_style = st()
    host = gen_field(rng, 256, host_style)
    if fam == "localhost" or rng.random() < 0.15:
        lit = rng.choice([b":0", b":0.0", b":0.0.0", b":00", b":0 ", b":1", b"x:0", b":0.", b":"])
        tail_style = rng.choice(["zero", "junk", "full"])
        if tail_style == "zero":
            host = lit + b"\0" * (256 - len(lit))
        elif tail_style == "junk":
            host = lit + b"\0" + bytes(rng.randrange(0, 256) for _ in range(255 - len(lit)))
        else:  # literal followed by non-NUL bytes up to the field's end
            host = lit + bytes(rng.randrange(1, 256) for _ in range(256 - len(lit)))
    tail_full = fam == "fullwidth" or rng.random() < 0.3

    def raw(n):
        return bytes((rng.randrange(1, 256) if tail_full else rng.randrange(0, 256)) for _ in range(n))
    return {"typ": typ,
            "pid": rng.choice([0, 1, 1234, 2**31 - 1, -1, -2**31, rng.randrange(-2**31, 2**31)]),
            "line": gen_field(rng, 32, st()), "id": raw(4), "user": gen_field(rng, 32, st()), "host": host,
            "exit": raw(4), "session": raw(4),
            "sec": rng.choice([0, 1, 1700000000, 2**31 - 1, -1, -2**31, rng.randrange(-2**31, 2**31)]),
            "usec": raw(4), "addr": raw(16), "unused": raw(20)}


USERS_FAMILIES = ["plain", "fullwidth", "localhost", "types", "mixed", "partial_tail", "empty"]


def gen_users_case(rng, fam):
    if fam == "empty":
        return {"family": fam, "recs": [], "trail": bytes(rng.randrange(256) for _ in range(rng.choice([0, 0, 1, 383])))}
    n = rng.choice([1, 1, 2, 3, 5, 8])
    recs = [gen_rec(rng, fam if fam != "partial_tail" else "mixed") for _ in range(n)]
    trail = b""
    if fam == "partial_tail" or rng.random() < 0.1:
        trail = bytes(rng.randrange(256) for _ in range(rng.choice([1, 2, 100, 383])))
    return {"family": fam, "recs": recs, "trail": trail}


def users_corpus():
    z = lambda n: b"\0" * n
    full = {"typ": 7, "pid": 1234, "line": b"L" * 32, "id": b"I" * 4, "user": b"U" * 32, "host": b"H" * 256,
            "exit": b"T" * 4, "session": b"T" * 4, "sec": 1414812756, "usec": b"T" * 4, "addr": b"T" * 16, "unused": b"T" * 20}

    def plain(user, line, host, typ=7, pid=5, sec=1700000000):
        return {"typ": typ, "pid": pid, "line": line.ljust(32, b"\0"), "id": b"1\0\0\0", "user": user.ljust(32, b"\0"),
                "host": host.ljust(256, b"\0"), "exit": z(4), "session": z(4), "sec": sec, "usec": z(4), "addr": z(16), "unused": z(20)}
    return [
        {"family": "corpus:L14-fullwidth", "recs": [full], "trail": b""},
        {"family": "corpus:L14-fullwidth-then-plain", "recs": [full, plain(b"root", b"tty1", b":0")], "trail": b"xx"},
        {"family": "corpus:user-only-full", "recs": [dict(plain(b"", b"pts/3", b"host"), user=b"u" * 32)], "trail": b""},
        {"family": "corpus:localhost", "recs": [plain(b"a", b"tty1", b":0"), plain(b"b", b"", b":0.0"), plain(b"c", b"tty3", b":0.0.0"),
                                                plain(b"d", b"tty4", b":00"), plain(b"e", b"tty5", b"")], "trail": b""},
        {"family": "corpus:types", "recs": [plain(b"a", b"t", b"h", typ=t) for t in (0, 1, 2, 5, 6, 7, 8, 9)], "trail": b""},
    ]


# ------------------------------------------------------------------------------- mounts / filesystems

FSTYPES_DISK = [b"ext4", b"ext3", b"xfs", b"btrfs", b"vfat", b"fuseblk", b"iso9660", b"f2fs"]
FSTYPES_NODEV = [b"proc", b"sysfs", b"tmpfs", b"devtmpfs", b"cgroup2", b"overlay", b"nfs", b"zfs", b"fuse", b"9p"]
DEVS = [b"/dev/sda1", b"/dev/nvme0n1p2", b"/dev/mapper/vg-root", b"none", b"/dev/root", b"rootfs", b"tmpfs", b"proc",
        b"pool/data set", b"//server/share", b"", b"UUID=1234", b"/dev/s\xc3\xa9", b"/dev/\xff\xfe", b"nonexistent", b"none2"]
DIRS = [b"/", b"/mnt/my disk", b"/mnt/tab\there", b"/mnt/new\nline", b"/mnt/back\\slash", b"/proc", b"/boot/efi", b"/mnt/\xff", b"/srv/\xc3\xa9"]
OPTS = [b"rw", b"ro,relatime", b"rw,nosuid,nodev,noexec", b"rw,uid=0,gid=0,errors=remount-ro", b"defaults", b"rw,x=\xc3\xa9"]


def mnt_escape(b, rng, style):
    out = bytearray()
    for c in b:
        if c == 32:
            out += b"\\040"
        elif c == 9:
            out += b"\\011"
        elif c == 10:
            out += b"\\012"
        elif c == 92:
            out += b"\\134" if style == "octal" else b"\\\\"
        else:
            out.append(c)
    return bytes(out)


def gen_fsents(rng):
    ents = []
    for n in rng.sample(FSTYPES_NODEV, rng.randrange(0, len(FSTYPES_NODEV))):
        ents.append([True, n])
    for n in rng.sample(FSTYPES_DISK, rng.randrange(0, len(FSTYPES_DISK))):
        ents.append([False, n])
    rng.shuffle(ents)
    return ents


def render_fs(ents):
    return b"".join((b"nodev" if nd else b"") + b"\t" + n + b"\n" for nd, n in ents)


PART_FAMILIES = ["plain", "escapes", "long", "sparse", "many", "rootalias", "weird_fs", "nonutf8", "hostile"]


def gen_part_case(rng, fam):
    ents = gen_fsents(rng)
    fs_text = render_fs(ents)
    fs_wf = True
    if fam == "weird_fs":
        fs_wf = False
        k = rng.choice(["nodev_notab", "nodev_named", "spaces", "blank", "crlf_free", "extra_tab"])
        if k == "nodev_notab":
            fs_text += b"nodev\n"
        elif k == "nodev_named":
            fs_text += b"\tnodevfs\n"
        elif k == "spaces":
            fs_text = b"  \text4  \n nodev\tzfs \n" + fs_text
        elif k == "blank":
            fs_text = b"\n\n" + fs_text + b"\n"
        elif k == "extra_tab":
            fs_text += b"nodev\tzfs\textra\n\text4\tjunk\n"
        else:
            fs_text += b"\tLASTNONL"
    lines = []
    n = {"many": rng.randrange(200, 1500), "long": 3, "plain": rng.randrange(1, 8)}.get(fam, rng.randrange(1, 12))
    for _ in range(n):
        dev = rng.choice(DEVS)
        if fam == "rootalias" and rng.random() < 0.6:
            dev = rng.choice([b"/dev/root", b"rootfs", b"none"])
        d = rng.choice(DIRS)
        typ = rng.choice(FSTYPES_DISK + FSTYPES_NODEV + ([e[1] for e in ents] or [b"ext4"]))
        opts = rng.choice(OPTS)
        if fam != "nonutf8":
            if not U.utf8_ok(opts):
                opts = b"rw"
        elif rng.random() < 0.5:
            if rng.random() < 0.5:
                typ = typ + b"\xff"
            else:
                opts = opts + b",\xfe\xff"
        if fam == "long":
            k = rng.choice([3000, 4080, 4090, 4094, 4095, 4096, 4100, 9000, 70000])
            which = rng.choice(["dev", "dir", "opts"])
            if which == "dev":
                dev = b"/dev/" + b"a" * k
            elif which == "dir":
                d = b"/" + b"d" * k
            else:
                opts = b"rw," + b"o" * k
        style = rng.choice(["octal", "bs"])
        sep = rng.choice([b" ", b" ", b"\t", b"  ", b" \t "])
        fields = [mnt_escape(dev, rng, style) or b"none", mnt_escape(d, rng, style), typ, opts, b"0", b"0"]
        if fam == "sparse":
            fields = fields[:rng.randrange(1, 7)]
        line = sep.join(fields)
        if fam in ("sparse", "escapes") and rng.random() < 0.2:
            line = rng.choice([b"  ", b"\t"]) + line + rng.choice([b"  ", b"\t", b""])
        lines.append(line)
        if fam in ("sparse", "escapes") and rng.random() < 0.15:
            lines.append(rng.choice([b"", b"# a comment", b"   ", b"#", b"\t# x y z w"]))
        if fam == "escapes" and rng.random() < 0.15:
            lines.append(rng.choice([b"a\\04 b\\0401 c\\ d\\1345", b"\\040 \\011 \\012 \\134", b"x\\\\\\040y /m t o"]))
    text = b"\n".join(lines)
    if not (fam in ("sparse", "long") and rng.random() < 0.3):
        text += b"\n"
    if fam == "hostile":
        text = bytes(rng.choice([0, 9, 10, 32, 35, 92, 48, 52, 65, 255, rng.randrange(256)]) for _ in range(rng.choice([1, 50, 5000, 20000])))
    root = rng.choice([None, b"", b"/dev/real1", b"/dev/nvme0n1p1"])
    return {"family": fam, "mounts": text, "filesystems": fs_text, "fsents": ents if fs_wf else None, "root": root}


def part_corpus():
    return [
        {"family": "corpus:typical", "mounts": b"sysfs /sys sysfs rw,nosuid 0 0\nproc /proc proc rw 0 0\n/dev/sda1 / ext4 rw,relatime 0 0\n"
         b"none /run tmpfs rw 0 0\n/dev/root /r ext4 rw 0 0\nrootfs /rr rootfs rw 0 0\npool/ds /z zfs rw 0 0\n/dev/sdb1 /mnt/my\\040disk vfat rw 0 0\n",
         "filesystems": b"nodev\tsysfs\nnodev\tproc\nnodev\ttmpfs\n\text4\n\tvfat\nnodev\tzfs\n",
         "fsents": [[True, b"sysfs"], [True, b"proc"], [True, b"tmpfs"], [False, b"ext4"], [False, b"vfat"], [True, b"zfs"]], "root": b"/dev/real"},
        {"family": "corpus:empty", "mounts": b"", "filesystems": b"", "fsents": [], "root": None},
    ]


# ------------------------------------------------------------------------------- argument fuzzer

BIG = [0, 1, -1, 2, 7, 8, 63, 64, 127, 128, 255, 256, 1023, 1024, 1025, 8191, 8192, 65535, 65536, 2**18 - 1, 2**18, 2**18 + 1,
       2**30, 2**31 - 1, 2**31, 2**31 + 1, 2**32 - 1, 2**32, 2**62, 2**63 - 1, 2**63, 2**64 - 1, 2**64, 2**64 + 1, 2**100, 10**40,
       -2, -7, -64, -1024, -2**31, -2**31 - 1, -2**63, -2**63 - 1, -2**64, -10**40]
SAFE_PID_INTS = [-1, -2, -5, -2**31, -2**31 - 1, 4194304 + 77, 2**31 - 1, 2**31, 2**32 + 4194304 + 77, 2**63, 2**64, 10**30, -10**30]
STRS = ["", "lo", "eth0", "nonexistent0", "a" * 15, "a" * 16, "a" * 17, "lo" + "x" * 300, "z" * 5000, "z" * 70000, "lo\0", "\0", "a\0b",
        "\udcff", "lo\udc80", "éth0", "/proc/self/mounts", "/nonexistent/file", "/", "/etc/hostname", "%s%s%s%n", "eth0:1"]


def a_int(v):
    return {"t": "int", "v": str(v)}


def gen_any(rng, depth=0):
    k = rng.randrange(14)
    if k <= 2:
        return a_int(rng.choice(BIG + [rng.randrange(-2**70, 2**70)]))
    if k == 3:
        return {"t": "str", "v": rng.choice(STRS)}
    if k == 4:
        return {"t": "bytes", "v": bytes(rng.randrange(256) for _ in range(rng.choice([0, 1, 4, 200]))).hex()}
    if k == 5:
        return {"t": "none"}
    if k == 6:
        return {"t": "float", "v": rng.choice(["0.0", "1.5", "-1.0", "1e308", "inf", "nan"])}
    if k == 7:
        return {"t": "bool", "v": rng.random() < 0.5}
    if k == 8 and depth < 2:
        return {"t": rng.choice(["list", "tuple"]), "v": [gen_any(rng, depth + 1) for _ in range(rng.choice([0, 1, 3, 10]))]}
    if k == 9:
        return {"t": rng.choice(["dict", "obj", "badbool"])}
    if k == 10:
        return {"t": "idx", "v": str(rng.choice(BIG))}
    if k == 11:
        return {"t": "intsub", "v": str(rng.choice(BIG))}
    if k == 12:
        return {"t": "badseq", "v": str(rng.choice([0, 1, 5]))}
    return {"t": "range", "v": str(rng.choice([0, 1, 4, 17, 1025]))}


def gen_pid_arg(rng, safe_only):
    r = rng.random()
    if r < 0.5:
        return {"t": "pid", "v": rng.choice(["child", "child", "self", "zero", "nopid"] if not safe_only else ["child", "child", "child", "nopid"])}
    if r < 0.8:
        return a_int(rng.choice(SAFE_PID_INTS))
    if r < 0.86:
        return {"t": rng.choice(["idx", "intsub"]), "v": str(rng.choice(SAFE_PID_INTS))}
    # a wrong type (never a bool: True is PID 1)
    return rng.choice([{"t": "none"}, {"t": "str", "v": "12"}, {"t": "float", "v": "1.5"}, {"t": "list", "v": []}, {"t": "obj"},
                       {"t": "bytes", "v": "31"}])


def gen_cpu_seq(rng):
    k = rng.randrange(10)
    if k == 0:
        return gen_any(rng)
    if k == 1:
        return {"t": "range", "v": str(rng.choice([0, 1, 4, 16, 17, 1024, 1025, 3000]))}
    if k == 2:
        return {"t": "bytes", "v": bytes(rng.choice([0, 1, 2, 15, 16, 255]) for _ in range(rng.randrange(0, 5))).hex()}
    if k == 3:
        return {"t": "badseq", "v": str(rng.choice([0, 1, 3]))}
    items = []
    for _ in range(rng.choice([0, 1, 1, 2, 3, 6, 40])):
        r = rng.random()
        if r < 0.45:
            items.append(a_int(rng.randrange(0, 17)))
        elif r < 0.85:
            items.append(a_int(rng.choice(BIG)))
        elif r < 0.9:
            items.append({"t": rng.choice(["idx", "intsub"]), "v": str(rng.choice([0, 1, 3, 1023, 1024, -1, 2**63]))})
        else:
            items.append(rng.choice([{"t": "none"}, {"t": "str", "v": "1"}, {"t": "float", "v": "1.0"}, {"t": "bool", "v": True}]))
    return {"t": rng.choice(["list", "list", "tuple"]), "v": items}


SETTERS = {"setpriority", "proc_ioprio_set", "proc_cpu_affinity_set"}


def gen_call(rng, mod, fn, fmt):
    """One fuzz call for entry point `fn` whose PyArg_ParseTuple format is `fmt` ('*' = arguments ignored)."""
    safe = fn in SETTERS
    units = [] if fmt in ("*", None) else list(fmt)
    r = rng.random()
    n = len(units)
    if fmt in ("*", None):
        n = rng.choice([0, 0, 1, 2])
        args = [gen_any(rng) for _ in range(n)]
        return {"mod": mod, "fn": fn, "args": args}
    if r < 0.12:
        n = rng.choice([x for x in (0, 1, 2, 3, 4) if x != len(units)])
    args = []
    for i in range(n):
        u = units[i] if i < len(units) else "O"
        if i == 0 and u == "i" and fn != "check_pid_range":
            args.append(gen_pid_arg(rng, safe))
        elif u == "i":
            args.append(a_int(rng.choice(BIG + [rng.randrange(-20, 20)])) if rng.random() < 0.8 else gen_any(rng))
        elif u == "s":
            args.append({"t": "str", "v": rng.choice(STRS)} if rng.random() < 0.8 else gen_any(rng))
        elif fn == "proc_cpu_affinity_set":
            args.append(gen_cpu_seq(rng))
        else:
            args.append(gen_any(rng))
    # a setter whose first argument is not from the safe PID domain must never be sent
    if safe and args and not _safe_first(args[0]):
        args[0] = {"t": "pid", "v": "child"}
    call = {"mod": mod, "fn": fn, "args": args}
    if fn == "proc_cpu_affinity_set":
        call["post"] = "affinity"
    if fn == "proc_ioprio_set":
        call["post"] = "ioprio"
    return call


def _safe_first(a):
    if a["t"] == "pid":
        return a["v"] in ("child", "nopid")
    if a["t"] in ("int", "idx", "intsub"):
        v = int(a["v"])
        return v < 0 or v > 4194304
    return a["t"] not in ("bool",)


# ------------------------------------------------------------------------------- wrap-around family

WRAP_BASE = [0, 1, 2, 3, 4, 7, 8, 19, 20, 8191, 8192, -1, -20, -21]            # valid and boundary values of class / data / nice
WRAP_POW = [2**31 - 1, 2**31, 2**31 + 1, 2**32 - 1, 2**32, 2**32 + 1, 2**63 - 1, 2**63, 2**63 + 1, 2**64 - 1, 2**64, 2**64 + 1]
INT_UNIT_CHARS = "ilLnhbIkKHB"


def wrap_values():
    vals = []
    for v in WRAP_BASE:
        for k in (1, -1, 2, -2):
            vals.append(v + k * 2**32)
            vals.append(v + k * 2**64)
    return vals + WRAP_POW + [-x for x in WRAP_POW]


def wrap_calls(names, fmts):
    """Deterministic list of calls: one integer parameter at a time takes a wrap-around value, the others valid defaults.
    A pid parameter (first 'i' of every entry point but check_pid_range) only ever takes values congruent to the
    sacrificial child or to a PID above pid_max — never to another live process, whatever the converter does."""
    out = []
    for (m, f) in names:
        fmt = fmts.get((m, f))
        if fmt in (None, "*"):
            continue
        units = list(fmt)
        for j, u in enumerate(units):
            if u not in INT_UNIT_CHARS:
                continue
            is_pid = (j == 0 and f != "check_pid_range")
            if is_pid:
                cands = [{"t": "pidplus", "v": "child", "k": str(k * 2**e)} for e in (32, 64) for k in (1, -1, 2, -2)] + \
                        [{"t": "pidplus", "v": "nopid", "k": str(k * 2**e)} for e in (32, 64) for k in (1, -1)]
            else:
                cands = [a_int(v) for v in wrap_values()]
            for c in cands:
                args = []
                for i, ui in enumerate(units):
                    if i == j:
                        args.append(c)
                    elif i == 0 and ui in INT_UNIT_CHARS and f != "check_pid_range":
                        args.append({"t": "pid", "v": "child"})
                    elif ui in INT_UNIT_CHARS:
                        args.append(a_int({"proc_ioprio_set": [0, 2, 4], "setpriority": [0, 5]}.get(f, [0, 0, 0])[min(i, 2)]))
                    elif ui == "s":
                        args.append({"t": "str", "v": "lo"})
                    elif f == "proc_cpu_affinity_set":
                        args.append({"t": "list", "v": [a_int(0)]})
                    else:
                        args.append({"t": "none"})
                call = {"mod": m, "fn": f, "args": args, "units": fmt, "wrap": j, "errno": 0}
                if f == "proc_cpu_affinity_set":
                    call["post"] = "affinity"
                if f == "proc_ioprio_set":
                    call["post"] = "ioprio"
                if f == "setpriority":
                    call["post"] = "nice"
                out.append(call)
    return out
