def correspond_concurrent(ctx, res):
    pass
