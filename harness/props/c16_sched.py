"""C16 — deterministic two-thread scheduler at bytecode granularity (DESIGN A.6) and the
concurrent half of the correspondence.

`sys.settrace` + `frame.f_trace_opcodes` park a real thread right before each bytecode that
touches the shared `_cache` attribute / dict inside memoize_when_activated.wrapper,
cache_activate, cache_deactivate and Process.oneshot; a controller grants one such bytecode at
a time, following the step sequence the Lean model (Model/C16Conc.lean, run by the driver)
produced for the same programs and schedule. Between two parks a thread only runs
thread-local code, so a schedule replays exactly.

model pc  -> parks granted on the implementation
  call/exit -> gate                (the thread starts its next program item)
  acquire   -> gate, acquire       (BEFORE_WITH on self._lock; only granted when the model says the lock is free)
  test      -> test                (CALL hasattr(self, "_cache"))
  act       -> act                 (STORE_ATTR _cache in cache_activate, on the target object)
  del       -> del                 (DELETE_ATTR _cache in cache_deactivate, on the target object)
  w0 / w3   -> load                (LOAD_ATTR _cache in wrapper)
  w1        -> lookup              (BINARY_SUBSCR)
  w2        -> compute             (CALL fun(self): the real file read)
  w4        -> store               (STORE_SUBSCR)
  act0, del0, release, ret, retErr -> nothing (thread-local on the implementation)
"""
import dis
import itertools
import sys
import threading

GRANTS = {"call": ["gate"], "exit": ["gate"], "acquire": ["gate", "acquire"], "test": ["test"],
          "act": ["act"], "del": ["del"], "w0": ["load"], "w3": ["load"], "w1": ["lookup"],
          "w2": ["compute"], "w4": ["store"], "act0": [], "del0": [], "release": [], "ret": [],
          "retErr": []}

# model function index -> (public method, file) per target object
TARGETS = {
    "proc": [("name", "stat"), ("num_threads", "status"), ("memory_maps", "smaps")],
    "front": [("memory_info", "statm")],
}

# ---- two cache levels (model Conc2): sources and methods as the driver numbers them
SRC2 = ["stat", "status", "smaps", "statm"]
# method -> (front-end memo function number or None, source number); numbering = Model/C16Gen.lean ffunNames / srcNames
METHODS2 = [("name", None, 0), ("cpu_times", 0, 0), ("ppid", 2, 0), ("uids", 3, 1), ("num_threads", None, 1),
            ("memory_info", 1, 3), ("memory_maps", None, 2), ("gids", None, 1), ("cpu_num", None, 0)]
TARGETS["both"] = [(m, SRC2[g]) for m, _, g in METHODS2]
PMEMO2 = {0: True, 1: True, 2: True, 3: False}      # checked against the driver on every schedule (a wrong entry = drift)


def asdict_order(names):
    """iteration order of `set(attrs)` inside as_dict (same interpreter, same hash seed)"""
    return list(set(names))


def expand2(progs):
    """model-level programs: per thread a list of (item, gated). `["asdict", [m, …]]` is ONE gated call of the real
    p.as_dict(attrs=[…]) and stands for the model items acquire · call m … (in the iteration order of set(attrs)) · exit"""
    out = []
    for pr in progs:
        mp = []
        for it in pr:
            if it[0] == "asdict":
                names = [METHODS2[i][0] for i in it[1]]
                idx = {METHODS2[i][0]: i for i in it[1]}
                mp.append((["acquire"], True))
                mp += [(["call", idx[n]], False) for n in asdict_order(names)]
                mp.append((["exit"], False))
            else:
                mp.append((it, True))
        out.append(mp)
    return out


def grants2(pc, ff, g):
    """parks of the implementation that one step of the two-level model stands for"""
    fm, pm = ff is not None, PMEMO2.get(g, False)
    if pc in ("call", "exit"):
        return ["gate"]
    if pc == "acquire":
        return ["gate", "acquire"]
    if pc == "test":
        return ["test"]
    if pc in ("actF", "actP", "delF", "delP"):
        return [pc]
    if pc == "f0":
        return ["loadF"]
    if pc == "f1":
        return ["lookupF"]
    if pc == "p0":      # the front-end wrapper's CALL fun(self) is thread-local up to the platform wrapper's first load
        return (["computeF"] if fm and pm else []) + (["loadP"] if pm else [])
    if pc == "p1":
        return ["lookupP"]
    if pc == "p2":      # the read: inside the platform wrapper's CALL, or (helper not decorated) the front-end wrapper's
        return ["computeP"] if pm else ["computeF"]
    if pc == "p4":
        return ["storeP"]
    if pc == "f4":
        return ["storeF"]
    return []           # act0, del0, release, ret, retErr: thread-local on the implementation


FINDING_LITERAL = "C16-xthread-hit-predates-call"
FINDING_STALE = "C16-xthread-stale-store"
FINDING_OVERWRITE = "C16-owner-entry-overwritten"


class Drift(Exception):
    pass


_WARM = [False]


def ensure_opcode_tracing():
    """CPython 3.12 installs per-instruction events only when `sys.settrace` is called AFTER some
    frame has asked for `f_trace_opcodes`; do that once, so that the very first scheduled frame
    already gets its opcode events."""
    if _WARM[0]:
        return

    def warm_target():
        return None

    def tr(frame, event, arg):
        if event == "call" and frame.f_code is warm_target.__code__:
            frame.f_trace_opcodes = True
            return tr
        return None
    old = sys.gettrace()
    sys.settrace(tr)
    try:
        warm_target()
    finally:
        sys.settrace(old)
    _WARM[0] = True


class Sched:
    def __init__(self, impl, target):
        ensure_opcode_tracing()
        self.impl = impl
        self.ps = impl.ps
        self.p = impl.p
        self.target_name = target
        self.two = target == "both"       # two cache levels: parks carry the level (F = front-end object, P = platform object)
        self.target = self.p if target == "front" else self.p._proc
        w = self.ps.Process.cpu_times
        self.codes = {}
        self._scan(w.__code__, "wrapper")
        self._scan(w.cache_activate.__code__, "activate")
        self._scan(w.cache_deactivate.__code__, "deactivate")
        self._scan(self.ps.Process.oneshot.__wrapped__.__code__, "oneshot")
        self.parked = {}
        self.go = {}
        self.ctrl = threading.Event()
        self.free = False
        self.tids = {}
        self.results = {}
        self.trace_log = []

    def _scan(self, code, what):
        vis = {}
        prev_global = None
        last_deref = None
        for ins in dis.get_instructions(code):
            kind = None
            if what == "wrapper":
                if ins.opname == "LOAD_ATTR" and ins.argval == "_cache":
                    kind = "load"
                elif ins.opname == "BINARY_SUBSCR":
                    kind = "lookup"
                elif ins.opname == "LOAD_DEREF":
                    last_deref = ins.argval
                elif ins.opname == "CALL":
                    # only `fun(self)` is the read; other calls of a wrapper (threading.get_ident()) are thread-local
                    if last_deref == "fun":
                        kind = "compute"
                    last_deref = None
                elif ins.opname == "STORE_SUBSCR":
                    kind = "store"
            elif what == "activate":
                if ins.opname == "STORE_ATTR" and ins.argval == "_cache":
                    kind = "act"
            elif what == "deactivate":
                if ins.opname == "DELETE_ATTR" and ins.argval == "_cache":
                    kind = "del"
            elif what == "oneshot":
                if ins.opname == "BEFORE_WITH":
                    kind = "acquire"
                elif ins.opname == "LOAD_GLOBAL":
                    prev_global = ins.argval
                elif ins.opname == "CALL" and prev_global == "hasattr":
                    kind = "test"
                    prev_global = None
            if kind:
                vis[ins.offset] = kind
        self.codes[code] = (what, vis)

    # ---- worker side
    def _tracer(self, frame, event, arg):
        if event == "call" and frame.f_code in self.codes:
            frame.f_trace_opcodes = True
            return self._local
        return None

    def _local(self, frame, event, arg):
        if event == "opcode" and not self.free:
            what, vis = self.codes[frame.f_code]
            kind = vis.get(frame.f_lasti)
            if kind is not None:
                if what in ("wrapper", "activate", "deactivate"):
                    obj = frame.f_locals.get("self" if what == "wrapper" else "proc")
                    if self.two:
                        if obj is self.p:
                            kind += "F"
                        elif obj is self.p._proc:
                            kind += "P"
                        else:
                            return self._local      # another Process object (is_running()'s fresh one)
                    elif obj is not self.target:
                        return self._local
                self._park(kind)
        return self._local

    def _park(self, kind):
        tid = self.tids[threading.get_ident()]
        if self.free:
            return
        self.parked[tid] = kind
        self.ctrl.set()
        self.go[tid].wait()
        self.go[tid].clear()

    def _worker(self, tid, prog):
        self.tids[threading.get_ident()] = tid
        out = self.results[tid] = []
        cms = []
        sys.settrace(self._tracer)
        try:
            for item in prog:
                self._park("gate")
                if item[0] == "call":
                    meth = TARGETS[self.target_name][item[1]][0]
                    out.append(self.impl.outcome(meth, getattr(self.p, meth)))
                elif item[0] == "asdict":
                    names = [TARGETS[self.target_name][i][0] for i in item[1]]
                    try:
                        d = self.p.as_dict(attrs=names)
                        for n in asdict_order(names):
                            out.append(self.impl.outcome(n, lambda n=n: d[n]))
                    except BaseException as e:  # noqa: BLE001
                        out.append({"kind": "exc", "exc": type(e).__name__, "at": "as_dict"})
                elif item[0] == "acquire":
                    cm = self.p.oneshot()
                    try:
                        cm.__enter__()
                        cms.append(cm)
                    except BaseException as e:  # noqa: BLE001
                        out.append({"kind": "exc", "exc": type(e).__name__, "at": "enter"})
                elif item[0] == "exit":
                    if cms:
                        try:
                            cms.pop().__exit__(None, None, None)
                        except BaseException as e:  # noqa: BLE001
                            out.append({"kind": "exc", "exc": type(e).__name__, "at": "exit"})
        finally:
            sys.settrace(None)
            self.parked[tid] = "done"
            self.ctrl.set()

    # ---- controller side
    def _wait_parked(self, tid, timeout=10.0):
        while self.parked.get(tid) is None:
            if not self.ctrl.wait(timeout):
                raise Drift("thread %d did not reach its next scheduling point (blocked?)" % tid)
            self.ctrl.clear()

    def _grant(self, tid, expect):
        got = self.parked.get(tid)
        if got != expect:
            raise Drift("thread %d is parked at %r, the model expects %r" % (tid, got, expect))
        self.parked[tid] = None
        self.ctrl.clear()
        self.go[tid].set()
        self._wait_parked(tid)

    def run(self, progs, steps):
        """Execute `steps` (from the driver). Returns (per-thread results, drift message or None)."""
        drift = None
        threads = []
        for tid, prog in enumerate(progs):
            self.go[tid] = threading.Event()
            self.parked[tid] = None
            t = threading.Thread(target=self._worker, args=(tid, prog), daemon=True)
            threads.append(t)
        try:
            for tid, t in enumerate(threads):
                t.start()
                self._wait_parked(tid)
            files = SRC2 if self.two else [f for _, f in TARGETS[self.target_name]]
            dirty = set()
            nxt = {tid: 0 for tid in range(len(progs))}      # two levels: index of each thread's next MODEL-level program item
            mprogs = expand2(progs) if self.two else None     # … as_dict(names) = acquire · calls · exit, gated once
            cur = {}                                          # … and the (front-end memoised?, helper memoised?) of its current call
            for st in steps:
                if st["k"] == "ver":
                    # the file is materialised lazily: only a `compute` step reads it
                    self.impl.ver[files[st["f"]]] = st["v"]
                    dirty.add(files[st["f"]])
                elif st["k"] == "deny":
                    if files[st["f"]] != "stat":
                        self.impl.denied[files[st["f"]]] = st["b"]
                elif st["k"] == "thr" and st["en"]:
                    if st["pc"] in ("w2", "p2"):
                        for f in dirty:
                            self.impl._write(f)
                        dirty.clear()
                    if self.two:
                        tid = st["tid"]
                        gate = True
                        if st["pc"] in ("call", "acquire", "exit"):
                            item, gate = mprogs[tid][nxt[tid]]
                            nxt[tid] += 1
                            if item[0] == "call":
                                cur[tid] = METHODS2[item[1]][1:]
                        kinds = grants2(st["pc"], *cur.get(tid, (None, None)))
                        if not gate:
                            kinds = [k for k in kinds if k != "gate"]
                    else:
                        kinds = GRANTS[st["pc"]]
                    for kind in kinds:
                        self._grant(st["tid"], kind)
        except Drift as e:
            drift = str(e)
        finally:
            for f in list(dirty) + list(self.impl.dirty):
                self.impl._write(f)
            self.impl.dirty.clear()
            self.free = True
            for tid in self.go:
                self.go[tid].set()
            for t in threads:
                t.join(10.0)
            if any(t.is_alive() for t in threads):
                drift = (drift or "") + " [a worker thread did not terminate]"
        left = [tid for tid in self.parked if self.parked[tid] != "done"]
        if drift is None and left:
            drift = "threads %r had not finished their programs when the schedule ended" % left
        return {tid: self.results.get(tid, []) for tid in range(len(progs))}, drift


# ------------------------------------------------------------------------------ schedules


def with_versions(picks, nfun):
    """insert a content change of every source before every thread step: the returned
    version then identifies the instant of the read"""
    sched = []
    v = 0
    for t in picks:
        for f in range(nfun):
            v += 1
            sched.append(["ver", f, v])
        sched.append(t)
    return sched


def gen_case(rng, family):
    target = "front" if rng.random() < 0.3 else "proc"
    nfun = len(TARGETS[target])

    def calls(lo, hi):
        return [["call", rng.randrange(nfun)] for _ in range(rng.randrange(lo, hi + 1))]

    def block(lo, hi):
        return [["acquire"]] + calls(lo, hi) + [["exit"]]
    if family == "plain_vs_block":
        progs = [calls(0, 1) + block(0, 2) + calls(0, 1), calls(1, 3)]
    elif family == "two_blocks":
        progs = [block(0, 1) + block(1, 2), calls(1, 2)]
    elif family == "both_block":
        progs = [block(0, 2) + calls(0, 1), calls(0, 1) + block(0, 2)]
    else:  # same function hammered
        f = rng.randrange(nfun)
        progs = [[["acquire"], ["call", f], ["call", f], ["exit"], ["acquire"], ["call", f], ["exit"]],
                 [["call", f], ["call", f], ["call", f]]]
    n = rng.randrange(20, 70)
    style = rng.random()
    picks = []
    if style < 0.5:
        picks = [rng.randrange(2) for _ in range(n)]
    else:  # bursts: few pre-emptions
        t = rng.randrange(2)
        while len(picks) < n:
            picks += [t] * rng.randrange(1, 9)
            t = 1 - t
    picks += [0, 1] * 45
    return {"target": target, "progs": progs, "schedule": with_versions(picks, nfun), "family": family}


def with_versions2(picks, srcs):
    """two levels: a content change of every source in `srcs` (indexes into SRC2) before every thread step"""
    sched, v = [], 0
    for t in picks:
        for g in srcs:
            v += 1
            sched.append(["ver", g, v])
        sched.append(t)
    return sched


TWO_LEVEL = [1, 2, 3]            # cpu_times, ppid, uids: front-end memoised AND platform helper memoised
SAME_SRC = {0: [0, 1, 2, 8], 1: [3, 4, 7], 2: [6], 3: [5]}     # source -> METHODS2 indexes reading it


def gen_case2(rng, family):
    """schedules for the two-level model: every program has at least one call that crosses both cache levels"""
    m2 = rng.choice(TWO_LEVEL)
    g = METHODS2[m2][2]
    same = SAME_SRC[g]

    def calls(lo, hi, pool):
        return [["call", rng.choice(pool)] for _ in range(rng.randrange(lo, hi + 1))]

    def block(lo, hi, pool):
        return [["acquire"]] + calls(lo, hi, pool) + [["exit"]]
    if family == "two_vs_block":            # plain two-level calls against a block using the same source at either level
        progs = [calls(0, 1, same) + block(0, 2, same) + calls(0, 1, same), [["call", m2]] + calls(0, 2, same)]
    elif family == "two_in_block":          # the owner crosses both levels, the plain caller uses the platform level only
        progs = [block(1, 2, [m2]) + block(0, 1, same), calls(1, 3, [x for x in same if METHODS2[x][1] is None] or same)]
    elif family == "two_both":              # both threads enter blocks and call across both levels
        progs = [block(0, 2, [m2] + same) + calls(0, 1, [m2]), calls(0, 1, [m2]) + block(0, 2, [m2] + same)]
    elif family == "front_only":            # memory_info: front-end memoised, helper not decorated
        progs = [block(1, 2, [5]) + block(0, 1, [5, m2]), calls(1, 2, [5]) + calls(0, 1, [m2])]
    elif family == "nested":                # RLock re-entrance: a nested block (no-op level) inside the owner's block
        progs = [[["acquire"]] + calls(0, 1, [m2] + same) + [["acquire"]] + calls(0, 2, [m2] + same) + [["exit"]] +
                 calls(0, 1, [m2] + same) + [["exit"]] + calls(0, 1, same), calls(1, 2, [m2] + same)]
    elif family == "asdict_owner":          # as_dict() is the block; a plain caller races with it
        progs = [[["asdict", pick_names(rng, m2, same)]] + calls(0, 1, same), calls(1, 2, [m2] + same)]
    elif family == "asdict_in_block":       # as_dict() inside the owner's block = a nested no-op level
        progs = [[["acquire"]] + calls(0, 1, same) + [["asdict", pick_names(rng, m2, same)]] + calls(0, 1, [m2]) + [["exit"]],
                 calls(1, 2, [m2] + same)]
    elif family == "asdict_vs_block":       # as_dict() from ANOTHER thread while a block is open: it waits for the lock
        progs = [block(1, 2, [m2] + same) + calls(0, 1, same), [["asdict", pick_names(rng, m2, same)]] + calls(0, 1, [m2])]
    elif family == "asdict_both":           # two threads call as_dict() on the same (shared) Process object
        progs = [[["asdict", pick_names(rng, m2, same)]] + calls(0, 1, same),
                 calls(0, 1, same) + [["asdict", pick_names(rng, m2, same)]]]
    else:                                   # same two-level method hammered across two blocks
        progs = [[["acquire"], ["call", m2], ["call", m2], ["exit"], ["acquire"], ["call", m2], ["exit"]],
                 [["call", m2], ["call", m2], ["call", m2]]]
    srcs = sorted({METHODS2[i][2] for pr in progs for it in pr if it[0] in ("call", "asdict")
                   for i in ([it[1]] if it[0] == "call" else it[1])})
    n = rng.randrange(30, 90)
    picks = []
    if rng.random() < 0.5:
        picks = [rng.randrange(2) for _ in range(n)]
    else:
        t = rng.randrange(2)
        while len(picks) < n:
            picks += [t] * rng.randrange(1, 11)
            t = 1 - t
    picks += [0, 1] * 60
    if family in ("nested", "asdict_owner", "asdict_in_block", "asdict_vs_block", "asdict_both"):
        picks += [0] * 70 + [1] * 70 + [0] * 70      # a thread may have waited for the lock during the alternation
    return {"target": "both", "progs": progs, "schedule": with_versions2(picks, srcs), "family": "two:" + family}


def pick_names(rng, m2, same):
    """distinct method indexes for one as_dict(attrs) call: the two-level method + up to two others on the same source"""
    others = [x for x in same if x != m2]
    rng.shuffle(others)
    return [m2] + others[:rng.randrange(0, 3)]


SCHED_FAMILIES2 = ["two_vs_block", "two_in_block", "two_both", "front_only", "two_hammer",
                   "nested", "asdict_owner", "asdict_in_block", "asdict_vs_block", "asdict_both"]


def corpus_cases2():
    A, B = 0, 1
    acq = [A] * 11                       # acquire, test, actF x4, actP x3, act0 (+1 spare: disabled steps are skipped)
    rel = [A] * 11                       # exit, delF x4, delP x3, del0, release
    # T1: B's cpu_times() misses the front-end dict, hits the platform dict filled by A's name(), stores the value into
    #     the front-end dict; A's cpu_times() then hits it there (Lean: crossActs)
    t1 = {"target": "both", "family": "corpus2:cross-level",
          "progs": [[["acquire"], ["call", 0], ["call", 1], ["exit"]], [["call", 1]]],
          "schedule": with_versions2([A] * 10 + [A] * 6 + [B] * 6 + [A] * 4 + _tail(), [0])}
    # T2: B's cpu_times() straddles two blocks: looks up both dicts of block 1, reads, stores into those (dead) dicts;
    #     A inside block 2 must read afresh
    t2 = {"target": "both", "family": "corpus2:straddle",
          "progs": [[["acquire"], ["exit"], ["acquire"], ["call", 1], ["exit"]], [["call", 1]]],
          "schedule": with_versions2([A] * 10 + [B] * 5 + [A] * 10 + [A] * 10 + [B] * 4 + [A] * 8 + _tail(), [0])}
    # T3: B between the front-end deactivations and _proc.oneshot_exit(): front-end attribute gone, platform cache still there
    t3 = {"target": "both", "family": "corpus2:between-deactivations",
          "progs": [[["acquire"], ["call", 0], ["exit"]], [["call", 2], ["call", 3]]],
          "schedule": with_versions2([A] * 10 + [A] * 6 + [A] * 5 + [B] * 8 + [A] * 6 + _tail(), [0, 1])}
    return [t1, t2, t3]


SCHED_FAMILIES = ["plain_vs_block", "two_blocks", "both_block", "hammer"]


def _tail():
    return [0, 1] * 40


def corpus_cases():
    """Directed schedules (proc object, function 0 = name()/stat)."""
    A, B = 0, 1
    acq = [A] * 6                        # acquire, test, act, act, act, act0
    rel = [A] * 6                        # exit, del, del, del, del0, release
    # F1: B hits a value A read before B's call began
    f1 = {"target": "proc", "family": "corpus:hit-predates-call",
          "progs": [[["acquire"], ["call", 0], ["exit"]], [["call", 0]]],
          "schedule": with_versions(acq + [A] * 6 + [B] * 4 + _tail(), 3)}
    # F2: B's call straddles two blocks and stores its old value into the second block's dict
    f2 = {"target": "proc", "family": "corpus:stale-store",
          "progs": [[["acquire"], ["exit"], ["acquire"], ["call", 0], ["exit"]], [["call", 0]]],
          "schedule": with_versions(acq + [B] * 4 + rel + acq + [B] * 3 + [A] * 4 + _tail(), 3)}
    # issue 1948: B reaches its store after A deleted the attribute
    f3 = {"target": "proc", "family": "corpus:issue1948",
          "progs": [[["acquire"], ["exit"]], [["call", 0], ["call", 0]]],
          "schedule": with_versions(acq + [B] * 4 + rel + [B] * 3 + _tail(), 3)}
    # front-end object, same shapes
    acqf = [A] * 7
    f4 = {"target": "front", "family": "corpus:front-hit",
          "progs": [[["acquire"], ["call", 0], ["exit"]], [["call", 0], ["call", 0]]],
          "schedule": with_versions(acqf + [A] * 6 + [B] * 4 + [A] * 7 + _tail(), 1)}
    # F5: B missed before A stored; B's later read overwrites A's entry in the same dict: A's second call in the SAME
    #     block returns another value than its first (finding C16-owner-entry-overwritten; Lean replaceActs1/2)
    f5 = {"target": "proc", "family": "corpus:owner-entry-overwritten",
          "progs": [[["acquire"], ["call", 0], ["call", 0], ["exit"]], [["call", 0]]],
          "schedule": with_versions(acq + [B] * 3 + [A] * 6 + [B] * 2 + [A] * 3 + _tail(), 3)}
    return [f1, f2, f3, f4, f5]


def enumerate_one_call_vs_block(target, funs=(0,)):
    """All interleavings of one plain call (thread 1) against one enter/exit pair with an empty
    body (thread 0), at the granularity of the shared-state bytecodes: thread-local model
    steps (act0, del0, release, ret) are glued to their predecessor."""
    nact = 4 if target == "front" else 3
    nfun = len(TARGETS[target])
    # thread 0 units: [acquire], [test], [act]*(nact-1), [act, act0], [exit], [del]*(nact-1), [del, del0, release]
    a_units = [[0], [0]] + [[0]] * (nact - 1) + [[0, 0]] + [[0]] + [[0]] * (nact - 1) + [[0, 0, 0]]
    b_units = [[1]] * 5 + [[1, 1]]          # call, w0, w1, w2, w3, (w4, ret); shorter paths just finish early
    na, nb = len(a_units), len(b_units)
    for pos in itertools.combinations(range(na + nb), nb):
        picks = []
        ia = ib = 0
        posset = set(pos)
        for i in range(na + nb):
            if i in posset:
                picks += b_units[ib]
                ib += 1
            else:
                picks += a_units[ia]
                ia += 1
        for f in funs:
            yield {"target": target, "family": "enum:%s" % target,
                   "progs": [[["acquire"], ["exit"]], [["call", f]]],
                   "schedule": with_versions(picks + [1, 1, 1, 0, 0, 0], nfun)}


# ------------------------------------------------------------------------------ correspondence


def driver_lines(cases):
    out = []
    for c in cases:
        if c["target"] == "both":
            progs = [[["call", METHODS2[it[1]][1], METHODS2[it[1]][2]] if it[0] == "call" else it for it, _ in pr]
                     for pr in expand2(c["progs"])]
            out.append({"op": "conc2", "progs": progs, "sched": c["schedule"]})
        else:
            out.append({"op": "conc", "obj": c["target"], "progs": c["progs"], "sched": c["schedule"]})
    return out


def annotate_steps(case, steps):
    """attach f/v/b of world changes to the driver's step list (the driver only echoes kinds)"""
    out = []
    it = iter(steps)
    for el in case["schedule"]:
        st = dict(next(it))
        if isinstance(el, list):
            if el[0] == "ver":
                st.update(f=el[1], v=el[2])
            else:
                st.update(f=el[1], b=el[2])
        out.append(st)
    return out


def model_results(m, nthreads):
    per = {t: [] for t in range(nthreads)}
    for r in m["rets"]:
        if "val" in r:
            per[r["tid"]].append({"kind": "ok", "value": [r["val"]]})
        else:
            per[r["tid"]].append({"kind": "exc", "exc": r["exc"]})
    return per


def run_case(impl, case, m):
    """one schedule on the implementation; returns (impl results, drift)"""
    impl.reset_light()
    for _, f in TARGETS[case["target"]]:
        impl.ver[f] = 0
        impl.dirty.add(f)
    s = Sched(impl, case["target"])
    steps = annotate_steps(case, m["steps"])
    res, drift = s.run(case["progs"], steps)
    return {str(t): v for t, v in res.items()}, drift


PS_ERRORS = {"AccessDenied", "NoSuchProcess", "ZombieProcess"}


def judge(case, impl_out, drift, m, sp, res, findings_known):
    """compare one executed schedule; returns True when a disagreement was recorded"""
    inp = {"schedule": case["schedule"], "progs": case["progs"], "target": case["target"],
           "source": case["family"]}
    mod = {str(t): v for t, v in model_results(m, len(case["progs"])).items()}
    blocked = [o for outs in impl_out.values() for o in outs if o.get("exc") == "SelfDeadlock"]
    if blocked:
        # the scheduler granted an `acquire` the model says is enabled, and the real lock was held by the other thread:
        # the implementation has left the model's step sequence (not by itself a failing input)
        res.disagree("model", inp, {"results": impl_out, "drift": drift}, mod, sp,
                     note="Process._lock was held by another thread where the model's acquire is enabled (drift)")
        return True
    spurious = [o for outs in impl_out.values() for o in outs
                if o.get("kind") == "exc" and o.get("exc") not in PS_ERRORS]
    if spurious:
        res.disagree("spec", inp, impl_out, mod, sp, note="a spurious %s escaped" % spurious[0]["exc"])
        return True
    if drift:
        res.disagree("model", inp, {"results": impl_out, "drift": drift}, mod, sp,
                     note="implementation left the model's step sequence: " + drift)
        return True
    if impl_out != mod:
        res.disagree("model", inp, impl_out, mod, sp, note="returned values differ from the step model")
        return True
    if not sp["interval"] or sp["spurious"]:
        res.disagree("spec", inp, impl_out, mod, sp,
                     note="a returned value was not the content of its source at any instant between the "
                          "activation of the block whose cache served it (or the start of the call) and the return",
                     finding=FINDING_STALE if FINDING_STALE in findings_known else None)
        if FINDING_STALE in findings_known:
            res.known_seen[FINDING_STALE] = res.known_seen.get(FINDING_STALE, 0) + 1
        return True
    if not sp["literal"]:
        # since fix 447541f (fact cacheOwnerOnly, obligation cfg_cache_owner_only) the literal clause is the property's
        # clause for plain callers: a schedule on which the model (= the implementation, checked above) returns a value
        # that was not the source's content at any instant of the plain call is a failing input, not a known finding
        res.disagree("spec", inp, impl_out, mod, sp,
                     note="a plain caller (a thread outside any block of its own) returned a value that was not the "
                          "content of its source at any moment of its call (the cache of another thread's block served it)")
        return True
    why = owner_unstable(case, impl_out)
    if why:
        res.disagree("spec", inp, impl_out, mod, sp, note=why)
        return True
    return False


def owner_unstable(case, impl_out):
    """first-read clause under threads, judged on the implementation's results alone: inside ONE outermost block of a
    thread every call of one method returns one value (an entry of the owner's cache is never replaced). Returns a
    description or None."""
    for t, prog in enumerate(case["progs"]):
        outs = impl_out.get(str(t), [])
        if any("at" in o for o in outs):
            continue                      # an exception out of enter/exit/as_dict: results no longer align with the items
        depth, first, i = 0, {}, 0
        for it in prog:
            if it[0] == "acquire":
                if depth == 0:
                    first = {}
                depth += 1
            elif it[0] == "exit":
                depth = max(0, depth - 1)
            else:
                keys = [it[1]] if it[0] == "call" else [None] * len(set(it[1]))
                if it[0] == "asdict":
                    names = [TARGETS[case["target"]][k][0] for k in it[1]]
                    idx = {TARGETS[case["target"]][k][0]: k for k in it[1]}
                    keys = [idx[n] for n in asdict_order(names)]
                for k in keys:
                    if i >= len(outs):
                        break
                    o = outs[i]
                    i += 1
                    if depth > 0 and o.get("kind") == "ok":
                        if k in first and first[k] != o["value"]:
                            return ("thread %d: inside ONE block %s() answered %r and later %r (the owner's first read was "
                                    "replaced)" % (t, TARGETS[case["target"]][k][0], first[k], o["value"]))
                        first.setdefault(k, o["value"])
    return None


def correspond_concurrent(ctx, res, cases=None):
    from harness.props import c16
    known = {f["id"] for f in ctx.findings}
    if cases is None:
        cases = corpus_cases()
        n = ctx.n(300, 1000)
        for i in range(n):
            cases.append(gen_case(ctx.rng, SCHED_FAMILIES[i % len(SCHED_FAMILIES)]))
        # two cache levels (model Conc2): front-end wrapper over platform wrapper, both objects' parks scheduled
        cases += corpus_cases2()
        for i in range(ctx.n(250, 1800)):
            cases.append(gen_case2(ctx.rng, SCHED_FAMILIES2[i % len(SCHED_FAMILIES2)]))
        exhaustive = None
        if ctx.tier == "thorough" and ctx.budget_factor == 1:
            enum = list(enumerate_one_call_vs_block("proc")) + list(enumerate_one_call_vs_block("front"))
            cases += enum
            exhaustive = len(enum)
    else:
        exhaustive = None
    outs = ctx.driver().batch(driver_lines(cases))
    impl = c16.Impl(ctx)
    old_switch = sys.getswitchinterval()
    try:
        for case, o in zip(cases, outs):
            if "bad" in o:
                raise RuntimeError("driver rejected schedule: %s" % o)
            m, sp = o["model"], o["spec"]
            impl_out, drift = run_case(impl, case, m)
            enabled = [(s["tid"], s["pc"]) for s in m["steps"] if s["k"] == "thr" and s["en"]]
            res.count("family:sched:" + case["family"].split(":")[0])
            if case["family"].startswith("two:"):
                res.count("family:sched:" + case["family"])
            res.count("sched_steps", len(enabled))
            for r in m["rets"]:
                how = r.get("how")
                res.count("sched_ret:" + ("exc" if "exc" in r else "computed" if how == "computed" else
                                          "hit" if "hit" in how else "hitF" if "hitF" in how else "hitP"))
            if not sp["literal"]:
                res.count("sched:literal_form_false")
            preempt = sum(1 for a, b in zip(enabled, enabled[1:]) if a[0] != b[0])
            res.case(("sched", case["target"], case["progs"], enabled), nontrivial=preempt >= 2,
                     sample={"family": case["family"], "target": case["target"], "progs": case["progs"],
                             "steps": ["%d:%s" % e for e in enabled], "impl": impl_out}
                     if case["family"].startswith("corpus:hit") else None)
            judge(case, impl_out, drift, m, sp, res, known)
        if exhaustive:
            res.extra["exhaustive_schedules"] = ("all %d interleavings of one plain call against one enter/exit pair "
                                                 "(platform object with name()/stat, front-end object with memory_info()/statm)" % exhaustive)
    finally:
        sys.setswitchinterval(old_switch)
        impl.close()


def _case_fails(ctx, impl, case):
    o = ctx.driver().batch(driver_lines([case]))[0]
    m, sp = o["model"], o["spec"]
    impl_out, drift = run_case(impl, case, m)
    mod = {str(t): v for t, v in model_results(m, len(case["progs"])).items()}
    if any(x.get("exc") == "SelfDeadlock" for outs in impl_out.values() for x in outs):
        return False, impl_out, mod, sp          # drift (see judge), not a failing input
    spurious = [x for outs in impl_out.values() for x in outs
                if x.get("kind") == "exc" and x.get("exc") not in PS_ERRORS]
    if spurious:
        return True, impl_out, mod, sp
    if drift or impl_out != mod:
        return False, impl_out, mod, sp
    return ((not sp["interval"]) or sp["spurious"] or (not sp["literal"])
            or owner_unstable(case, impl_out) is not None), impl_out, mod, sp


def shrink(ctx, d):
    from harness.common.shrink import ddmin
    from harness.props import c16
    inp = d["input"]
    impl = c16.Impl(ctx)
    try:
        def fails(sched):
            return _case_fails(ctx, impl, dict(inp, family="shrink", schedule=sched))[0]
        small = ddmin(inp["schedule"], fails, max_tests=25)
        ok, io, mo, sp = _case_fails(ctx, impl, dict(inp, family="shrink", schedule=small))
        if ok:
            return dict(d, input=dict(inp, schedule=small, source="shrunk"), impl=io, model=mo, spec=sp)
    finally:
        impl.close()
    return d


def replay(ctx, rp, res):
    from harness.props import c16
    impl = c16.Impl(ctx)
    try:
        inp = rp["input"]
        case = {"target": inp["target"], "progs": inp["progs"], "schedule": inp["schedule"], "family": "replay"}
        return _case_fails(ctx, impl, case)[0]
    finally:
        impl.close()


def check_finding(ctx, fnd):
    """Replay the recorded schedule: 'reproduces' when the implementation still returns the
    recorded (defective) values."""
    from harness.props import c16
    w = fnd["witness"]
    case = {"target": w["target"], "progs": w["progs"], "schedule": w["schedule"], "family": "finding"}
    o = ctx.driver().batch(driver_lines([case]))[0]
    impl = c16.Impl(ctx)
    try:
        impl_out, drift = run_case(impl, case, o["model"])
    finally:
        impl.close()
    if drift:
        return "gone (schedule no longer executable: %s)" % drift
    if impl_out == w["impl_results"]:
        return "reproduces"
    return "gone"
