"""C17 translator, round 3 (audit-driven): TOTAL extractors.

Every function here returns a value for ANY source text — an unexpected shape is DESCRIBED ("?…", the raw text, an empty list,
false) instead of raising NotRecognised, so the obligation theorem that consumes the fact fails with the new value rather than
silently keeping the baseline.  Each fact is extracted independently of the others.

  §20 psutil_net_if_addrs failure path      nifIfaddrInit nifCleanup
  §21 inventories of the Linux build         cUnsafeCalls cCharBuffers errMsgHelpers errMsgSites strerrorMaxLen
  §22 guards the bounds theorems rely on     macLoopShape ethSpeedTest gniErrTest usersStartSlot
  §23 disk_partitions() plumbing (Python)    fsLineStrip partUnpack sdiskpartArgs mountsPathLogic partCextArg
"""
import ast
import ctypes
import re

from harness.common import extract
from harness.common.extract import lean_bool, lean_list, lean_nat, lean_str
from harness.props.c17_facts_ext import linux_view

UNSAFE = ("sprintf", "vsprintf", "strcpy", "stpcpy", "strcat", "strncat", "strncpy", "gets", "memcpy", "memmove", "alloca",
          "sscanf", "scanf", "fscanf", "snprintf", "vsnprintf", "bcopy", "wcscpy", "wcscat", "readlink", "getcwd", "realpath")


def squeeze(s):
    return re.sub(r"\s+", "", s)


def c_functions(src):
    """[(name, start, end, body)] of the function definitions of a comment-free C file (column-0 signatures)"""
    out = []
    for m in re.finditer(r"^(?:[A-Za-z_][\w\s\*]*?)\b([A-Za-z_]\w*)\s*\(([^;{}()]*)\)\s*\{", src, re.M):
        if m.group(1) in ("if", "while", "for", "switch"):
            continue
        i, depth = m.end(), 1
        while i < len(src) and depth:
            depth += {"{": 1, "}": -1}.get(src[i], 0)
            i += 1
        out.append((m.group(1), m.start(), i, src[m.end():i - 1]))
    return out


def enclosing(funcs, pos):
    for name, a, b, _ in funcs:
        if a <= pos < b:
            return name
    return "<file scope>"


def call_args(src, open_paren_end):
    """text of the arguments of a call whose '(' ends at open_paren_end, split at top-level commas"""
    depth, i, parts, cur, instr = 1, open_paren_end, [], [], False
    while i < len(src) and depth:
        ch = src[i]
        if instr:
            cur.append(ch)
            if ch == "\\":
                cur.append(src[i + 1]); i += 1
            elif ch == '"':
                instr = False
        elif ch == '"':
            instr = True; cur.append(ch)
        elif ch == "(":
            depth += 1; cur.append(ch)
        elif ch == ")":
            depth -= 1
            if depth:
                cur.append(ch)
        elif ch == "," and depth == 1:
            parts.append("".join(cur)); cur = []
        else:
            cur.append(ch)
        i += 1
    parts.append("".join(cur))
    return [p.strip() for p in parts]


def linux_sources(snap, c_source, LINUX_C):
    out = {}
    for rel in list(LINUX_C) + ["_psutil_common.h"]:
        try:
            out[rel] = linux_view(c_source(snap, rel))
        except OSError:
            out[rel] = ""
    return out


# ---------------------------------------------------------------------------------- §21 inventories

def unsafe_calls(srcs):
    out = []
    for rel in sorted(srcs):
        src = srcs[rel]
        funcs = c_functions(src)
        for m in re.finditer(r"\b(%s)\s*\(" % "|".join(UNSAFE), src):
            args = call_args(src, m.end())
            fn = enclosing(funcs, m.start())
            if fn == "<file scope>":
                d = None
                for mm in re.finditer(r"#\s*define\s+(\w+)", src[:m.start()]):
                    d = mm.group(1)
                fn = "#define " + (d or "?")
            out.append((fn, m.group(1), squeeze(args[0]) if args else ""))
    return sorted(out)


def char_buffers(srcs):
    out = []
    for rel in sorted(srcs):
        src = srcs[rel]
        funcs = c_functions(src)
        for m in re.finditer(r"\b(?:unsigned\s+|signed\s+)?(?:char|wchar_t|WCHAR|TCHAR)\s+(\w+)\s*\[\s*([^\]]*)\]", src):
            out.append((enclosing(funcs, m.start()), m.group(1), squeeze(m.group(2))))
    return sorted(out)


def ni_maxhost():
    try:
        with open("/usr/include/netdb.h") as f:
            h = re.search(r"#\s*define\s+NI_MAXHOST\s+(\d+)", f.read())
        return int(h.group(1)) if h else 0
    except OSError:
        return 0


def errmsg_helpers(srcs):
    """(function, size of the char local written, format, argument texts) for every sprintf whose destination is a char local"""
    out = []
    for rel in sorted(srcs):
        src = srcs[rel]
        for name, _, _, body in c_functions(src):
            bufs = {m.group(1): squeeze(m.group(2)) for m in re.finditer(r"\bchar\s+(\w+)\s*\[\s*([^\]]*)\]", body)}
            for m in re.finditer(r"\b(v?sprintf)\s*\(", body):
                args = call_args(body, m.end())
                if len(args) < 2 or args[0] not in bufs:
                    continue                      # e.g. sprintf(ptr, …): pointer destinations are in cUnsafeCalls
                size = bufs[args[0]]
                n = int(size) if size.isdigit() else 0
                fmt = args[1]
                fm = re.fullmatch(r'"((?:[^"\\]|\\.)*)"', fmt)
                out.append((name, n, fm.group(1) if fm else "?" + squeeze(fmt), [squeeze(a) for a in args[2:]]))
    return sorted(out)


def errmsg_sites(srcs, helpers):
    """(enclosing function, helper, argument text, is a string literal, its length, number of call sites of the enclosing
    function in the Linux build) for every call of a helper that formats its `syscall` parameter into a fixed buffer; a
    non-literal argument is acceptable only in dead code (0 call sites of the function that passes it through)"""
    allsrc = "\n".join(srcs.values())
    out = []
    for rel in sorted(srcs):
        src = srcs[rel]
        funcs = c_functions(src)
        for h in sorted(helpers):
            for m in re.finditer(r"\b%s\s*\(" % re.escape(h), src):
                fn = enclosing(funcs, m.start())
                pre = src[max(0, m.start() - 200):m.start()]
                if fn == "<file scope>" or re.search(r"(PyObject\s*\*|void|int)\s*$", pre):
                    continue                      # the definition / a prototype
                args = call_args(src, m.end())
                a = args[0] if args else ""
                lit = re.fullmatch(r'"((?:[^"\\]|\\.)*)"', a)
                sites = max(len(re.findall(r"\b%s\s*\(" % re.escape(fn), allsrc)) - 1, 0)
                if lit:
                    text = lit.group(1)
                    n = len(text.encode().decode("unicode_escape")) if "\\" in text else len(text)
                    out.append((fn, h, text, True, n, sites))
                else:
                    out.append((fn, h, squeeze(a), False, 0, sites))
    return sorted(out)


_STRERR = []


def strerror_maxlen():
    """length of the longest text strerror() of the platform libc returns for errno 0..4095 (measured, like mntLibcBuf)"""
    if not _STRERR:
        libc = ctypes.CDLL(None)
        libc.strerror.restype = ctypes.c_char_p
        libc.strerror.argtypes = [ctypes.c_int]
        best, arg = 0, 0
        for e in range(0, 4096):
            n = len(libc.strerror(e) or b"")
            if n > best:
                best, arg = n, e
        _STRERR.append((best, arg))
    return _STRERR[0]


# ---------------------------------------------------------------------------------- §20 getifaddrs failure path

def fn_body(src, name):
    for n, _, _, body in c_functions(src):
        if n == name:
            return body
    return ""


def nif_ifaddr_init(posix):
    body = fn_body(posix, "psutil_net_if_addrs")
    call = re.search(r"\bgetifaddrs\s*\(", body)
    pre = body[:call.start()] if call else body
    decl = re.search(r"struct\s+ifaddrs\s*\*\s*ifaddr\s*(=\s*NULL\s*)?[,;]", pre)
    if decl and decl.group(1):
        return True
    return bool(decl) and bool(re.search(r"\bifaddr\s*=\s*NULL\s*;", pre))


def nif_cleanup(posix):
    body = fn_body(posix, "psutil_net_if_addrs")
    out = []
    m = re.search(r"if\s*\(([^{;]*getifaddrs[^{;]*)\)\s*\{([^}]*)\}", body)
    out.append("if(%s){%s}" % (squeeze(m.group(1)), squeeze(m.group(2))) if m else "?")
    for m in re.finditer(r"((?:if\s*\([^;{}]*\)\s*)?)\bfreeifaddrs\s*\(([^;]*)\)\s*;", body):
        tail = "error" if "error:" in body[:m.start()] else "loop-exit"
        out.append("%s:%sfreeifaddrs(%s);" % (tail, squeeze(m.group(1)), squeeze(m.group(2))))
    return out


# ---------------------------------------------------------------------------------- §22 guards

def mac_loop_shape(posix):
    body = fn_body(posix, "psutil_convert_ipaddr")
    sp = re.search(r"\bsprintf\s*\(\s*ptr\b", body)
    if not sp:
        return ["?no-sprintf"]
    pre = body[:sp.start()]
    fo = None
    for fo in re.finditer(r"\bfor\s*\(([^;]*);([^;]*);([^)]*)\)\s*\{?", pre):
        pass
    guard = None
    for guard in re.finditer(r"\bif\s*\(([^{;]*)\)\s*\{", pre):
        pass
    g = "?"
    if guard is not None and fo is not None and guard.start() < fo.start():
        between = pre[guard.end():fo.start()]
        g = squeeze(guard.group(1)) if squeeze(between) in ("ptr=buf;",) else "?%s|%s" % (squeeze(guard.group(1)), squeeze(between))
    elif guard is None or fo is None:
        g = "?none"
    post = body[sp.start():]
    term = re.search(r"\}\s*([^;{}]*);", post)
    return [g] + ([squeeze(fo.group(k)) for k in (1, 2, 3)] if fo else ["?", "?", "?"]) + [squeeze(term.group(1)) if term else "?"]


def eth_speed_test(net):
    body = fn_body(net, "psutil_net_if_duplex_speed")
    m = re.search(r"uint_speed\s*=\s*psutil_ethtool_cmd_speed\s*\(\s*&ethcmd\s*\)\s*;\s*if\s*\(([^{]*)\)\s*\{([^}]*)\}\s*else\s*\{([^}]*)\}", body)
    if not m:
        return "?"
    return "%s?%s:%s" % tuple(squeeze(m.group(k)) for k in (1, 2, 3))


def gni_err_test(posix):
    body = fn_body(posix, "psutil_convert_ipaddr")
    m = re.search(r"err\s*=\s*getnameinfo\s*\([^;]*\)\s*;\s*if\s*\(([^{]*)\)\s*\{([^}]*)\}\s*else\s*\{([^}]*)\}", body)
    if not m:
        return "?"
    return "%s?%s:%s" % tuple(squeeze(m.group(k)) for k in (1, 2, 3))


def users_start_slot(users):
    body = fn_body(users, "psutil_users")
    m = re.search(r"Py_BuildValue\s*\(", body)
    if not m:
        return "?"
    args = call_args(body, m.end())
    if len(args) < 6:
        return "?" + squeeze(",".join(args))
    return squeeze(args[0]) + "|" + squeeze(args[4]) + "|" + squeeze(args[5])


# ---------------------------------------------------------------------------------- §23 disk_partitions() plumbing

def _dp(tree):
    for n in tree.body:
        if isinstance(n, ast.FunctionDef) and n.name == "disk_partitions":
            return n
    return None


def fs_line_strip(tree):
    fn = _dp(tree)
    if fn is None:
        return "?"
    for n in ast.walk(fn):
        if isinstance(n, ast.For) and extract.dotted(n.iter) == "f" and extract.dotted(n.target) == "line":
            return ast.unparse(n.body[0]) if n.body else "?"
    return "?"


def part_unpack(tree):
    fn = _dp(tree)
    if fn is None:
        return ["?"]
    for n in ast.walk(fn):
        if isinstance(n, ast.Assign) and isinstance(n.targets[0], ast.Tuple) and extract.dotted(n.value) == "partition":
            return [extract.dotted(e) for e in n.targets[0].elts]
    return ["?"]


def sdiskpart_args(tree):
    fn = _dp(tree)
    if fn is None:
        return ["?"]
    calls = extract.calls_in(fn, "sdiskpart")
    if len(calls) != 1:
        return ["?%d calls" % len(calls)]
    c = calls[0]
    return [ast.unparse(a) for a in c.args] + ["%s=%s" % (k.arg, ast.unparse(k.value)) for k in c.keywords]


def mounts_path_logic(tree):
    fn = _dp(tree)
    if fn is None:
        return "?"
    for n in fn.body:
        if isinstance(n, ast.If) and any(isinstance(x, ast.Name) and x.id == "mounts_path" for x in ast.walk(n)):
            return ast.unparse(n).replace("\n", " ; ")
    return "?"


def part_cext_arg(tree):
    fn = _dp(tree)
    if fn is None:
        return "?"
    calls = [c for c in ast.walk(fn) if isinstance(c, ast.Call) and extract.dotted(c.func) == "cext.disk_partitions"]
    if len(calls) != 1:
        return "?%d calls" % len(calls)
    it = [n for n in ast.walk(fn) if isinstance(n, ast.For) and extract.dotted(n.target) == "partition"]
    tgt = [extract.dotted(n.targets[0]) for n in ast.walk(fn) if isinstance(n, ast.Assign) and n.value is calls[0]]
    return "%s=cext.disk_partitions(%s)|%s" % (tgt[0] if len(tgt) == 1 else "?", ",".join(ast.unparse(a) for a in calls[0].args),
                                               ast.unparse(it[0].iter) if len(it) == 1 else "?")


# ---------------------------------------------------------------------------------- all

def facts(snap, F, c_source, LINUX_C):
    cache = {}

    def memo(key, fn):
        if key not in cache:
            cache[key] = fn()
        return cache[key]
    srcs = lambda: memo("srcs", lambda: linux_sources(snap, c_source, LINUX_C))
    posix = lambda: srcs().get("_psutil_posix.c", "")
    tree = lambda: memo("tree", lambda: extract.parse_module(snap, "_pslinux.py"))
    trip = lambda e: "(%s, %s, %s)" % (lean_str(e[0]), lean_str(e[1]), lean_str(e[2]))

    F.try_add("nifIfaddrInit", "Bool", lambda: lean_bool(nif_ifaddr_init(posix())),
              "psutil_net_if_addrs: `ifaddr` holds NULL when getifaddrs() is called (initialiser or assignment before the call)")
    F.try_add("nifCleanup", "List String", lambda: lean_list(nif_cleanup(posix()), lean_str),
              "psutil_net_if_addrs: the statement run when getifaddrs() fails, and every freeifaddrs() statement with its guard (error path / loop exit)")
    F.try_add("cUnsafeCalls", "List (String × String × String)", lambda: lean_list(unsafe_calls(srcs()), trip),
              "every call of an unbounded / caller-bounded copy or format function in the C files of the Linux build (preprocessor resolved for PSUTIL_LINUX): (function, callee, destination argument)")
    F.try_add("cCharBuffers", "List (String × String × String)", lambda: lean_list(char_buffers(srcs()), trip),
              "every fixed-size char array declared in the C files of the Linux build: (function, name, size expression)")
    helpers = lambda: memo("helpers", lambda: errmsg_helpers(srcs()))
    F.try_add("errMsgHelpers", "List (String × Nat × String × List String)",
              lambda: lean_list(helpers(), lambda e: "(%s, %d, %s, %s)" % (lean_str(e[0]), e[1], lean_str(e[2]), lean_list(e[3], lean_str))),
              "every sprintf into a char local: (function, sizeof the local (0 = not a number), format, arguments)")
    F.try_add("errMsgSites", "List (String × String × String × Bool × Nat × Nat)",
              lambda: lean_list(errmsg_sites(srcs(), {h[0] for h in helpers()}),
                                lambda e: "(%s, %s, %s, %s, %d, %d)" % (lean_str(e[0]), lean_str(e[1]), lean_str(e[2]), lean_bool(e[3]), e[4], e[5])),
              "every call of one of those functions in the Linux build: (caller, callee, argument, is a string literal, its length, call sites of the caller in the Linux build)")
    F.try_add("strerrorMaxLen", "Nat", lambda: lean_nat(strerror_maxlen()[0]),
              "longest strerror() text of the platform libc over errno 0..4095 (measured through ctypes)")
    F.try_add("macLoopShape", "List String", lambda: lean_list(mac_loop_shape(posix()), lean_str),
              "psutil_convert_ipaddr, link-level text: [guard of the block (only `ptr = buf;` between it and the loop), for-init, for-condition, for-step, statement after the loop]")
    F.try_add("ethSpeedTest", "String", lambda: lean_str(eth_speed_test(srcs().get("arch/linux/net.c", ""))),
              "net_if_duplex_speed: `cond ? then : else` of the test applied to the 32-bit speed")
    F.try_add("gniErrTest", "String", lambda: lean_str(gni_err_test(posix())),
              "psutil_convert_ipaddr: `cond ? then : else` of the test on getnameinfo()'s return value")
    F.try_add("usersStartSlot", "String", lambda: lean_str(users_start_slot(srcs().get("arch/linux/users.c", ""))),
              "psutil_users: Py_BuildValue format | 4th value (start time) | 5th value (pid)")
    F.try_add("fsLineStrip", "String", lambda: lean_str(fs_line_strip(tree())), "disk_partitions(): first statement of the loop over /proc/filesystems")
    F.try_add("partUnpack", "List String", lambda: lean_list(part_unpack(tree()), lean_str), "disk_partitions(): targets of the unpacking of one cext tuple")
    F.try_add("sdiskpartArgs", "List String", lambda: lean_list(sdiskpart_args(tree()), lean_str), "disk_partitions(): arguments of sdiskpart(...)")
    F.try_add("mountsPathLogic", "String", lambda: lean_str(mounts_path_logic(tree())), "disk_partitions(): the statement choosing the mounts file")
    F.try_add("partCextArg", "String", lambda: lean_str(part_cext_arg(tree())), "disk_partitions(): argument of cext.disk_partitions | iterable of the row loop")
