"""C17 translator, seeded round 5: where the C extension lets go of the GIL (TOTAL extractors — an unexpected shape is
described with a `?…` entry, never skipped).

  §24 gilReleasedCalls   (function, callee) for EVERY call made inside a GIL window of a C function of the Linux build,
                         whatever the spelling of the window (Py_BEGIN/END_ALLOW_THREADS, Py_UNBLOCK/BLOCK_THREADS,
                         PyEval_SaveThread/RestoreThread, PyEval_ReleaseThread/AcquireThread, PyEval_ReleaseLock/AcquireLock);
                         callees defined in the psutil sources are followed (their calls count as made inside the window)
      gilStaticLoops     (function, events) for every function that calls a libc function answering through a process-wide
                         static object (directly or through a psutil helper that does): the events `release`, `acquire`,
                         `produce:<callee>`, `use` (an access through the pointer the call returned) in source order
      gilScannedNames    the libc names the scan looks for (the Lean side demands that its own list is covered)
"""
import re

from harness.common.extract import lean_list, lean_str
from harness.props import c17_facts_r3 as R3

RELEASE = ("Py_BEGIN_ALLOW_THREADS", "Py_UNBLOCK_THREADS", "PyEval_SaveThread", "PyEval_ReleaseThread", "PyEval_ReleaseLock")
ACQUIRE = ("Py_END_ALLOW_THREADS", "Py_BLOCK_THREADS", "PyEval_RestoreThread", "PyEval_AcquireThread", "PyEval_AcquireLock")
KEYWORDS = {"if", "while", "for", "switch", "return", "sizeof", "defined", "do", "else", "case", "typeof", "__attribute__"}

# attributes(7) "MT-Unsafe race:…" functions that keep their answer / position in one static object
STATIC_RESULT = [
    "getmntent", "getutent", "getutid", "getutline", "getutxent", "getutxid", "getutxline", "setutent", "endutent", "pututline",
    "utmpname", "getpwnam", "getpwuid", "getpwent", "getgrnam", "getgrgid", "getgrent", "getspnam", "getspent",
    "gethostbyname", "gethostbyname2", "gethostbyaddr", "gethostent", "getservbyname", "getservbyport", "getservent",
    "getprotobyname", "getprotobynumber", "getprotoent", "getnetbyname", "getnetbyaddr", "getnetent", "getfsent", "getfsspec",
    "getfsfile", "getttyent", "getttynam", "localtime", "gmtime", "ctime", "asctime", "strtok", "strerror", "strsignal",
    "ttyname", "ptsname", "getlogin", "cuserid", "ctermid", "tmpnam", "inet_ntoa", "ether_ntoa", "ether_aton", "readdir",
    "basename", "dirname", "crypt", "ecvt", "fcvt", "l64a", "getdate", "hcreate", "hsearch", "hdestroy", "setlocale",
    "getenv", "setenv", "putenv", "unsetenv", "rand", "srand", "drand48", "lrand48", "mrand48", "getopt", "catgets", "nl_langinfo"]

TOKEN = re.compile(r"\b(%s)\b|\b(%s)\b|\b([A-Za-z_]\w*)\s*\(" % ("|".join(RELEASE), "|".join(ACQUIRE)))


def tokens(body):
    """[(position, kind, name)] with kind in release / acquire / call, in source order"""
    out = []
    for m in TOKEN.finditer(body):
        if m.group(1):
            out.append((m.start(), "release", m.group(1)))
        elif m.group(2):
            out.append((m.start(), "acquire", m.group(2)))
        elif m.group(3) not in KEYWORDS:
            out.append((m.start(), "call", m.group(3)))
    return out


def no_strings(src):
    """string and character literals emptied (a name inside a message is not a call)"""
    return re.sub(r'"(?:[^"\\\n]|\\.)*"', '""', re.sub(r"'(?:[^'\\\n]|\\.)+'", "' '", src))


def all_functions(srcs, rettypes=None):
    fns = {}
    for rel in sorted(srcs):
        src = no_strings(srcs[rel])
        for name, a, _, body in R3.c_functions(src):
            if name not in fns:
                fns[name] = body
                if rettypes is not None:
                    sig = src[a:a + 400]
                    rettypes[name] = re.sub(r"\s+", " ", sig[:sig.index(name)]).strip()
    return fns


def calls_closure(fns, name, seen=None):
    """every callee reachable from the body of psutil function `name` (psutil helpers followed)"""
    seen = set() if seen is None else seen
    out = []
    for _, kind, callee in tokens(fns.get(name, "")):
        if kind != "call":
            continue
        out.append(callee)
        if callee in fns and callee not in seen:
            seen.add(callee)
            out.extend(calls_closure(fns, callee, seen))
    return out


def released_calls(srcs):
    fns = all_functions(srcs)
    out = set()
    for fn in sorted(fns):
        depth = 0
        for _, kind, name in tokens(fns[fn]):
            if kind == "release":
                depth += 1
            elif kind == "acquire":
                depth -= 1
                if depth < 0:
                    out.add((fn, "?acquire-without-release"))
                    depth = 0
            elif depth > 0:
                out.add((fn, name))
                if name in fns:
                    for inner in calls_closure(fns, name, {name}):
                        out.add((fn, inner))
        if depth != 0:
            out.add((fn, "?window-not-closed"))
    return sorted(out)


def static_helpers(fns, rettypes):
    """psutil functions that (transitively) make a static-result call and return a C pointer (not a Python object): the pointer may
    point into the static object"""
    return {fn for fn in fns if "*" in rettypes.get(fn, "*") and "PyObject" not in rettypes.get(fn, "")
            and any(c in STATIC_RESULT for c in calls_closure(fns, fn, {fn}))}


def static_loops(srcs):
    rettypes = {}
    fns = all_functions(srcs, rettypes)
    helpers = static_helpers(fns, rettypes)
    out = []
    for fn in sorted(fns):
        body = fns[fn]
        toks = tokens(body)
        prods = [(pos, name) for pos, kind, name in toks if kind == "call" and (name in STATIC_RESULT or (name in helpers and name != fn))]
        if not prods:
            continue
        evs = []           # (position, event)
        tracked = set()
        for pos, name in prods:
            evs.append((pos, 0, "produce:" + name))
            m = re.search(r"([A-Za-z_]\w*)\s*=\s*(?:\([^()]*\)\s*)?$", body[:pos])
            if m:
                tracked.add(m.group(1))
            else:
                evs.append((pos, 1, "use"))            # result consumed inside the same expression
        for pos, kind, name in toks:
            if kind in ("release", "acquire"):
                evs.append((pos, 0, kind))
        for v in sorted(tracked):
            # an access through the pointer (`v->…`, `v[…]`) or the pointer handed on as an argument
            for m in re.finditer(r"\b%s\s*(?:->|\[)|[(,]\s*%s\s*(?=[,)])" % (re.escape(v), re.escape(v)), body):
                evs.append((m.start(), 0, "use"))
        out.append((fn, [e for _, _, e in sorted(evs)]))
    return out


def facts(snap, F, c_source, LINUX_C):
    cache = {}

    def srcs():
        if "s" not in cache:
            cache["s"] = R3.linux_sources(snap, c_source, LINUX_C)
        return cache["s"]
    pair = lambda e: "(%s, %s)" % (lean_str(e[0]), lean_str(e[1]))
    F.try_add("gilReleasedCalls", "List (String × String)", lambda: lean_list(released_calls(srcs()), pair),
              "every call made while the GIL is released, in the C files of the Linux build (preprocessor resolved for PSUTIL_LINUX; psutil "
              "helpers followed): (function, callee); `?…` = a window the scan could not pair up")
    F.try_add("gilStaticLoops", "List (String × List String)",
              lambda: lean_list(static_loops(srcs()), lambda e: "(%s, %s)" % (lean_str(e[0]), lean_list(e[1], lean_str))),
              "every function that calls a libc function answering through a process-wide static object (or a psutil helper that does): "
              "(function, [release | acquire | produce:<callee> | use …] in source order)")
    F.try_add("gilScannedNames", "List String", lambda: lean_list(STATIC_RESULT, lean_str),
              "the libc names the static-object scan looks for")
