"""Translator for C20: facts about the five non-Linux platform modules, the front end and the docs.

Everything here is re-derived from the snapshot's *current* source on every run:
`ast` over `_ps*.py` / `__init__.py`, runtime introspection of the modules loaded under
emulation (`c20_emul`), regex over the C sources' `Py_BuildValue` comments, text scan of
`docs/index.rst`.
"""
import ast
import os
import re

from harness.common import extract
from harness.common.extract import NotRecognised, lean_bool, lean_list, lean_nat, lean_str
from harness.props import c20_emul as E

FAMILY = {"freebsd": "bsd", "openbsd": "bsd", "netbsd": "bsd", "macos": "osx", "sunos": "sunos",
          "aix": "aix", "windows": "windows"}
FAMILY_FILE = {"bsd": "_psbsd.py", "osx": "_psosx.py", "sunos": "_pssunos.py", "aix": "_psaix.py",
               "windows": "_pswindows.py"}
FAMILY_IDENT = {"bsd": "freebsd", "osx": "macos", "sunos": "sunos", "aix": "aix", "windows": "windows"}
OSERROR_CAPABLE = {"OSError", "EnvironmentError", "IOError", "Exception", "BaseException", "FileNotFoundError",
                   "ProcessLookupError", "PermissionError", "AccessDenied", "NoSuchProcess", "ZombieProcess", "Error"}


def lstr_list(xs):
    return lean_list(xs, lean_str)


def lpair(a, b):
    return "(%s, %s)" % (a, b)


# ------------------------------------------------------------------ except clauses


def _names_of(typ):
    if typ is None:
        return ["BaseException"]
    if isinstance(typ, ast.Tuple):
        return [extract.dotted(e).split(".")[-1] for e in typ.elts]
    return [extract.dotted(typ).split(".")[-1]]


def _is_raise_of(st, cls, args):
    """`raise <cls>(<args>) [from err]` with exactly these positional Name args"""
    if not isinstance(st, ast.Raise) or not isinstance(st.exc, ast.Call):
        return False
    c = st.exc
    if extract.dotted(c.func).split(".")[-1] != cls or c.keywords:
        return False
    return [extract.unparse(a) for a in c.args] == list(args)


def _is_call_test(test, fname, arg, negate=False):
    if negate:
        if not (isinstance(test, ast.UnaryOp) and isinstance(test.op, ast.Not)):
            return False
        test = test.operand
    return isinstance(test, ast.Call) and extract.dotted(test.func) == fname and \
        [extract.unparse(a) for a in test.args] == [arg]


def _bare_raise(st):
    return isinstance(st, ast.Raise) and st.exc is None


def classify_handler(h, pid="pid", name="name", ppid="ppid"):
    """tag of one `except` clause body of a wrap_exceptions-like decorator"""
    b = h.body
    # drop comment-only / docstring statements
    b = [s for s in b if not (isinstance(s, ast.Expr) and isinstance(s.value, ast.Constant))]
    if len(b) == 1 and _is_raise_of(b[0], "AccessDenied", [pid, name]):
        return "accessDenied"
    if len(b) == 2 and isinstance(b[0], ast.If) and not b[0].orelse and _is_call_test(b[0].test, "is_zombie", pid) \
            and len(b[0].body) == 1 and _is_raise_of(b[0].body[0], "ZombieProcess", [pid, name, ppid]) \
            and _is_raise_of(b[1], "NoSuchProcess", [pid, name]):
        return "zombieProbe"
    if len(b) == 1 and isinstance(b[0], ast.If) and _is_call_test(b[0].test, "is_zombie", "inst.pid") \
            and len(b[0].body) == 1 and _is_raise_of(b[0].body[0], "ZombieProcess", [pid, name, ppid]) \
            and len(b[0].orelse) == 1 and _is_raise_of(b[0].orelse[0], "NoSuchProcess", [pid, name]):
        return "zombieProbe"
    if len(b) == 2 and isinstance(b[0], ast.If) and not b[0].orelse \
            and _is_call_test(b[0].test, "pid_exists", pid, negate=True) \
            and len(b[0].body) == 1 and _is_raise_of(b[0].body[0], "NoSuchProcess", [pid, name]) \
            and _is_raise_of(b[1], "ZombieProcess", [pid, name, ppid]):
        return "existsProbe"
    # pid-0 rule, flat:  if pid == 0 and 0 in pids(): raise AD ; raise
    if len(b) == 2 and isinstance(b[0], ast.If) and not b[0].orelse and _bare_raise(b[1]) \
            and extract.unparse(b[0].test) == "%s == 0 and 0 in pids()" % pid \
            and len(b[0].body) == 1 and _is_raise_of(b[0].body[0], "AccessDenied", [pid, name]):
        return "pid0Rule"
    # nested:  if pid == 0: (if 0 in pids(): raise AD); raise ; raise
    if len(b) == 2 and isinstance(b[0], ast.If) and not b[0].orelse and _bare_raise(b[1]) \
            and extract.unparse(b[0].test) == "%s == 0" % pid and len(b[0].body) == 2 \
            and isinstance(b[0].body[0], ast.If) and extract.unparse(b[0].body[0].test) == "0 in pids()" \
            and len(b[0].body[0].body) == 1 and not b[0].body[0].orelse \
            and _is_raise_of(b[0].body[0].body[0], "AccessDenied", [pid, name]) and _bare_raise(b[0].body[1]):
        return "pid0Rule"
    if len(b) == 1 and isinstance(b[0], ast.Raise) and isinstance(b[0].exc, ast.Call) \
            and extract.dotted(b[0].exc.func) == "convert_oserror" \
            and extract.unparse(b[0].exc) == "convert_oserror(err, pid=self.pid, name=self._name)":
        return "convertOserror"
    return "other:" + " ; ".join(extract.unparse(s) for s in b)[:120].replace("\n", " ")


def wrap_clauses(tree, fname="wrap_exceptions"):
    fn = extract.find_def(tree, fname)
    tries = [n for n in ast.walk(fn) if isinstance(n, ast.Try)]
    if len(tries) != 1:
        raise NotRecognised("%s: expected exactly one try, found %d" % (fname, len(tries)))
    t = tries[0]
    # the names the clause bodies use must be the cached pid/name/ppid of the instance
    src = extract.unparse(fn)
    if fname == "wrap_exceptions" and "convert_oserror" not in src:
        if not re.search(r"pid, ppid, name = \(?self\.pid, self\._ppid, self\._name\)?", src):
            raise NotRecognised("%s does not bind pid, ppid, name from self" % fname)
    if fname == "wrap_exceptions_procfs":
        if not re.search(r"pid, name, ppid = \(?inst\.pid, inst\._name, inst\._ppid\)?", src):
            raise NotRecognised("%s does not bind pid, name, ppid from inst" % fname)
    out = []
    for h in t.handlers:
        out.append((_names_of(h.type), classify_handler(h)))
    if not out:
        raise NotRecognised("no handlers")
    return out


def lean_clauses(cl):
    return lean_list(cl, lambda c: lpair(lstr_list(c[0]), lean_str(c[1])))


def win_convert(tree):
    fn = extract.find_def(tree, "convert_oserror")
    body = [s for s in fn.body if not (isinstance(s, ast.Expr) and isinstance(s.value, ast.Constant))
            and not isinstance(s, ast.Assert)]
    out = []
    for s in body:
        if isinstance(s, ast.If) and not s.orelse and len(s.body) == 1 and isinstance(s.body[0], ast.Return):
            t = extract.unparse(s.test)
            r = extract.unparse(s.body[0].value)
            if t == "is_permission_err(exc)":
                test = "permission"
            elif t == "isinstance(exc, ProcessLookupError)":
                test = "ProcessLookupError"
            else:
                raise NotRecognised("convert_oserror test %s" % t)
            if r == "AccessDenied(pid=pid, name=name)":
                act = "AD"
            elif r == "NoSuchProcess(pid=pid, name=name)":
                act = "NSP"
            else:
                raise NotRecognised("convert_oserror returns %s" % r)
            out.append((test, act))
        elif isinstance(s, ast.Raise) and extract.unparse(s) == "raise exc":
            out.append(("else", "raise"))
        else:
            raise NotRecognised("convert_oserror statement %s" % extract.unparse(s)[:60])
    return out


def win_permission(tree, consts):
    fn = extract.find_def(tree, "is_permission_err")
    ret = [s for s in fn.body if isinstance(s, ast.Return)]
    if len(ret) != 1:
        raise NotRecognised("is_permission_err shape")
    v = ret[0].value
    isinst, codes = False, []
    parts = v.values if isinstance(v, ast.BoolOp) and isinstance(v.op, ast.Or) else [v]
    for p in parts:
        u = extract.unparse(p)
        if u == "isinstance(exc, PermissionError)":
            isinst = True
        elif isinstance(p, ast.Compare) and extract.unparse(p.left) == "exc.winerror" and len(p.ops) == 1 \
                and isinstance(p.ops[0], ast.In) and isinstance(p.comparators[0], (ast.Set, ast.Tuple, ast.List)):
            for e in p.comparators[0].elts:
                nm = extract.dotted(e).split(".")[-1]
                if nm not in consts:
                    raise NotRecognised("unknown Windows code %s" % nm)
                codes.append(consts[nm])
        else:
            raise NotRecognised("is_permission_err term %s" % u)
    return isinst, sorted(codes)


def win_retry(tree):
    fn = extract.find_def(tree, "retry_error_partial_copy")
    src = extract.unparse(fn)
    m = re.search(r"times = (\d+)", src)
    if not m or "err.winerror == ERROR_PARTIAL_COPY" not in src:
        raise NotRecognised("retry_error_partial_copy shape")
    if "raise AccessDenied(pid=self.pid, name=self._name, msg=msg)" not in src:
        raise NotRecognised("retry_error_partial_copy final raise")
    code = None
    for st in tree.body:
        if isinstance(st, ast.Assign) and extract.dotted(st.targets[0]) == "ERROR_PARTIAL_COPY":
            code = extract.const(st.value)
    if code is None:
        raise NotRecognised("ERROR_PARTIAL_COPY")
    return code, int(m.group(1))


def broadcast_assigned(init_tree):
    fn = extract.find_def(init_tree, "net_if_addrs")
    found = None
    for n in ast.walk(fn):
        if isinstance(n, ast.Call) and extract.dotted(n.func) == "nt._replace" \
                and [k.arg for k in n.keywords] == ["broadcast"]:
            found = n
    if found is None:
        raise NotRecognised("nt._replace(broadcast=...) not found in net_if_addrs")
    for n in ast.walk(fn):
        if isinstance(n, ast.Assign) and n.value is found and extract.unparse(n.targets[0]) == "nt":
            return True
        if isinstance(n, ast.Expr) and n.value is found:
            return False
    raise NotRecognised("use of nt._replace(...) not recognised")


def _stored_names(nodes):
    out = set()
    for st in nodes:
        for n in ast.walk(st):
            if isinstance(n, ast.Name) and isinstance(n.ctx, (ast.Store, ast.Del)):
                out.add(n.id)
    return out


def _flow_fresh(stmts, fresh, local_names, at):
    """Definite-assignment-in-THIS-iteration analysis over a loop body. `fresh` = the names that, on every path
    reaching this point, were bound during the current iteration from values of the current iteration (or from
    names the function never binds). Records the set on entry of every statement in `at[id(stmt)]`. Returns the
    set after the block, or None when the end of the block is unreachable (continue / break / return / raise)."""
    def ok_expr(e, fr):
        return all(n.id in fr or n.id not in local_names
                   for n in ast.walk(e) if isinstance(n, ast.Name) and isinstance(n.ctx, ast.Load))

    def meet(sets):
        sets = [x for x in sets if x is not None]
        if not sets:
            return None
        out = set(sets[0])
        for x in sets[1:]:
            out &= x
        return out

    def bind(target, good, fr):
        for n in ast.walk(target):
            if isinstance(n, ast.Name) and isinstance(n.ctx, ast.Store):
                (fr.add if good else fr.discard)(n.id)

    fresh = set(fresh)
    for st in stmts:
        at[id(st)] = set(fresh)
        if isinstance(st, ast.Assign):
            good = ok_expr(st.value, fresh)
            for t in st.targets:
                bind(t, good, fresh)
        elif isinstance(st, ast.AnnAssign):
            if st.value is not None:
                bind(st.target, ok_expr(st.value, fresh), fresh)
        elif isinstance(st, ast.AugAssign):
            good = ok_expr(st.value, fresh) and all(
                n.id in fresh for n in ast.walk(st.target) if isinstance(n, ast.Name))
            bind(st.target, good, fresh)
        elif isinstance(st, ast.If):
            a = _flow_fresh(st.body, fresh, local_names, at)
            b = _flow_fresh(st.orelse, fresh, local_names, at)
            fresh = meet([a, b])
        elif isinstance(st, ast.Try):
            entry = set(fresh)
            b = _flow_fresh(st.body, entry, local_names, at)
            outs = []
            for h in st.handlers:
                # the handler may be entered from any point of the body: only what was fresh BEFORE the try counts
                hs = set(entry) - (_stored_names(st.body) - entry)
                if h.name:
                    hs.add(h.name)
                outs.append(_flow_fresh(h.body, hs, local_names, at))
            outs.append(_flow_fresh(st.orelse, b, local_names, at) if b is not None else None)
            fresh = meet(outs)
            if st.finalbody and fresh is not None:
                fresh = _flow_fresh(st.finalbody, fresh, local_names, at)
        elif isinstance(st, (ast.For, ast.While)):
            # fixpoint: what is fresh at the head of the nested loop on the first AND on every later round
            head = set(fresh)
            while True:
                inner = set(head)
                if isinstance(st, ast.For):
                    bind(st.target, ok_expr(st.iter, head), inner)
                out = _flow_fresh(st.body, inner, local_names, at)
                nxt = meet([head, out])
                if nxt == head:
                    break
                head = nxt
            fresh = head
            if st.orelse:
                fresh = _flow_fresh(st.orelse, fresh, local_names, at)
        elif isinstance(st, ast.With):
            for it in st.items:
                if it.optional_vars is not None:
                    bind(it.optional_vars, ok_expr(it.context_expr, fresh), fresh)
            fresh = _flow_fresh(st.body, fresh, local_names, at)
        elif isinstance(st, (ast.Continue, ast.Break, ast.Return, ast.Raise)):
            return None
        if fresh is None:
            return None
    return fresh


def broadcast_fresh(init_tree):
    """net_if_addrs(): on every path that reaches a `<record>._replace(broadcast=V)`, was everything V reads bound in
    the SAME iteration of the (innermost) record loop the call sits in? False when a path exists on which a name
    still holds what an earlier iteration (or an earlier loop) left there."""
    fn = extract.find_def(init_tree, "net_if_addrs")
    local_names = _stored_names(fn.body) | {a.arg for a in fn.args.args}
    calls = [n for n in ast.walk(fn)
             if isinstance(n, ast.Call) and isinstance(n.func, ast.Attribute) and n.func.attr == "_replace"
             and any(k.arg == "broadcast" for k in n.keywords)]
    if not calls:
        raise NotRecognised("no <record>._replace(broadcast=...) in net_if_addrs")

    def innermost_loop(call):
        best = None
        for n in ast.walk(fn):
            if isinstance(n, ast.For) and any(x is call for b in n.body for x in ast.walk(b)):
                if best is None or any(x is n for x in ast.walk(best)):
                    best = n
        return best

    verdict = True
    for call in calls:
        loop = innermost_loop(call)
        if loop is None:
            raise NotRecognised("_replace(broadcast=...) outside any record loop")
        at = {}
        start = set()
        for n in ast.walk(loop.target):
            if isinstance(n, ast.Name):
                start.add(n.id)
        _flow_fresh(loop.body, start, local_names, at)
        holder = None
        for st in ast.walk(loop):
            if isinstance(st, ast.stmt) and not hasattr(st, "body") and id(st) in at \
                    and any(x is call for x in ast.walk(st)):
                holder = st
        if holder is None:
            raise NotRecognised("statement holding _replace(broadcast=...) not reached by the flow analysis")
        fr = at[id(holder)]
        for k in call.keywords:
            if k.arg == "broadcast":
                for n in ast.walk(k.value):
                    if isinstance(n, ast.Name) and n.id in local_names and n.id not in fr:
                        verdict = False
    return verdict


def sunos_pid0_named(tree):
    """`_pssunos.Process._proc_basic_info`: the AccessDenied raised for an unreadable PID 0 carries the cached name"""
    fn = extract.find_def(tree, "_proc_basic_info", cls="Process")
    for n in ast.walk(fn):
        if isinstance(n, ast.If) and "self.pid == 0" in extract.unparse(n.test) and "psinfo" in extract.unparse(n.test):
            if len(n.body) == 1 and isinstance(n.body[0], ast.Raise) and isinstance(n.body[0].exc, ast.Call) \
                    and extract.dotted(n.body[0].exc.func) == "AccessDenied":
                args = [extract.unparse(a) for a in n.body[0].exc.args]
                if args == ["self.pid", "self._name"]:
                    return True
                if args == ["self.pid"]:
                    return False
    raise NotRecognised("_proc_basic_info pid-0 guard not recognised")


def win_maps_loop_guarded(tree):
    """`_pswindows.Process.memory_maps`: is every `convert_dos_path(...)` call lexically inside the body of
    the `try` whose `except OSError as err` does `raise convert_oserror(err, self.pid, self._name)`?"""
    fn = extract.find_def(tree, "memory_maps", cls="Process")
    calls = [n for n in ast.walk(fn) if isinstance(n, ast.Call) and extract.dotted(n.func) == "convert_dos_path"]
    if not calls:
        raise NotRecognised("memory_maps: no convert_dos_path call")
    guarded = set()
    for t in ast.walk(fn):
        if not isinstance(t, ast.Try):
            continue
        ok = False
        for h in t.handlers:
            b = [s for s in h.body if not (isinstance(s, ast.Expr) and isinstance(s.value, ast.Constant))]
            if "OSError" in _names_of(h.type) and len(b) == 1 and isinstance(b[0], ast.Raise) \
                    and b[0].exc is not None \
                    and extract.unparse(b[0].exc) in ("convert_oserror(err, self.pid, self._name)",
                                                      "convert_oserror(err, pid=self.pid, name=self._name)"):
                ok = True
        if ok:
            for st in t.body:
                for n in ast.walk(st):
                    if any(n is c for c in calls):
                        guarded.add(id(n))
    if len(guarded) == len(calls):
        return True
    if not guarded:
        return False
    raise NotRecognised("memory_maps: some convert_dos_path calls guarded, some not")


# ------------------------------------------------------------------ methods / decorators (runtime)


def _def_range(tree, fname):
    fn = extract.find_def(tree, fname)
    return fn.lineno, fn.end_lineno


def method_table(emu, tree, common_tree):
    """[(method, [decorators outermost first])] for every function in the class dict of Process"""
    ranges = {}
    for dn in ("wrap_exceptions", "retry_error_partial_copy"):
        try:
            ranges[dn] = (emu.mod.__file__,) + _def_range(tree, dn)
        except NotRecognised:
            pass
    ranges["memoize_when_activated"] = (emu.common.__file__,) + _def_range(common_tree, "memoize_when_activated")
    out = []
    for n, v in vars(emu.mod.Process).items():
        if n.startswith("__") or isinstance(v, type) or not callable(v):
            continue
        decos = []
        f = v
        seen = 0
        while f is not None and seen < 10:
            seen += 1
            code = getattr(f, "__code__", None)
            if code is None:
                break
            for dn, (fl, a, b) in ranges.items():
                if os.path.abspath(code.co_filename) == os.path.abspath(fl) and a <= code.co_firstlineno <= b:
                    decos.append(dn)
            f = getattr(f, "__wrapped__", None)
        out.append((n, decos))
    return sorted(out)


def class_functions(tree):
    """name -> [FunctionDef…] for every def inside class Process (also under `if` blocks)"""
    cls = extract.find_class(tree, "Process")
    out = {}

    def walk(body):
        for st in body:
            if isinstance(st, ast.FunctionDef):
                out.setdefault(st.name, []).append(st)
            elif isinstance(st, ast.If):
                walk(st.body)
                walk(st.orelse)
    walk(cls.body)
    # aliases:  memory_full_info = memory_info
    for st in cls.body:
        if isinstance(st, ast.Assign) and isinstance(st.value, ast.Name) and st.value.id in out:
            for t in st.targets:
                if isinstance(t, ast.Name):
                    out.setdefault(t.id, out[st.value.id])
    return out


def helper_callers(tree, methods):
    """for every undecorated method: which methods call self.<it>(…)"""
    fns = class_functions(tree)
    present = {m for m, _ in methods}
    und = [m for m, d in methods if "wrap_exceptions" not in d]
    out = []
    for h in und:
        callers = []
        for name, defs in fns.items():
            if name not in present or name == h:
                continue
            for d in defs:
                if any(isinstance(n, ast.Attribute) and n.attr == h and isinstance(n.value, ast.Name)
                       and n.value.id == "self" for n in ast.walk(d)):
                    callers.append(name)
                    break
        out.append((h, sorted(set(callers))))
    return out


def inner_try(tree):
    """methods of class Process with a handler that can catch OSError / psutil errors inside the body"""
    out = []
    for name, defs in class_functions(tree).items():
        hit = False
        for d in defs:
            if d.name != name:
                continue   # alias
            for n in ast.walk(d):
                if isinstance(n, ast.Try):
                    for h in n.handlers:
                        if set(_names_of(h.type)) & OSERROR_CAPABLE:
                            hit = True
                if isinstance(n, ast.With):
                    for it in n.items:
                        if "wrap_exceptions" in extract.unparse(it.context_expr):
                            hit = True
        if hit:
            out.append(name)
    return sorted(out)


# ------------------------------------------------------------------ slot maps, feeds


def slot_maps(emu):
    out = []
    for n, v in vars(emu.mod).items():
        if n.endswith("_map") and isinstance(v, dict) and v and all(isinstance(k, str) and isinstance(i, int) for k, i in v.items()):
            out.append((n, sorted(v.items(), key=lambda kv: kv[1])))
    if not out:
        raise NotRecognised("no slot map in %s" % emu.mod.__name__)
    return sorted(out)


def _ntuple_classes(emu):
    d = {}
    for mod in (emu.common, emu.mod):
        for n, v in vars(mod).items():
            if isinstance(v, type) and issubclass(v, tuple) and hasattr(v, "_fields"):
                d[n] = v
    return d


def _slotref(n, maps):
    """X[<map>['slot']] -> 'map.slot'"""
    if isinstance(n, ast.Subscript) and isinstance(n.slice, ast.Subscript) and isinstance(n.slice.value, ast.Name) \
            and n.slice.value.id in maps and isinstance(n.slice.slice, ast.Constant):
        return "%s.%s" % (n.slice.value.id, n.slice.slice.value)
    return None


def _describe(n, maps, env):
    r = _slotref(n, maps)
    if r:
        return r
    if isinstance(n, ast.Constant):
        return "const:%r" % (n.value,)
    if isinstance(n, ast.UnaryOp) and isinstance(n.op, ast.USub) and isinstance(n.operand, ast.Constant):
        return "const:-%r" % (n.operand.value,)
    if isinstance(n, ast.Name) and n.id in env:
        return env[n.id]
    if isinstance(n, ast.BinOp) and isinstance(n.op, ast.Mult) and isinstance(n.right, ast.Constant):
        l = _describe(n.left, maps, env)
        if l != "expr":
            return "%s*%r" % (l, n.right.value)
    return "expr"


def feeds(emu, tree):
    """[(method, ntuple|'' , [(field|'#k', source)])] from the AST of each method of class Process"""
    maps = {n for n, _ in slot_maps(emu)}
    nts = _ntuple_classes(emu)
    present = set(vars(emu.mod.Process))
    out = []
    for name, defs in sorted(class_functions(tree).items()):
        if name not in present:
            continue
        for d in defs:
            if d.name != name:
                continue
            env = {}
            used = set()
            rows = []
            for n in ast.walk(d):
                if isinstance(n, ast.Assign) and len(n.targets) == 1 and isinstance(n.targets[0], ast.Name):
                    desc = _describe(n.value, maps, {})
                    if desc != "expr" and not desc.startswith("const:"):
                        env[n.targets[0].id] = desc
            for n in ast.walk(d):
                if isinstance(n, ast.Call):
                    fn = extract.dotted(n.func).split(".")[-1]
                    if fn in nts and not n.keywords and not any(isinstance(a, ast.Starred) for a in n.args):
                        fields = nts[fn]._fields
                        if len(n.args) != len(fields):
                            raise NotRecognised("%s(%d args) for %d fields in %s" % (fn, len(n.args), len(fields), name))
                        fl = []
                        for f, a in zip(fields, n.args):
                            desc = _describe(a, maps, env)
                            fl.append((f, desc))
                            for sub in ast.walk(a):
                                if _slotref(sub, maps):
                                    used.add(id(sub))
                                if isinstance(sub, ast.Name) and sub.id in env:
                                    used.add("var:" + sub.id)
                        rows.append((name, nts[fn].__name__, fl))
            loose = []
            refs = [n for n in ast.walk(d) if _slotref(n, maps)]
            refs.sort(key=lambda n: (n.lineno, n.col_offset))
            for n in refs:
                if id(n) in used:
                    continue
                # a reference assigned to a variable that feeds a namedtuple is consumed there
                consumed = False
                for a in ast.walk(d):
                    if isinstance(a, ast.Assign) and len(a.targets) == 1 and isinstance(a.targets[0], ast.Name) \
                            and ("var:" + a.targets[0].id) in used and any(s is n for s in ast.walk(a.value)):
                        consumed = True
                if not consumed:
                    loose.append(_slotref(n, maps))
            if loose:
                rows.append((name, "", [("#%d" % i, s) for i, s in enumerate(loose)]))
            out.extend(rows)
    return out


ONESHOT_HELPERS = {"oneshot", "_get_kinfo_proc", "_get_pidtaskinfo", "_proc_basic_info", "_proc_info"}


def _is_record_expr(n, recvars):
    """`self.<one-shot helper>()`, `cext.proc_*oneshot*/proc_info/proc_basic_info(...)`, or a variable bound to one"""
    if isinstance(n, ast.Name):
        return n.id in recvars
    if isinstance(n, ast.Call):
        d = extract.dotted(n.func)
        if d.startswith("self.") and d.split(".", 1)[1] in ONESHOT_HELPERS:
            return True
        if d in ("cext.proc_oneshot_info", "cext.proc_kinfo_oneshot", "cext.proc_pidtaskinfo_oneshot",
                 "cext.proc_basic_info", "cext.proc_info"):
            return True
    return False


def unnamed_record_refs(emu, tree):
    """[(method, expression)]: every read of a native one-shot record, on ANY path of ANY function of the module
    (main path, except-handler fall-backs, comprehensions, module-level helpers such as is_zombie), that is NOT of
    the shape `<record>[<map>['<slot name>']]` — and every use of a slot map that is not such a read. Empty means:
    all record reads go through a named slot, i.e. they are all rows of `feeds` (or probe reads of `status`)."""
    maps = {n for n, _ in slot_maps(emu)}
    out = []

    def scan(fn, label):
        recvars = set()
        for n in ast.walk(fn):
            if isinstance(n, ast.Assign) and len(n.targets) == 1 and isinstance(n.targets[0], ast.Name) \
                    and _is_record_expr(n.value, set()):
                recvars.add(n.targets[0].id)
        good_inner = set()
        for n in ast.walk(fn):
            if isinstance(n, ast.Subscript) and _is_record_expr(n.value, recvars):
                if _slotref(n, maps):
                    good_inner.add(id(n.slice))
                else:
                    out.append((label, extract.unparse(n)[:80]))
            # a record used in any way other than being subscripted, returned, asserted on or bound
        for n in ast.walk(fn):
            if isinstance(n, ast.Subscript) and isinstance(n.value, ast.Name) and n.value.id in maps \
                    and id(n) not in good_inner:
                out.append((label, extract.unparse(n)[:80]))
            if isinstance(n, ast.Starred) and _is_record_expr(n.value, recvars):
                out.append((label, extract.unparse(n)[:80]))
            if isinstance(n, (ast.For, ast.comprehension)) and _is_record_expr(n.iter, recvars):
                out.append((label, "for … in " + extract.unparse(n.iter)[:60]))
    for name, defs in sorted(class_functions(tree).items()):
        for d in defs:
            if d.name == name:
                scan(d, name)
    for st in tree.body:
        if isinstance(st, ast.FunctionDef):
            scan(st, "<module>." + st.name)
    return sorted(set(out))


def fallback_feeds(emu, tree):
    """[(method, 'map.slot')] for every named slot read that sits lexically inside an `except` handler of a
    method of class Process: the alternative ("slower fallback") paths"""
    maps = {n for n, _ in slot_maps(emu)}
    present = set(vars(emu.mod.Process))
    out = []
    for name, defs in sorted(class_functions(tree).items()):
        if name not in present:
            continue
        for d in defs:
            if d.name != name:
                continue
            refs = []
            for t in ast.walk(d):
                if isinstance(t, ast.ExceptHandler):
                    for n in ast.walk(t):
                        r = _slotref(n, maps)
                        if r:
                            refs.append((n.lineno, n.col_offset, r))
            for _, _, r in sorted(set(refs)):
                out.append((name, r))
    return out


def returns_ntuple(emu, tree):
    """(method, namedtuple constructor called in a `return`)"""
    nts = _ntuple_classes(emu)
    present = set(vars(emu.mod.Process))
    out = []
    for name, defs in sorted(class_functions(tree).items()):
        if name not in present:
            continue
        for d in defs:
            got = set()
            for n in ast.walk(d):
                if isinstance(n, ast.Return) and isinstance(n.value, ast.Call):
                    fn = extract.dotted(n.value.func).split(".")[-1]
                    if fn in nts:
                        got.add(nts[fn].__name__)
            for g in sorted(got):
                out.append((name, g))
    return out


# ------------------------------------------------------------------ C comments


C_ONESHOT = {
    "bsd.kinfo_proc_map": ("arch/bsd/proc.c", "psutil_proc_oneshot_info", None),
    "osx.kinfo_proc_map": ("arch/osx/proc.c", "psutil_proc_kinfo_oneshot", None),
    "osx.pidtaskinfo_map": ("arch/osx/proc.c", "psutil_proc_pidtaskinfo_oneshot", None),
    "sunos.proc_info_map": ("_psutil_sunos.c", "psutil_proc_basic_info", None),
    "aix.proc_info_map": ("_psutil_aix.c", "psutil_proc_basic_info", None),
    "windows.pinfo_map": ("arch/windows/proc_info.c", "psutil_proc_info", None),
}


def c_slot_labels(pkg_dir, rel, func, defines):
    """labels of the `// (type) label` comments of the Py_BuildValue call of `func`, in order"""
    with open(os.path.join(pkg_dir, rel), encoding="utf-8") as f:
        lines = E.cpp_active_lines(f.read(), defines)
    txt = "\n".join(lines)
    m = re.search(r"^%s\s*\(" % re.escape(func), txt, re.M)
    if not m:
        raise NotRecognised("%s not found in %s" % (func, rel))
    rest = txt[m.start():]
    b = rest.find("Py_BuildValue(")
    if b < 0:
        raise NotRecognised("Py_BuildValue not found in %s" % func)
    end = rest.find(");", b)
    call = rest[b:end]
    labels = []
    for line in call.split("\n")[1:]:
        s = line.strip()
        if not s or s.startswith("//") or s.startswith('"') or s.startswith("_Py_PARSE_PID"):
            continue
        mm = re.search(r"//\s*(?:\([^)]*\)\s*)?(.*\S)\s*$", s)
        if not mm:
            raise NotRecognised("argument without comment in %s: %r" % (func, s[:40]))
        labels.append(mm.group(1).strip())
    if not labels:
        raise NotRecognised("no labelled arguments in %s" % func)
    return labels


# ------------------------------------------------------------------ process status codes / zombie probe


def status_tables(emu, tree):
    """(all native status-code names, the ones mapped to STATUS_ZOMBIE) of the PROC_STATUSES dict that is live in the
    module loaded as this identity. Names come from the dict literal(s) in the source (`cext.<NAME>: _common.STATUS_…`);
    the live one is the literal whose evaluation equals the module's runtime dict."""
    live = getattr(emu.mod, "PROC_STATUSES", None)
    if live is None:
        return [], []
    cext = getattr(emu.mod, "cext")
    for n in ast.walk(tree):
        if isinstance(n, ast.Assign) and len(n.targets) == 1 and extract.dotted(n.targets[0]) == "PROC_STATUSES" \
                and isinstance(n.value, ast.Dict):
            names, zomb, ev = [], [], {}
            ok = True
            for k, v in zip(n.value.keys, n.value.values):
                kd, vd = extract.dotted(k), extract.dotted(v)
                if not kd.startswith("cext.") or not vd.startswith("_common.STATUS_") or not hasattr(cext, kd[5:]):
                    ok = False
                    break
                names.append(kd[5:])
                ev[getattr(cext, kd[5:])] = getattr(emu.common, vd[len("_common."):], None)
                if vd == "_common.STATUS_ZOMBIE":
                    zomb.append(kd[5:])
            if ok and ev == dict(live) and len(ev) == len(names):
                return sorted(names), sorted(zomb)
    raise NotRecognised("PROC_STATUSES literal of %s not recognised" % emu.ident)


def zombie_probe(tree, oneshot):
    """shape of the comparison in `is_zombie(pid)`: 'procStatuses' (PROC_STATUSES.get(st) == _common.STATUS_ZOMBIE)
    or 'eq:<NAME>' (st == cext.<NAME>); the rest of the function must be the known frame"""
    fn = extract.find_def(tree, "is_zombie")
    src = extract.unparse(fn)
    if "st = cext.%s(pid)[kinfo_proc_map['status']]" % oneshot not in src or not re.search(
            r"except OSError:\s+return False", src):
        return "other-frame"       # total: reported, not skipped (ZProbe.unknown)
    rets = [n for n in ast.walk(fn) if isinstance(n, ast.Return) and not (isinstance(n.value, ast.Constant))]
    if len(rets) != 1:
        return "other-returns:%d" % len(rets)
    u = extract.unparse(rets[0].value)
    if u == "PROC_STATUSES.get(st) == _common.STATUS_ZOMBIE":
        return "procStatuses"
    m = re.fullmatch(r"st == cext\.(\w+)", u)
    if m:
        return "eq:" + m.group(1)
    # total: a comparison of another shape is REPORTED (tag `other:<text>` → ZProbe.unknown in the model, so
    # C20_zombie_probe_sees_documented_codes fails with the new text) instead of skipping the fact
    return "other:" + u[:80]


# ------------------------------------------------------------------ front-end platform branches

PLATFORM_NAMES = {"LINUX", "WINDOWS", "OSX", "MACOS", "BSD", "FREEBSD", "OPENBSD", "NETBSD", "SUNOS", "AIX", "POSIX"}


def front_branches(init_tree):
    """[(qualified function/class, test)] for every `if` / conditional expression INSIDE a function or class body of
    psutil/__init__.py whose test names a platform constant, in source order"""
    out = []

    def visit(node, qual):
        for ch in ast.iter_child_nodes(node):
            q = qual
            if isinstance(ch, (ast.FunctionDef, ast.AsyncFunctionDef, ast.ClassDef)):
                q = qual + [ch.name]
            if isinstance(ch, (ast.If, ast.IfExp)) and qual:
                names = {n.id for n in ast.walk(ch.test) if isinstance(n, ast.Name)}
                if names & PLATFORM_NAMES:
                    out.append((ch.lineno, ch.col_offset, ".".join(qual), extract.unparse(ch.test)))
            visit(ch, q)
    visit(init_tree, [])
    if len(out) < 10:
        raise NotRecognised("only %d platform branches recognised in __init__.py" % len(out))
    return [(q, t) for _, _, q, t in sorted(out)]


# ------------------------------------------------------------------ docs


PLAT_TOKENS = {
    "linux": [], "macos": ["macos"], "osx": ["macos"], "windows": ["windows"], "freebsd": ["freebsd"],
    "openbsd": ["openbsd"], "netbsd": ["netbsd"], "bsd": ["freebsd", "openbsd", "netbsd"],
    "sunos": ["sunos"], "solaris": ["sunos"], "aix": ["aix"],
    "unix": ["freebsd", "openbsd", "netbsd", "macos", "sunos", "aix"],
    "posix": ["freebsd", "openbsd", "netbsd", "macos", "sunos", "aix"],
}


def _avail(text):
    """platform identities named by an 'Availability:' sentence / '(Linux, macOS)' suffix"""
    out = set()
    first = re.split(r"\.\s", text)[0]
    for tok in re.findall(r"[A-Za-z]+", first):
        t = tok.lower()
        if t in PLAT_TOKENS:
            out.update(PLAT_TOKENS[t])
        elif t in ("vista", "only", "percpu"):
            continue
    return out


def documented_api(index_rst):
    """ident -> sorted names documented as available there. Top-level functions/classes/constants
    as `name`, Process methods as `Process.name`."""
    lines = index_rst.split("\n")
    entries = []   # (name, availability set or None)
    n = len(lines)
    DIR = re.compile(r"^(\s*)\.\. (function|class|data|method|attribute)::\s*([A-Za-z_][\w.]*)(.*)$")
    cur_class = None
    header = None      # "Linux / FreeBSD:" style line in front of an indented group of `.. data::`
    i = 0
    while i < n:
        ln = lines[i]
        m = DIR.match(ln)
        if not m:
            mh = re.match(r"^([A-Z][A-Za-z]*(?: */ *[A-Z][A-Za-z]*)*)(?: specific)?:\s*$", ln)
            if mh:
                header = _avail(mh.group(1))
                if not header and "linux" not in mh.group(1).lower():
                    header = None
                elif "linux" in mh.group(1).lower() or header:
                    header = set(header)
            elif ln.strip():
                header = None
            i += 1
            continue
        indent, kind, name, rest = len(m.group(1)), m.group(2), m.group(3), m.group(4)
        if kind == "class" and indent == 0:
            cur_class = name
        elif indent == 0:
            cur_class = None
        group = [(name, rest)]
        j = i + 1
        if kind == "data":
            while j < n:
                mm = DIR.match(lines[j])
                if mm and mm.group(2) == "data" and len(mm.group(1)) == indent:
                    group.append((mm.group(3), mm.group(4)))
                    j += 1
                else:
                    break
        # body: until the next directive at the same or lower indentation / a label / a section underline
        k = j
        body = []
        while k < n:
            l2 = lines[k]
            m2 = DIR.match(l2)
            if m2 and (len(m2.group(1)) <= indent or kind == "class"):
                break
            if re.match(r"^\.\. _", l2) or re.match(r"^[=\-~^]{4,}\s*$", l2):
                break
            if indent > 0 and kind == "data" and l2.strip() and not l2.startswith(" "):
                break
            body.append(l2)
            k += 1
        avail = None
        for b in body:
            ma = re.match(r"^\s*Availability:\s*(.*)$", b)
            if ma:
                avail = _avail(ma.group(1))
                break
        internal = kind == "class" and "not supposed to be instantiated directly" in " ".join(x.strip() for x in body)
        for nm, rst in group:
            a = avail
            if kind == "data" and indent > 0 and header is not None:
                a = header
            ms = re.match(r"^\s*\(([^)]*)\)\s*$", rst)
            if ms and kind == "data":
                a = _avail(ms.group(1))
            if kind in ("method", "attribute"):
                if cur_class == "Process":
                    entries.append(("Process." + nm, a))
            elif not internal:
                entries.append((nm, a))
        i = j if kind == "data" else i + 1
    if len(entries) < 80:
        raise NotRecognised("docs/index.rst: only %d documented names recognised" % len(entries))
    out = {}
    for ident in E.IDENTS:
        names = sorted({nm for nm, a in entries if a is None or ident in a})
        out[ident] = names
    return out


def exposed_api(emu, documented):
    """which of the names the docs mention (for any platform) does the package expose here"""
    pkg = emu.pkg
    allnames = sorted({n for v in documented.values() for n in v})
    out = []
    for nm in allnames:
        if nm.startswith("Process."):
            if hasattr(pkg.Process, nm.split(".", 1)[1]):
                out.append(nm)
        elif hasattr(pkg, nm) and (nm in pkg.__all__):
            out.append(nm)
    return out


# ------------------------------------------------------------------ C sources: the Py_BuildValue CALL itself (round 2)
#
# `c_slot_labels` above reads the `// label` comments. The functions below parse the call: format string(s) and the
# argument expressions, after the mini preprocessor selected the identity's branch. A swapped C argument changes
# `nativeArgs`; theorem C20_native_slot_order compares argument i with the C expression the reviewed table
# `Spec.slotCExpr` gives for the slot the Python map puts at index i.

_CAST = re.compile(r"^\(\s*(?:unsigned\s+)?(?:int|long\s+long|long|float|double|pid_t|short|char)\s*\)\s*")
_FMT_UNITS = set("OilLdkKIbBhHsNfn")


def _strip_c_comments(txt):
    txt = re.sub(r"/\*.*?\*/", " ", txt, flags=re.S)
    return re.sub(r"//[^\n]*", " ", txt)


def _balanced_call(txt, start):
    """text between the parenthesis opened at txt[start] and its match (string literals respected)"""
    assert txt[start] == "("
    depth, i, n = 0, start, len(txt)
    while i < n:
        ch = txt[i]
        if ch == '"':
            j = i + 1
            while j < n and txt[j] != '"':
                j += 2 if txt[j] == "\\" else 1
            i = j + 1
            continue
        if ch == "(":
            depth += 1
        elif ch == ")":
            depth -= 1
            if depth == 0:
                return txt[start + 1:i]
        i += 1
    raise NotRecognised("unbalanced Py_BuildValue call")


def _split_top(args):
    out, depth, cur, i, n = [], 0, [], 0, len(args)
    while i < n:
        ch = args[i]
        if ch == '"':
            j = i + 1
            while j < n and args[j] != '"':
                j += 2 if args[j] == "\\" else 1
            cur.append(args[i:j + 1])
            i = j + 1
            continue
        if ch in "([{":
            depth += 1
        elif ch in ")]}":
            depth -= 1
        if ch == "," and depth == 0:
            out.append("".join(cur))
            cur = []
        else:
            cur.append(ch)
        i += 1
    out.append("".join(cur))
    return [a.strip() for a in out if a.strip()]


def c_buildvalue(pkg_dir, rel, func, defines, nth=0):
    """(format units, [argument expression]) of the nth Py_BuildValue call inside C function `func` of file `rel`,
    under the identity's defines. Expressions are normalised: comments dropped, one leading cast dropped, no blanks.
    The number of format units must equal the number of arguments."""
    with open(os.path.join(pkg_dir, rel), encoding="utf-8") as f:
        lines = E.cpp_active_lines(f.read(), defines)
    txt = "\n".join(lines)
    m = re.search(r"^%s\s*\(" % re.escape(func), txt, re.M)
    if not m:
        raise NotRecognised("%s not found in %s" % (func, rel))
    rest = txt[m.start():]
    nxt = re.search(r"^\}", rest, re.M)          # end of the function body
    body = _strip_c_comments(rest[:nxt.end()] if nxt else rest)
    pos = -1
    for _ in range(nth + 1):
        pos = body.find("Py_BuildValue(", pos + 1)
        if pos < 0:
            raise NotRecognised("Py_BuildValue #%d not found in %s" % (nth, func))
    parts = _split_top(_balanced_call(body, pos + len("Py_BuildValue")))
    if len(parts) < 2:
        raise NotRecognised("Py_BuildValue of %s has no arguments" % func)
    units = []
    for tok in re.findall(r'"[^"]*"|\w+', parts[0]):
        if tok.startswith('"'):
            s = tok[1:-1].strip()
            if s.startswith("(") and s.endswith(")"):
                s = s[1:-1]
            for ch in s:
                if ch not in _FMT_UNITS:
                    raise NotRecognised("format unit %r in %s" % (ch, func))
                units.append(ch)
        elif tok == "_Py_PARSE_PID":
            units.append("P")
        else:
            raise NotRecognised("format token %r in %s" % (tok, func))
    exprs = []
    for a in parts[1:]:
        a = _CAST.sub("", " ".join(a.split()))
        exprs.append(re.sub(r"\s+", "", a))
    if len(units) != len(exprs):
        raise NotRecognised("%s: %d format units for %d arguments" % (func, len(units), len(exprs)))
    return "".join(units), exprs


# native tuples unpacked positionally by the Python side (no slot map): (native function, identity) -> (C file, C function)
C_TUPLES = {
    ("proc_cred", "sunos"): ("_psutil_sunos.c", "psutil_proc_cred"),
    ("proc_cpu_times", "sunos"): ("_psutil_sunos.c", "psutil_proc_cpu_times"),
    ("proc_num_ctx_switches", "sunos"): ("_psutil_sunos.c", "psutil_proc_num_ctx_switches"),
    ("proc_cred", "aix"): ("_psutil_aix.c", "psutil_proc_cred"),
    ("proc_cpu_times", "aix"): ("_psutil_aix.c", "psutil_proc_cpu_times"),
    ("proc_num_ctx_switches", "aix"): ("_psutil_aix.c", "psutil_proc_num_ctx_switches"),
    ("proc_io_counters", "aix"): ("_psutil_aix.c", "psutil_proc_io_counters"),
    ("proc_times", "windows"): ("arch/windows/proc.c", "psutil_proc_times"),
    ("proc_memory_info", "windows"): ("arch/windows/proc.c", "psutil_proc_memory_info"),
    ("proc_io_counters", "windows"): ("arch/windows/proc.c", "psutil_proc_io_counters"),
}
# the Python name under which the stub native of a one-shot C function is called
ONESHOT_PYNAME = {"bsd.kinfo_proc_map": "proc_oneshot_info", "osx.kinfo_proc_map": "proc_kinfo_oneshot",
                  "osx.pidtaskinfo_map": "proc_pidtaskinfo_oneshot", "sunos.proc_info_map": "proc_basic_info",
                  "aix.proc_info_map": "proc_basic_info", "windows.pinfo_map": "proc_info"}


def native_args(pkg_dir):
    """[((key, ident), format units, [C expression])] for every one-shot record and every positional native tuple"""
    out = []
    for key, (rel, fn, _) in sorted(C_ONESHOT.items()):
        fam = key.split(".")[0]
        for ident in [i for i in E.IDENTS if FAMILY[i] == fam]:
            u, ex = c_buildvalue(pkg_dir, rel, fn, E.DEFINES[ident])
            out.append(((key, ident), u, ex))
    for (name, ident), (rel, fn) in sorted(C_TUPLES.items()):
        u, ex = c_buildvalue(pkg_dir, rel, fn, E.DEFINES[ident])
        out.append(((name, ident), u, ex))
    return out


def stub_record_lens(emus):
    """[((key, ident), length of the tuple the emulator's STUB native hands back)] — measured by calling the stub"""
    out = []
    todo = []
    for key in sorted(C_ONESHOT):
        fam = key.split(".")[0]
        for ident in [i for i in E.IDENTS if FAMILY[i] == fam]:
            todo.append(((key, ident), ONESHOT_PYNAME[key], ident))
    for (name, ident) in sorted(C_TUPLES):
        todo.append(((name, ident), name, ident))
    for k, pyname, ident in todo:
        emu = emus[ident]
        fn = getattr(emu.mod.cext, pyname, None)
        if fn is None:
            raise NotRecognised("stub native %s missing under %s" % (pyname, ident))
        obs, _ = emu.call(lambda: len(fn(42, E.PROCFS)) if ident in ("sunos", "aix") and pyname != "proc_io_counters"
                          else len(fn(42)))
        if obs["kind"] != "value":
            raise NotRecognised("stub native %s under %s: %r" % (pyname, ident, obs))
        out.append((k, obs["value"]))
    return out


# ------------------------------------------------------------------ docs: namedtuple FIELDS per platform (round 2)

_DIR = re.compile(r"^(\s*)\.\. (function|class|data|method|attribute)::\s*([A-Za-z_][\w.]*)(.*)$")
_BULLET = re.compile(r"^\s*[-*] \*\*(\w+)\*\*\s*:?\s*(?:\*?\(([^)]*)\)\*?)?")
_EXAMPLE = re.compile(r"\b([sp][a-z_]+)\((\w+)=")
# the docs' example of the system-wide net_connections() prints `pconn(…, pid=…)`; the type the function really
# returns (and the one that has the documented `pid` field) is `sconn`
DOC_TYPE_OVERRIDE = {"net_connections": "sconn"}


def _grid_tables(body):
    """[[header cells], [[row cells]…]] for every reST grid table in the lines of `body`"""
    out, i, n = [], 0, len(body)
    while i < n:
        if re.match(r"^\s*\+[-+]+\+\s*$", body[i]):
            rows = []
            j = i
            while j < n and re.match(r"^\s*[+|]", body[j]):
                if body[j].strip().startswith("|"):
                    rows.append([c.strip() for c in body[j].strip().strip("|").split("|")])
                j += 1
            if rows:
                out.append((rows[0], rows[1:]))
            i = j
        else:
            i += 1
    return out


def documented_fields(index_rst):
    """ident -> [(api name, namedtuple type named by the doc's example, [field…], ordered?)].
    Two sources inside the body of a `.. function::` / `.. method::` (class Process) directive:
      * bullets `- **field** *(Linux, BSD)*: …` (no order promised; no platform note = every platform),
      * a grid table whose header cells are platform names: one ORDERED column of field names per platform.
    The namedtuple type is the one the doc's own example output shows (`scputimes(user=…`)."""
    lines = index_rst.split("\n")
    n = len(lines)
    entries = []      # (api, nt, kind, payload)
    cur_class = None
    i = 0
    while i < n:
        m = _DIR.match(lines[i])
        if not m:
            i += 1
            continue
        indent, kind, name = len(m.group(1)), m.group(2), m.group(3)
        if kind == "class" and indent == 0:
            cur_class = name
        elif indent == 0:
            cur_class = None
        if kind not in ("function", "method") or (kind == "method" and cur_class != "Process"):
            i += 1
            continue
        k = i + 1
        body = []
        while k < n:
            m2 = _DIR.match(lines[k])
            if m2 and len(m2.group(1)) <= indent:
                break
            if re.match(r"^\.\. _", lines[k]) or re.match(r"^[=\-~^]{4,}\s*$", lines[k]):
                break
            body.append(lines[k])
            k += 1
        api = ("Process." + name) if kind == "method" else name
        nt = None
        for b in body:
            me = _EXAMPLE.search(b) if not b.lstrip().startswith(("-", "..", "* ")) else None
            if me:
                nt = me.group(1)
                break
        nt = DOC_TYPE_OVERRIDE.get(api, nt)
        bullets = []
        for b in body:
            mb = _BULLET.match(b)
            if mb:
                note = mb.group(2)
                av = None
                if note is not None:
                    named = _avail_strict(note)
                    if re.match(r"\s*all except\b", note):
                        av = set(E.IDENTS) - named
                    elif named or re.search(r"\blinux\b", note, re.I):
                        av = named
                bullets.append((mb.group(1), av))
        tables = []
        for hdr, rows in _grid_tables(body):
            cols = [_avail_strict(h) if h.lower() != "linux" else set() for h in hdr]
            if all(h.lower() == "linux" or c for h, c in zip(hdr, cols)):
                tables.append((hdr, cols, rows))
        if nt and (bullets or tables):
            entries.append((api, nt, bullets, tables))
        i += 1
    out = {}
    for ident in E.IDENTS:
        rows = []
        for api, nt, bullets, tables in entries:
            if tables:
                for hdr, cols, trs in tables:
                    for ci, c in enumerate(cols):
                        if ident in c:
                            fl = []
                            for r in trs:
                                cell = r[ci] if ci < len(r) else ""
                                mf = re.match(r"^(\w+)", cell)
                                if mf:
                                    fl.append(mf.group(1))
                            rows.append((api, nt, fl, True))
            fl = [f for f, a in bullets if a is None or ident in a]
            if bullets:
                rows.append((api, nt, fl, False))
        out[ident] = rows
    if sum(len(v) for v in out.values()) < 20:
        raise NotRecognised("docs/index.rst: only %d documented field lists recognised" % sum(len(v) for v in out.values()))
    return out


def _avail_strict(text):
    """platform identities named in a `*(Linux, BSD)*` note / table header (version numbers ignored)"""
    out = set()
    for tok in re.findall(r"[A-Za-z]+", text):
        t = tok.lower()
        if t in PLAT_TOKENS:
            out.update(PLAT_TOKENS[t])
    return out


def actual_fields(emu, nt):
    """runtime `_fields` of the namedtuple type `nt` as the package imported as this identity defines it"""
    for mod in (emu.mod, emu.common, emu.pkg):
        v = getattr(mod, nt, None)
        if isinstance(v, type) and issubclass(v, tuple) and hasattr(v, "_fields"):
            return list(v._fields)
    return None


def ident_fast_only(init_tree, win_tree):
    """`Process._get_ident`: does the `if WINDOWS:` branch ask the platform layer for `create_time(fast_only=True)`, and does
    `_pswindows.Process.create_time` re-raise a permission error when `fast_only` (instead of the slower fall-back)?"""
    fn = extract.find_def(init_tree, "_get_ident", cls="Process")
    branch = [n for n in ast.walk(fn) if isinstance(n, ast.If) and extract.unparse(n.test) == "WINDOWS"]
    if len(branch) != 1:
        raise NotRecognised("_get_ident: WINDOWS branch not found")
    calls = [n for st in branch[0].body for n in ast.walk(st)
             if isinstance(n, ast.Call) and extract.dotted(n.func).endswith("create_time")]
    if len(calls) != 1:
        raise NotRecognised("_get_ident: %d create_time calls in the WINDOWS branch" % len(calls))
    c = calls[0]
    kws = {k.arg: extract.unparse(k.value) for k in c.keywords}
    if extract.dotted(c.func) == "self._proc.create_time" and kws == {"fast_only": "True"} and not c.args:
        front = True
    elif not c.args and not kws:
        front = False
    else:
        raise NotRecognised("_get_ident: create_time call %s" % extract.unparse(c))
    pf = extract.find_def(win_tree, "create_time", cls="Process")
    args = [a.arg for a in pf.args.args]
    if args != ["self", "fast_only"] or [extract.unparse(d) for d in pf.args.defaults] != ["False"]:
        raise NotRecognised("_pswindows.create_time signature")
    reraise = False
    for n in ast.walk(pf):
        if isinstance(n, ast.If) and extract.unparse(n.test) == "is_permission_err(err)":
            first = n.body[0] if n.body else None
            if isinstance(first, ast.If) and extract.unparse(first.test) == "fast_only" and len(first.body) == 1 \
                    and isinstance(first.body[0], ast.Raise) and first.body[0].exc is None:
                reraise = True
    return front and reraise


# ------------------------------------------------------------------ seeded round 5 (C20-8): what the decorator's probe can reach

PROBE_SELF_OK = {"pid", "_name", "_ppid"}


def probe_stale_sources(tree):
    """Everything the `except` handlers of the module's error-translating decorators (every module-level function whose
    name starts with `wrap_exceptions`) can reach — transitively, through module-level functions and methods of any class
    of the module, by plain name or attribute name (so `Process._get_x.__wrapped__(self)` reaches `_get_x`) — that can
    hold the answer of an EARLIER native call: functions decorated with `memoize_when_activated` / `memoize`
    (reported by name) and attributes of `self` other than pid / _name / _ppid that are not methods (reported as
    `self.<attr>`). Empty = the probe that decides ZombieProcess vs NoSuchProcess asks the OS afresh."""
    mfuncs, methods, memo = {}, {}, set()

    def note(node, table):
        table.setdefault(node.name, []).append(node)
        for d in node.decorator_list:
            dn = d.func if isinstance(d, ast.Call) else d
            nm = dn.id if isinstance(dn, ast.Name) else dn.attr if isinstance(dn, ast.Attribute) else ""
            if nm.startswith("memoize"):
                memo.add(node.name)

    for node in tree.body:
        if isinstance(node, ast.FunctionDef):
            note(node, mfuncs)
        elif isinstance(node, ast.ClassDef):
            for sub in node.body:
                if isinstance(sub, ast.FunctionDef):
                    note(sub, methods)
    roots = [n for n in tree.body if isinstance(n, ast.FunctionDef) and n.name.startswith("wrap_exceptions")]
    if not roots:
        raise NotRecognised("no wrap_exceptions* decorator in the module")
    seen, stale, todo = set(), set(), []

    def scan(nodes, local):
        for top in nodes:
            for n in ast.walk(top):
                key = None
                if isinstance(n, ast.Name) and isinstance(n.ctx, ast.Load) and n.id in mfuncs and n.id not in local:
                    key = ("f", n.id)
                elif isinstance(n, ast.Attribute):
                    if n.attr in methods:
                        key = ("m", n.attr)
                    elif isinstance(n.value, ast.Name) and n.value.id == "self" and isinstance(n.ctx, ast.Load) \
                            and n.attr not in PROBE_SELF_OK:
                        stale.add("self." + n.attr)
                if key is not None and key not in seen:
                    seen.add(key)
                    todo.append(key)

    def locals_of(fn):
        out = {a.arg for a in fn.args.args + fn.args.kwonlyargs}
        for n in ast.walk(fn):
            if isinstance(n, ast.Name) and isinstance(n.ctx, ast.Store):
                out.add(n.id)
        return out

    for r in roots:
        seen.add(("f", r.name))
        loc = locals_of(r)
        for n in ast.walk(r):
            if isinstance(n, ast.ExceptHandler):
                scan(n.body, loc)
    while todo:
        kind, nm = todo.pop()
        if nm in memo:
            # what it hands back may be the answer of an earlier call; its body is not what the probe runs then
            stale.add(nm)
            continue
        for fn in (mfuncs if kind == "f" else methods)[nm]:
            scan(fn.body, locals_of(fn))
    return sorted(stale)
