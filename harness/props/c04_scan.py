"""C04 — the visit of ONE listed PID at the granularity of the OS accesses `Process.as_dict()` makes (seeded round 5,
third change: C04-6).

World dimension added here: the process changes state (alive -> zombie -> gone) BETWEEN the file reads of one
`as_dict()` scan — inside the single `oneshot()` block whose memoized readers keep the bytes read earlier — and what a
zombie's `/proc/<pid>/<file>` gives depends on the file and the kernel (content, empty, ESRCH, ENOENT, EACCES).

* translator: `scanSources` (for every as_dict name whose front-end getter only delegates to the Linux getter: where
  that getter's value comes from — the object, a memoized reader, its own read of one file, `_readlink`),
  `zombieProbe` (how `_is_zombie()` gets the state letter: its own read of `stat`, or through a memoized reader),
  `memoReaders` / `oneshotActivates`, `scanCode` (every statement of `wrap_exceptions.wrapper`, `_is_zombie`,
  `_raise_if_zombie`, `_readlink`: the functions Model/C04Scan.lean transcribes).
* correspondence: the real `psutil.process_iter(attrs=names)` over the complete fake /proc/<pid>; every OS access to the
  target PID's directory (`open`, `os.readlink`, `os.stat`/`os.lstat` behind `os.path.exists`/`lexists`, `os.listdir`)
  goes through a hook that first moves the process to the state scheduled for that access instant, then answers as the
  scheduled kernel flavour says, and logs the access. Compared with Model/C04Scan.lean (`visitScan`: outcome, keys,
  ad_value flags, the access log) and judged by a model-independent oracle written from the statement: a PID that is in
  the process table at every instant of the iteration is yielded (the very cached object), with exactly the requested
  keys, and no exception comes out of process_iter().
"""
import ast
import builtins
import itertools
import os
import re

from harness.common import extract
from harness.common.extract import NotRecognised
from harness.common.fakeproc import reset_psutil_state
from harness.props import c04_fullproc

# ------------------------------------------------------------------------------ translator

_PATH_RE = re.compile(r"^f['\"]\{self\._procfs_path\}/\{self\.pid\}/([A-Za-z_]+)['\"]$")
_OPENERS = {"open_binary", "open_text", "bcat", "cat", "open"}


def _methods(cls):
    out = []

    def walk(body):
        for n in body:
            if isinstance(n, ast.FunctionDef):
                out.append(n)
            elif isinstance(n, ast.If):
                walk(n.body)
                walk(n.orelse)
    walk(cls.body)
    return out


def _stmt_list(fn):
    from harness.props import c04
    return c04._stmt_list(fn)


def _proc_file(fn, node):
    """`f"{self._procfs_path}/{self.pid}/X"` (directly, or through a local name assigned once) -> "X", else None"""
    if isinstance(node, ast.Name):
        vals = [st.value for st in ast.walk(fn) if isinstance(st, ast.Assign) and len(st.targets) == 1
                and isinstance(st.targets[0], ast.Name) and st.targets[0].id == node.id]
        if len(vals) != 1:
            return None
        node = vals[0]
    m = _PATH_RE.match(ast.unparse(node))
    return m.group(1) if m else None


def _memo_readers(linux):
    """methods of `_pslinux.Process` decorated with `memoize_when_activated`, with the one file each reads"""
    cls = extract.find_class(linux, "Process")
    out = []
    for fn in _methods(cls):
        if "memoize_when_activated" in extract.decorators(fn):
            files = [_proc_file(fn, c.args[0]) for c in ast.walk(fn)
                     if isinstance(c, ast.Call) and extract.dotted(c.func).split(".")[-1] in _OPENERS and c.args]
            if len(files) != 1 or files[0] is None:
                raise NotRecognised("memoized reader %s: cannot tell the file it reads" % fn.name)
            out.append((fn.name, files[0]))
    if not out:
        raise NotRecognised("no memoized reader in _pslinux.Process")
    return sorted(out)


def _oneshot_activates(linux):
    fn = extract.find_def(linux, "oneshot_enter", cls="Process")
    out = []
    for c in ast.walk(fn):
        if isinstance(c, ast.Call) and isinstance(c.func, ast.Attribute) and c.func.attr == "cache_activate":
            out.append(extract.dotted(c.func.value).split(".")[-1])
    return sorted(out)


def _uses_memo(fn, readers):
    """names of memoized readers mentioned anywhere in `fn` (a call, `.__wrapped__`, an alias…)"""
    return sorted({n.attr for n in ast.walk(fn) if isinstance(n, ast.Attribute) and n.attr in readers})


def _platform_shape(fn, readers):
    """(kind, file) of a Linux getter: memo / read / readprobe / link / other"""
    if "wrap_exceptions" not in extract.decorators(fn)[:1]:
        return ("other", "")
    a = fn.args
    if len(a.posonlyargs + a.args) - len(a.defaults) != 1 or a.vararg or a.kwarg:
        return ("other", "")
    memo = _uses_memo(fn, dict(readers))
    opens, links, probes, other_self = [], [], 0, []
    for c in ast.walk(fn):
        if not isinstance(c, ast.Call):
            continue
        name = extract.dotted(c.func)
        last = name.split(".")[-1]
        if name.startswith("self."):
            if last in dict(readers):
                continue
            if last == "_readlink":
                links.append(c)
            elif last == "_raise_if_zombie":
                probes += 1
            else:
                other_self.append(last)
        elif last in _OPENERS and c.args:
            opens.append(_proc_file(fn, c.args[0]))
        elif last in ("listdir", "readlink", "stat", "lstat", "scandir"):
            other_self.append(last)
        elif name.startswith(("cext.", "cext_posix.", "resource.")):
            other_self.append(last)
    if other_self:
        return ("other", "")
    if len(memo) == 1 and not opens and not links and not probes:
        return ("memo", dict(readers)[memo[0]])
    if not memo and len(opens) == 1 and opens[0] is not None and not links:
        return ("readprobe" if probes else "read", opens[0])
    if not memo and not opens and len(links) == 1 and not probes:
        c = links[0]
        f = _proc_file(fn, c.args[0]) if c.args else None
        fb = [k for k in c.keywords if k.arg == "fallback"]
        if f is not None and len(fb) == 1 and isinstance(fb[0].value, ast.Constant):
            return ("link", f)
    return ("other", "")


def _front_delegate(fn):
    """`psutil.Process.<name>`: the Linux getter it only delegates to (`return self._proc.M()`, possibly turning
    ZombieProcess into a constant as `status()` does), else None"""
    body = [st for st in fn.body if not (isinstance(st, ast.Expr) and isinstance(st.value, ast.Constant))]

    def ret_call(st):
        if isinstance(st, ast.Return) and isinstance(st.value, ast.Call) and not st.value.args and not st.value.keywords:
            d = extract.dotted(st.value.func)
            if d.startswith("self._proc."):
                return d.split(".")[-1]
        return None
    if len(body) == 1:
        m = ret_call(body[0])
        if m:
            return m
        st = body[0]
        if isinstance(st, ast.Try) and len(st.body) == 1 and ret_call(st.body[0]) and len(st.handlers) == 1 \
                and not st.orelse and not st.finalbody:
            h = st.handlers[0]
            if h.type is not None and extract.dotted(h.type) == "ZombieProcess" and len(h.body) == 1 \
                    and isinstance(h.body[0], ast.Return) and isinstance(h.body[0].value, ast.Name):
                return ret_call(st.body[0])
    return None


def scan_sources(init, linux, valid, no_access):
    readers = _memo_readers(linux)
    front = {fn.name: fn for fn in _methods(extract.find_class(init, "Process"))}
    plat = {fn.name: fn for fn in _methods(extract.find_class(linux, "Process"))}
    out = []
    for nm in sorted(valid):
        if nm in no_access:
            out.append((nm, "obj", ""))
            continue
        fn = front.get(nm)
        m = _front_delegate(fn) if fn is not None else None
        if m is None or m not in plat:
            continue
        kind, f = _platform_shape(plat[m], readers)
        if kind != "other":
            out.append((nm, kind, f))
    return out


def zombie_probe(linux):
    readers = dict(_memo_readers(linux))
    fn = extract.find_def(linux, "_is_zombie", cls="Process")
    memo = _uses_memo(fn, readers)
    if memo:
        return "memo:" + ",".join(readers[m] for m in memo)
    files = [_proc_file(fn, c.args[0]) for c in ast.walk(fn)
             if isinstance(c, ast.Call) and extract.dotted(c.func).split(".")[-1] in _OPENERS and c.args]
    self_calls = [extract.dotted(c.func) for c in ast.walk(fn)
                  if isinstance(c, ast.Call) and extract.dotted(c.func).startswith("self.")]
    if len(files) == 1 and files[0] is not None and not self_calls:
        return "read:" + files[0]
    return "other"


def scan_code(linux):
    out = []
    wrap = extract.find_def(linux, "wrap_exceptions")
    inner = [n for n in wrap.body if isinstance(n, ast.FunctionDef)]
    if len(inner) != 1:
        raise NotRecognised("wrap_exceptions: expected one inner function")
    for label, fn in [("wrapper", inner[0]),
                      ("_is_zombie", extract.find_def(linux, "_is_zombie", cls="Process")),
                      ("_raise_if_zombie", extract.find_def(linux, "_raise_if_zombie", cls="Process")),
                      ("_readlink", extract.find_def(linux, "_readlink", cls="Process"))]:
        out += ["%s|%s" % (label, s) for s in _stmt_list(fn)]
    return out


def facts(snap, F, init, linux, valid, no_access):
    ls = extract.lean_str
    F.try_add("scanSources", "List (String × String × String)",
              lambda: extract.lean_list(scan_sources(init, linux, valid(), no_access()),
                                        lambda t: "(%s, %s, %s)" % (ls(t[0]), ls(t[1]), ls(t[2]))),
              "as_dict names whose front-end getter only delegates to the Linux getter, with where that getter's value comes "
              "from: obj (the Process object), memo (a memoize_when_activated reader of the file), read (its own open of the "
              "file), readprobe (the same + _raise_if_zombie() on an empty file), link (_readlink with a fallback)")
    F.try_add("zombieProbe", "String", lambda: ls(zombie_probe(linux)),
              "how _pslinux.Process._is_zombie() gets the state letter: read:<file> = its own read at that instant, "
              "memo:<file> = through a reader memoized inside oneshot()")
    F.try_add("memoReaders", "List (String × String)",
              lambda: extract.lean_list(_memo_readers(linux), lambda t: "(%s, %s)" % (ls(t[0]), ls(t[1]))),
              "methods of _pslinux.Process decorated with memoize_when_activated and the /proc/<pid>/ file each reads")
    F.try_add("oneshotActivates", "List String", lambda: extract.lean_list(_oneshot_activates(linux), ls),
              "the readers _pslinux.Process.oneshot_enter() activates")
    F.try_add("scanCode", "List String", lambda: extract.lean_list(scan_code(linux), ls),
              "every statement of wrap_exceptions' wrapper, Process._is_zombie, _raise_if_zombie and _readlink "
              "(function|depth:statement) — the code Model/C04Scan.lean transcribes")


# ------------------------------------------------------------------------------ the world: access hook

ALIVE, ZOMBIE, GONE = "alive", "zombie", "gone"
RANK = {ALIVE: 0, ZOMBIE: 1, GONE: 2}
# as_dict name -> the /proc/<pid>/ entry its getter reads (for choosing flavours / denials; the model has its own table)
FILE_OF = {"status": "stat", "cpu_num": "stat", "cpu_times": "stat", "terminal": "stat",
           "uids": "status", "gids": "status", "num_threads": "status", "num_ctx_switches": "status",
           "environ": "environ", "cmdline": "cmdline", "cwd": "cwd", "memory_info": "statm", "io_counters": "io",
           "pid": None, "create_time": None}
ALL_NAMES = sorted(FILE_OF)
# what a zombie's entry may give, per entry (an empty statm / io / status is not something a kernel serves)
FLAVOURS = {"environ": ["ok", "empty", "esrch", "enoent", "eacces"], "cmdline": ["ok", "empty", "esrch", "enoent", "eacces"],
            "cwd": ["ok", "esrch", "enoent", "eacces"], "statm": ["ok", "esrch", "enoent", "eacces"],
            "io": ["ok", "esrch", "enoent", "eacces"], "status": ["ok", "esrch", "enoent", "eacces"]}
TARGET = 5


class _Sent:
    def __repr__(self):
        return "<ad_value>"


SENT = _Sent()


class ScanHook:
    """every OS access to /proc/<target>/… during one iteration: move the process to the state scheduled for this access
    instant, answer as the scheduled kernel flavour says, log it"""

    def __init__(self, impl, pid, case):
        self.impl = impl
        self.pid = pid
        self.life = list(case["life"]) or [ALIVE]
        self.zres = dict(case.get("zres") or {})
        self.gesrch = list(case.get("gesrch") or [])
        self.deny = set(case.get("deny") or [])
        self.aempty = set(case.get("aempty") or [])
        self.j = 0
        self.log = []
        self.states = []
        self.busy = False
        self.prefix = os.path.join(impl.root, str(pid))
        self.empty = os.path.join(impl.stage, "empty-file")
        if not os.path.exists(self.empty):
            with open(self.empty, "wb"):
                pass
        self.saved = None

    # ---- state of the simulated process
    def state(self):
        p = self.impl.k.find_proc(self.pid)
        if p is None:
            return GONE
        return ZOMBIE if p["zombie"] else ALIVE

    def _move(self, want):
        cur = self.state()
        if RANK[want] <= RANK[cur]:
            return
        self.busy = True
        try:
            if want == ZOMBIE:
                self.impl.kev({"k": "zombie", "pid": self.pid})
            else:
                self.impl.kev({"k": "exit", "pid": self.pid})
        finally:
            self.busy = False

    def _rel(self, path):
        if self.busy or not isinstance(path, (str, bytes)):
            return None
        try:
            path = os.fsdecode(path)
        except Exception:  # noqa: BLE001
            return None
        if path == self.prefix:
            return ""
        if path.startswith(self.prefix + "/"):
            return path[len(self.prefix) + 1:]
        return None

    def _instant(self):
        j = self.j
        self.j += 1
        self._move(self.life[min(j, len(self.life) - 1)])
        st = self.state()
        self.states.append(st)
        return st, j

    def _outcome(self, st, j, rel):
        top = rel.split("/")[0]
        if st == ALIVE:
            return "eacces" if top in self.deny else "empty" if top in self.aempty else "ok"
        if st == ZOMBIE:
            return "ok" if top == "stat" else self.zres.get(top, "ok")
        return "esrch" if (j < len(self.gesrch) and self.gesrch[j]) else "enoent"

    def _serve(self, rel, path, real, args, kw, empty_ok=True):
        st, j = self._instant()
        r = self._outcome(st, j, rel)
        if r == "eacces":
            self.log.append([rel, r])
            raise PermissionError(13, "Permission denied", path)
        if r == "esrch":
            self.log.append([rel, r])
            raise ProcessLookupError(3, "No such process", path)
        if r == "enoent" and st != GONE:
            self.log.append([rel, r])
            raise FileNotFoundError(2, "No such file or directory", path)
        try:
            if r == "empty" and empty_ok:
                out = real(self.empty, *args, **kw)
            else:
                out = real(path, *args, **kw)
        except FileNotFoundError:
            self.log.append([rel, "enoent"])
            raise
        except PermissionError:
            self.log.append([rel, "eacces"])
            raise
        self.log.append([rel, r if r in ("ok", "empty") else "ok"])
        return out

    def install(self):
        real_open, real_readlink, real_stat, real_lstat = builtins.open, os.readlink, os.stat, os.lstat
        self.saved = (real_open, real_readlink, real_stat, real_lstat)
        hook = self

        def open_(file, *a, **kw):
            rel = hook._rel(file)
            if rel is None:
                return real_open(file, *a, **kw)
            return hook._serve(rel, file, real_open, a, kw)

        def readlink(path, *a, **kw):
            rel = hook._rel(path)
            if rel is None:
                return real_readlink(path, *a, **kw)
            return hook._serve(rel, path, real_readlink, a, kw, empty_ok=False)

        def exists_probe(real):
            def f(path, *a, **kw):
                rel = hook._rel(path)
                if rel is None or a or kw:
                    return real(path, *a, **kw)
                st, _ = hook._instant()
                hook.log.append(["exists", st != GONE])
                return real(path)
            return f
        builtins.open = open_
        os.readlink = readlink
        os.stat = exists_probe(real_stat)
        os.lstat = exists_probe(real_lstat)

    def uninstall(self):
        if self.saved is not None:
            builtins.open, os.readlink, os.stat, os.lstat = self.saved
            self.saved = None


# ------------------------------------------------------------------------------ running one case on the real code

def run_case(impl, case):
    """→ observation dict (everything the comparison and the oracle need)"""
    from harness.props import c04
    ps = impl.ps
    impl.reset()
    impl.want_full(True)
    impl.zombie_keeps_content = True
    try:
        impl.kev({"k": "spawn", "p": c04.mk_proc(1, 100)})
        impl.kev({"k": "spawn", "p": c04.mk_proc(TARGET, 105)})
        obs = {"warm_obj": None, "exc": None, "yielded": False, "same_obj": None, "items": None, "keys": None}
        warm = {}
        if not case.get("cold"):
            warm = {int(p.pid): p for p in ps.process_iter()}
        names = list(case["names"])
        obs["order"] = list(set(names))
        hook = ScanHook(impl, TARGET, case)
        ys = []
        held = list(case.get("held") or []) if TARGET in warm else []
        cm = None
        hook.install()
        try:
            if held:
                # the caller's own `with proc.oneshot():` around the cached object, and what it fetched in it before iterating
                cm = warm[TARGET].oneshot()
                cm.__enter__()
                for nm in held:
                    try:
                        getattr(warm[TARGET], nm)()
                    except Exception:  # noqa: BLE001 — the caller looks at each answer on its own
                        pass
            obs["listed_at_start"] = hook.state() != GONE
            try:
                if case.get("form") == "pos":
                    it = ps.process_iter(names, SENT)
                else:
                    it = ps.process_iter(attrs=names, ad_value=SENT)
                for p in it:
                    ys.append(p)
            except BaseException as e:  # noqa: BLE001 — every exception is an observable
                if isinstance(e, (KeyboardInterrupt, SystemExit)):
                    raise
                obs["exc"] = type(e).__name__
        finally:
            hook.uninstall()
            if cm is not None:
                try:
                    cm.__exit__(None, None, None)
                except Exception:  # noqa: BLE001
                    pass
        obs["log"] = hook.log
        obs["states"] = hook.states
        obs["final"] = hook.state()
        obs["pids"] = [int(p.pid) for p in ys]
        for p in ys:
            if int(p.pid) == TARGET:
                obs["yielded"] = True
                info = getattr(p, "info", None)
                if isinstance(info, dict):
                    obs["keys"] = sorted(info)
                    obs["items"] = sorted([k, v is SENT] for k, v in info.items())
                if TARGET in warm:
                    obs["same_obj"] = p is warm[TARGET]
                mine = p
        # the iteration after: a PID that never left the table keeps its object
        obs["after_exc"] = None
        obs["after_listed"] = None
        obs["after_same"] = None
        try:
            listed = [int(x) for x in ps.pids()]
            after = {int(p.pid): p for p in ps.process_iter()}
            obs["after_listed"] = TARGET in listed
            if TARGET in listed:
                obs["after_has"] = TARGET in after
                ref = warm.get(TARGET) if TARGET in warm else (mine if obs["yielded"] else None)
                if TARGET in after and ref is not None:
                    obs["after_same"] = after[TARGET] is ref
        except BaseException as e:  # noqa: BLE001
            if isinstance(e, (KeyboardInterrupt, SystemExit)):
                raise
            obs["after_exc"] = type(e).__name__
        return obs
    finally:
        impl.zombie_keeps_content = False
        impl.want_full(False)


def oracle(case, obs):
    """the statement on the implementation's own outputs (no model): notes of what is violated"""
    bad = []
    names = sorted(set(case["names"]))
    if obs["exc"] is not None:
        bad.append("process_iter(attrs=%r) raised %s (it may only skip a process that vanished)" % (case["names"], obs["exc"]))
        return bad
    listed_throughout = all(s != GONE for s in obs["states"]) and obs["final"] != GONE
    if listed_throughout:
        if not obs["yielded"]:
            bad.append("PID %d was in the process table at every instant of the iteration (states seen at its accesses: %s; a zombie "
                       "is still listed) but process_iter(attrs=%r) skipped it" % (TARGET, "/".join(obs["states"]) or "-", case["names"]))
        else:
            if obs["keys"] != names:
                bad.append("info keys %r, requested %r" % (obs["keys"], names))
            if obs["same_obj"] is False:
                bad.append("PID %d stayed listed but process_iter() yielded another object than the cached one" % TARGET)
        if obs["after_exc"] is not None:
            bad.append("the following process_iter() raised %s" % obs["after_exc"])
        elif obs["after_listed"]:
            if not obs.get("after_has"):
                bad.append("PID %d is listed but the following process_iter() does not yield it" % TARGET)
            elif obs["after_same"] is False:
                bad.append("PID %d never left the process table but the following process_iter() yields a NEW object "
                           "(its cache entry was dropped)" % TARGET)
    elif obs["yielded"] and obs["keys"] != names:
        bad.append("info keys %r, requested %r" % (obs["keys"], names))
    return bad


def driver_line(case, obs):
    return {"op": "scan", "names": obs["order"], "life": list(case["life"]) or [ALIVE],
            "zres": [{"f": f, "r": r} for f, r in sorted((case.get("zres") or {}).items())],
            "gesrch": [bool(x) for x in case.get("gesrch") or []], "deny": sorted(case.get("deny") or []),
            "cold": bool(case.get("cold")), "held": [] if case.get("cold") else list(case.get("held") or []),
            "aempty": sorted(case.get("aempty") or [])}


def impl_view(obs):
    if obs["exc"] is not None:
        out = {"kind": "exc", "exc": obs["exc"]}
    elif obs["yielded"]:
        out = {"kind": "yielded", "items": obs["items"]}
    else:
        out = {"kind": "skipped"}
    return {"out": out, "log": obs["log"], "used": len(obs["log"])}


def model_view(m):
    out = dict(m["out"])
    if out.get("kind") == "yielded":
        out["items"] = sorted(out["items"])
    return {"out": out, "log": m["log"], "used": m["used"]}


# ------------------------------------------------------------------------------ generators

def one_way(h, a, b):
    """alive for instants < a, zombie for a <= i < b, gone from b on; the list has h+1 entries, the last one persists"""
    return [ALIVE if i < a else ZOMBIE if i < b else GONE for i in range(h + 1)]


def uniform_flavour(r):
    return {f: (r if r in fl else "ok") for f, fl in FLAVOURS.items()}


REP = ["status", "num_threads", "environ", "cmdline", "cwd", "pid"]


def exhaustive_cases(h):
    """every subset of 1-2 representative names (one per getter shape) x every one-way life over h+1 instants x every
    uniform zombie flavour, cached PID"""
    out = []
    subsets = [[a] for a in REP] + [list(c) for c in itertools.combinations(REP, 2)]
    for names in subsets:
        if names == ["pid"]:
            continue
        for a in range(h + 1):
            for b in range(a, h + 2):
                for r in ["ok", "empty", "esrch", "enoent", "eacces"]:
                    if a == b and r != "ok":
                        continue            # never a zombie: the flavour is irrelevant
                    out.append({"names": names, "life": one_way(h, a, b), "zres": uniform_flavour(r), "gesrch": [],
                                "deny": [], "cold": False, "form": "kw"})
    return out


# names the caller may have fetched inside its own oneshot() block (memory_info is also memoized by the front-end there)
HELD_OK = [n for n in ALL_NAMES if n not in ("memory_info", "pid", "create_time")]


def exhaustive_held_cases(h):
    """the caller holds oneshot() and fetched one name (stat-backed / status-backed / an own read) x one requested name x
    every one-way life x every uniform flavour"""
    out = []
    for held in (["status"], ["num_threads"], ["environ"]):
        for nm in REP[:-1]:
            for a in range(h + 1):
                for b in range(a, h + 2):
                    for r in ["ok", "empty", "esrch", "enoent", "eacces"]:
                        if a == b and r != "ok":
                            continue
                        out.append({"names": [nm], "held": held, "life": one_way(h, a, b), "zres": uniform_flavour(r),
                                    "gesrch": [], "deny": [], "cold": False, "form": "kw"})
    return out


def corpus_cases():
    """the witnesses: a stat-backed name read first, then the process turns zombie, then an entry a zombie does not serve"""
    out = []
    for first in ["status", "cpu_times", "cpu_num", "terminal"]:
        for second, f in [("environ", "environ"), ("cwd", "cwd"), ("cmdline", "cmdline"), ("memory_info", "statm")]:
            order = list(set([first, second]))
            k = 1 if order[0] == first else (2 if second != "cwd" else 3)
            for r in FLAVOURS[f][1:]:
                out.append({"names": [first, second], "life": one_way(6, k, 8), "zres": {f: r}, "gesrch": [], "deny": [],
                            "cold": False, "form": "kw"})
                # the caller holds oneshot(), looked at `first` while the process was alive, then iterates for `second`
                out.append({"names": [second], "held": [first], "life": one_way(6, 1, 8), "zres": {f: r}, "gesrch": [],
                            "deny": [], "cold": False, "form": "kw"})
    # a live process whose cmdline / environ is EMPTY (kernel thread): _raise_if_zombie() is asked while it is alive, later
    # in the same block the process is a zombie and another entry fails
    for other, f in [("environ", "environ"), ("cwd", "cwd"), ("memory_info", "statm")]:
        for k in (1, 2, 3):
            for r in FLAVOURS[f][1:]:
                if r != "empty":
                    out.append({"names": ["cmdline", other], "aempty": ["cmdline"], "life": one_way(6, k, 8), "zres": {f: r, "cmdline": "empty"},
                                "gesrch": [], "deny": [], "cold": False, "form": "kw"})
    return out


def random_case(rng):
    names = rng.sample(ALL_NAMES, rng.choice([1, 2, 2, 3, 3, 4, 5]))
    if rng.random() < 0.5 and not any(FILE_OF[n] == "stat" for n in names):
        names.append(rng.choice(["status", "cpu_times", "cpu_num", "terminal"]))      # something the block caches
    h = rng.randrange(1, 11)
    a = rng.randrange(0, h + 1)
    b = rng.choice([h + 1, h + 1, rng.randrange(a, h + 2)])
    zres = {f: rng.choice(fl) for f, fl in FLAVOURS.items() if rng.random() < 0.7}
    cold = rng.random() < 0.3
    held = rng.sample(HELD_OK, rng.choice([1, 1, 2])) if (not cold and rng.random() < 0.35) else []
    return {"names": names, "held": held, "life": one_way(h, a, b), "zres": zres,
            "aempty": rng.choice([[], [], ["cmdline"], ["environ"], ["cmdline", "environ"]]),
            "gesrch": [rng.random() < 0.3 for _ in range(h + 1)] if rng.random() < 0.5 else [],
            "deny": rng.sample(["environ", "cmdline", "cwd", "statm", "io", "status"], rng.choice([0, 0, 0, 1, 2])),
            "cold": cold, "form": rng.choice(["kw", "kw", "pos"])}


# ------------------------------------------------------------------------------ the family

def judge_case(case, obs, m):
    """→ list of (kind, note, impl, model, spec)"""
    out = []
    iv = impl_view(obs)
    spec = m["spec"] if m is not None else None
    mv = model_view(m["model"]) if m is not None else None
    for note in oracle(case, obs):
        out.append(("spec", note, iv, mv, spec))
    if m is not None and not out:
        if spec.get("must_yield") and iv["out"]["kind"] != "yielded":
            out.append(("spec", "the process is never gone in the schedule, yet PID %d was not yielded" % TARGET, iv, mv, spec))
        elif not m["model"].get("unmodelled") and obs.get("listed_at_start", True) and iv != mv:
            out.append(("model", "visit of PID %d differs from Model/C04Scan.lean (outcome / ad_value flags / access log)" % TARGET,
                        iv, mv, spec))
    return out


def scan_cases(ctx, impl, res):
    rng = ctx.rng
    cases = [("scan_corpus", c) for c in corpus_cases()]
    h = 4 if ctx.tier == "quick" and ctx.budget_factor == 1 else 6
    ex = exhaustive_cases(h)
    cases += [("exhaustive_scan", c) for c in ex]
    exh = exhaustive_held_cases(h - 1)
    cases += [("exhaustive_scan_held", c) for c in exh]
    cases += [("scan_life", random_case(rng)) for _ in range(ctx.n(300, 8000))]
    obs_all, lines = [], []
    for tag, case in cases:
        obs = run_case(impl, case)
        obs_all.append(obs)
        lines.append(driver_line(case, obs))
    import time as _t
    t0 = _t.time()
    outs = ctx.driver().batch(lines) if lines else []
    res.extra["scan_driver_s"] = round(_t.time() - t0, 1)
    for (tag, case), obs, m in zip(cases, obs_all, outs):
        res.count("family:" + tag)
        inside = len(set(obs["states"])) > 1
        res.case(("scan", json_key(case)), nontrivial=inside)
        if inside:
            res.count("scan:state_change_between_two_accesses")
        if ZOMBIE in obs["states"] and ALIVE in obs["states"] and GONE not in obs["states"] and obs["final"] != GONE:
            res.count("scan:turned_zombie_inside_still_listed")
        if GONE in obs["states"]:
            res.count("scan:gone_inside")
        for e in obs["log"]:
            if e[0] != "exists":
                res.count("scan:access:" + str(e[1]))
        res.count("scan:out:" + impl_view(obs)["out"]["kind"])
        res.count("scan:accesses", len(obs["log"]))
        if case.get("held") and not case.get("cold"):
            res.count("scan:caller_holds_oneshot")
        if case.get("cold"):
            res.count("scan:object_created_by_the_visit")
        if case.get("aempty") and ALIVE in obs["states"]:
            res.count("scan:empty_entry_of_a_live_process")
        if m["model"].get("unmodelled"):
            res.count("scan:unmodelled_name")
        if not obs.get("listed_at_start", True):
            res.count("scan:gone_before_the_listing")      # reaped inside the caller's block: never visited, nothing to compare
        for kind, note, iv, mv, spec in judge_case(case, obs, m):
            res.disagree(kind, {"scan_case": case, "source": tag, "target_pid": TARGET}, iv, mv, spec, note=note)
    res.extra["scan_exhaustive"] = ("every subset of 1-2 of the representative names %r x every one-way life (alive -> zombie -> gone) over "
                                    "%d access instants x every uniform zombie flavour (content, empty, ESRCH, ENOENT, EACCES): %d visits"
                                    % (REP, h + 1, len(ex))
                                    + "; the same with the caller holding oneshot() after one fetch (stat-backed / status-backed / own read) "
                                      "over %d instants: %d visits" % (h, len(exh)))
    return len(lines)


def json_key(case):
    import json
    return json.dumps(case, sort_keys=True)


def still_fails(ctx, impl, case):
    obs = run_case(impl, case)
    if oracle(case, obs):
        return True
    m = ctx.driver().batch([driver_line(case, obs)])[0]
    return any(k == "spec" for k, *_ in judge_case(case, obs, m))


def shrink_case(ctx, impl, case):
    """greedy: fewer names, no denial / ESRCH-for-gone, flavours back to content, a shorter life"""
    cur = dict(case)

    def attempt(c):
        try:
            return still_fails(ctx, impl, c)
        except Exception:  # noqa: BLE001
            return False
    changed = True
    while changed:
        changed = False
        for nm in list(cur["names"]):
            if len(cur["names"]) > 1:
                c = dict(cur, names=[x for x in cur["names"] if x != nm])
                if attempt(c):
                    cur, changed = c, True
        for key, empty in (("deny", []), ("gesrch", []), ("aempty", [])):
            if cur.get(key):
                c = dict(cur, **{key: empty})
                if attempt(c):
                    cur, changed = c, True
        for f in list(cur.get("zres") or {}):
            z = dict(cur["zres"])
            if z.pop(f) != "ok" or True:
                c = dict(cur, zres=z)
                if attempt(c):
                    cur, changed = c, True
        for nm in list(cur.get("held") or []):
            c = dict(cur, held=[x for x in cur["held"] if x != nm])
            if attempt(c):
                cur, changed = c, True
        if cur.get("cold"):
            c = dict(cur, cold=False)
            if attempt(c):
                cur, changed = c, True
        if len(cur["life"]) > 1:
            for c in (dict(cur, life=cur["life"][:-1]), dict(cur, life=cur["life"][1:])):
                if attempt(c):
                    cur, changed = c, True
                    break
    return cur
