"""C17 extension round: generators + comparisons for the families of Model/C17Ext.lean.

Every family drives the REAL entry point in the worker sub-process (with the shim2 preload scripting getifaddrs(), the
SIOCGIF*/SIOCETHTOOL ioctls and sysinfo(); getpriority() on the sacrificial child with a stale errno on entry) and compares
the outcome with the Lean model and the Lean spec.
"""
import socket
import struct

from harness.props import c17_util as U

AF_INET, AF_INET6, AF_PACKET = 2, 10, 17
IFF_BROADCAST, IFF_POINTOPOINT = 0x2, 0x10
ERRNOS = [0, 1, 2, 3, 4, 11, 13, 22, 34, 95]          # stale values poisoned into errno before a call


# ------------------------------------------------------------------------------- getifaddrs entries

def _text6(addr, scope):
    """what glibc's getnameinfo(NI_NUMERICHOST) prints for a sockaddr_in6 (independent: inet_ntop + the scope rule)"""
    t = socket.inet_ntop(socket.AF_INET6, addr)
    if scope:
        linklocal = (addr[0] == 0xFE and (addr[1] & 0xC0) == 0x80) or (addr[0] == 0xFF and (addr[1] & 0x0F) == 0x02)
        name = None
        if linklocal:
            try:
                name = socket.if_indextoname(scope)
            except OSError:
                name = None
        t += "%" + (name if name is not None else str(scope))
    return t.encode()


def sock_in(rng, addr=None):
    a = addr if addr is not None else bytes(rng.choice([0, 1, 10, 127, 192, 255, rng.randrange(256)]) for _ in range(4))
    store = struct.pack("<H", AF_INET) + struct.pack(">H", rng.choice([0, 0, 80, 65535])) + a + bytes(rng.choice([0, 0, 255]) for _ in range(8))
    return {"fam": AF_INET, "store": store, "need": 16, "text": socket.inet_ntop(socket.AF_INET, a).encode()}


ADDR6 = [bytes(16), bytes(15) + b"\x01", bytes.fromhex("fe800000000000000000000000000001"), bytes.fromhex("ff020000000000000000000000000001"),
         bytes.fromhex("20010db8000000000000000000000001"), bytes.fromhex("00000000000000000000ffff01020304"),
         bytes.fromhex("20010db800010000000100000000ffff"), b"\xff" * 16, bytes.fromhex("00010000000000000001000000000000")]


def sock_in6(rng):
    a = rng.choice(ADDR6 + [bytes(rng.choice([0, 0, 0, 255, rng.randrange(256)]) for _ in range(16))])
    scope = rng.choice([0, 0, 0, 1, 4, 999999])
    store = struct.pack("<H", AF_INET6) + struct.pack(">HI", rng.choice([0, 443]), 0) + a + struct.pack("<I", scope)
    assert len(store) == 28
    return {"fam": AF_INET6, "store": store, "need": 28, "text": _text6(a, scope)}


def sock_ll(rng, halen=None):
    h = halen if halen is not None else rng.choice([0, 1, 6, 6, 6, 8, 16, 20, 24])
    addr = bytes(rng.choice([0, 0xFF, 0x80, 0x7F, rng.randrange(256)]) for _ in range(h))
    store = struct.pack("<HHiHBB", AF_PACKET, rng.randrange(65536), rng.randrange(1, 9), rng.choice([1, 772, 32]), rng.randrange(8), h) + addr
    if h < 8 and rng.random() < 0.5:
        store += bytes(rng.randrange(256) for _ in range(8 - h))           # the declared sll_addr[8], stale bytes behind the address
    return {"fam": AF_PACKET, "store": store, "need": 0, "text": None}


NAMES = [b"lo", b"eth0", b"ifb0", b"wlp3s0", b"e" * 15, b"x" * 40, b"\xc3\xa9th0", b"eth0:1", b"a"]
FLAGSETS = [0, IFF_BROADCAST, IFF_POINTOPOINT, IFF_BROADCAST | IFF_POINTOPOINT, 0x1043, 0x1091, 0x49, 0xFFFF, 0x10000, 0x10002, 0x10010, 1, 0xFFED]

IF_FAMILIES = ["inet", "inet6", "packet", "nulladdr", "otherfam", "mixed", "big"]


def gen_ifaddrs_case(rng, fam):
    n = {"big": rng.randrange(30, 80)}.get(fam, rng.choice([1, 1, 2, 3, 6]))
    es = []
    for _ in range(n):
        kind = fam if fam not in ("big",) else rng.choice(["inet", "inet6", "packet", "nulladdr"])
        mk = {"inet": sock_in, "inet6": sock_in6, "packet": sock_ll}.get(kind)
        e = {"name": rng.choice(NAMES), "flags": rng.choice(FLAGSETS + [rng.randrange(1 << 17)]), "addr": None, "netmask": None, "ifu": None}
        if kind == "nulladdr":
            e["netmask"] = rng.choice([None, sock_in(rng)])
            e["ifu"] = rng.choice([None, sock_in(rng)])
        elif kind == "otherfam":
            f = rng.choice([0, 1, 16, 3, 65535])
            e["addr"] = {"fam": f, "store": struct.pack("<H", f) + bytes(rng.randrange(256) for _ in range(rng.choice([0, 14, 26]))), "need": 0, "text": None}
            e["netmask"] = rng.choice([None, sock_in(rng)])
        elif kind == "mixed":
            a, b = rng.choice([(sock_in, sock_in6), (sock_in6, sock_in)])
            e["addr"] = a(rng)
            e["netmask"] = rng.choice([None, b(rng), a(rng)])
            e["ifu"] = rng.choice([None, b(rng), a(rng)])
        else:
            e["addr"] = mk(rng)
            e["netmask"] = None if (kind == "packet" or rng.random() < 0.2) else mk(rng)
            e["ifu"] = None if rng.random() < 0.3 else mk(rng)
        es.append(e)
    return {"family": fam, "entries": es}


def _sock_json(s):
    return None if s is None else {"fam": s["fam"], "store": s["store"].hex(), "need": s["need"], "text": None if s["text"] is None else s["text"].hex()}


def ifaddrs_line(case):
    return {"op": "ifaddrs", "entries": [{"name": e["name"].hex(), "flags": e["flags"], "addr": _sock_json(e["addr"]),
                                          "netmask": _sock_json(e["netmask"]), "ifu": _sock_json(e["ifu"])} for e in case["entries"]]}


def ifaddrs_cmd(case, errno_in):
    def h(s):
        return None if s is None else s["store"].hex()
    return {"cmd": "ifaddrs", "errno": errno_in,
            "entries": [{"name": e["name"].hex(), "flags": e["flags"], "addr": h(e["addr"]), "netmask": h(e["netmask"]), "ifu": h(e["ifu"])} for e in case["entries"]]}


def _rows(js):
    return [[(None if v is None else (v["s"] if "s" in v else v["i"])) for v in r] for r in js]


def compare_ifaddrs(run, case, errno_in, m):
    res = run.res
    inp = {"kind": "ifaddrs", "line": ifaddrs_line(case), "errno": errno_in, "family": case["family"]}
    rep = run.ask(ifaddrs_cmd(case, errno_in), inp)
    if rep is None:
        return
    res.count("ifaddrs_family:" + case["family"])
    res.count("ifaddrs:entries", len(case["entries"]))
    mo, sp = _rows(m["model"]["rows"]), _rows(m["spec"]["rows"])
    res.case(("ifaddrs", repr(inp["line"])), nontrivial=bool(mo))
    # "mixed" lists (a netmask of another family than its address) are outside getifaddrs' contract: rows are still compared
    if case["family"] != "mixed" and not m["model"]["reads_ok"]:
        res.disagree("spec", inp, rep, m["model"], None, note="model of the current source: psutil_convert_ipaddr reads past the sockaddr object getifaddrs() returned")
        return
    if rep.get("kind") != "ok":
        res.disagree("spec", inp, rep, mo[:6], sp[:6], note="net_if_addrs() raised on a scripted getifaddrs() list")
        return
    if case["family"] != "mixed" and rep["rows"] != sp:
        res.disagree("spec", inp, rep["rows"][:6], mo[:6], sp[:6],
                     note="net_if_addrs() differs from getifaddrs(3)'s reading of the list (name, family, address, netmask, broadcast iff IFF_BROADCAST, ptp iff IFF_POINTOPOINT and not broadcast)")
        return
    if rep["rows"] != mo:
        res.disagree("model", inp, rep["rows"][:6], mo[:6], sp[:6], note="net_if_addrs() differs from the Lean model")


def replay_ifaddrs(run, drv, inp):
    line = inp["line"]
    case = {"family": inp.get("family", "replay"), "entries": []}
    for e in line["entries"]:
        def s(j):
            return None if j is None else {"fam": j["fam"], "store": bytes.fromhex(j["store"]), "need": j["need"],
                                           "text": None if j["text"] is None else bytes.fromhex(j["text"])}
        case["entries"].append({"name": bytes.fromhex(e["name"]), "flags": e["flags"], "addr": s(e["addr"]), "netmask": s(e["netmask"]), "ifu": s(e["ifu"])})
    compare_ifaddrs(run, case, inp.get("errno"), drv.batch([line])[0])


# ------------------------------------------------------------------------------- ifreq entry points

IFR_NAMES = [b"lo", b"eth0", b"a" * 14, b"a" * 15, b"a" * 16, b"a" * 17, b"b" * 31, b"n" * 300, b"z" * 5000, b"\xc3\xa9" * 7 + b"x", b"\xc3\xa9" * 8,
             b"eth0:1", b"x", b"%s%n"]


def gen_ifr_case(rng):
    fail = rng.random() < 0.25
    return {"name": rng.choice(IFR_NAMES), "ret": -1 if fail else 0, "err": rng.choice([19, 95, 22, 1, 14]) if fail else 0,
            "mtu": rng.choice([0, 1, 1500, 9000, 65536, 2**31 - 1, -1, -2**31]),
            "flags": rng.choice([0, 1, 0x40, 0x41, 0x1043, 0x8000, 0xFFFF, rng.randrange(65536)]),
            "lo": rng.choice([0, 10, 1000, 0x7FFF, 0x8000, 0xFFFF, rng.randrange(65536)]),
            "hi": rng.choice([0, 0, 1, 0x7FFF, 0x8000, 0xFFFF, rng.randrange(65536)]),
            "duplex": rng.choice([0, 1, 255, 7]), "errno": rng.choice(ERRNOS)}


def ifr_lines(c):
    return [{"op": "ifr", "name": c["name"].hex(), "flags": c["flags"]}, {"op": "ethspeed", "hi": c["hi"], "lo": c["lo"]}]


def compare_ifr(run, c, m_ifr, m_eth):
    res = run.res
    inp = {"kind": "ifr", "case": dict(c, name=c["name"].hex())}
    rep = run.ask(dict(c, cmd="ifr", name=c["name"].hex()), inp)
    if rep is None:
        return
    res.count("ifr_calls")
    res.count("ifr:" + ("ioctl_fails" if c["ret"] else "ioctl_ok"))
    if len(c["name"]) >= 16:
        res.count("ifr:name_cut")
    res.case(("ifr", repr(inp["case"])), nontrivial=True)
    mo, sp = m_ifr["model"], m_ifr["spec"]
    if mo != sp or m_eth["model"] != m_eth["spec"]:
        res.disagree("spec", inp, rep, [mo, m_eth["model"]], [sp, m_eth["spec"]],
                     note="model of the current source violates the specification (bounded, terminated copy into ifr_name[IFNAMSIZ]; flag names; running bit; 32-bit speed)")
        return
    want_name = bytes.fromhex(mo["ifr_name"])
    raw = want_name + b"\0" * (16 - len(want_name))
    if len(rep["ioctls"]) != 4 or any(bytes.fromhex(x[1]) != raw for x in rep["ioctls"]):
        res.disagree("spec", inp, rep["ioctls"], raw.hex(), raw.hex(),
                     note="the ifr_name handed to ioctl() is not the NIC name cut to IFNAMSIZ-1 bytes, NUL-terminated and NUL-padded")
        return

    def cls(o):
        return "value" if o.get("kind") == "value" else ("OSError" if o.get("oserror") else o.get("exc"))
    if c["ret"] == -1:
        soft = c["err"] in (95, 22)
        want = {"mtu": "OSError", "flags": "OSError", "running": "OSError", "duplex_speed": "value" if soft else "OSError"}
        got = {k: cls(rep[k]) for k in want}
        if got != want or (soft and rep["duplex_speed"]["value"] != [255, 0]):
            res.disagree("model", inp, rep, want, None, note="failing ioctl: expected OSError (duplex/speed: [255, 0] for EOPNOTSUPP/EINVAL)")
        elif any(rep[k].get("errno") not in (None, U_ERRNAME.get(c["err"])) for k in ("mtu", "running") if cls(rep[k]) == "OSError"):
            res.disagree("model", inp, rep, want, None, note="failing ioctl: OSError carries another errno than the ioctl's")
        return
    speed = m_eth["model"].get("mbps")
    want = {"mtu": c["mtu"], "flags": mo["names"], "running": mo["running"], "duplex_speed": [c["duplex"], speed]}
    got = {k: (rep[k]["value"] if rep[k].get("kind") == "value" else rep[k]) for k in want}
    if got != want:
        res.disagree("spec", inp, got, want, want,
                     note="net_if_mtu / net_if_flags / net_if_is_running / net_if_duplex_speed differ from the scripted kernel answer as the model decodes it")


import errno as _errno
U_ERRNAME = {k: _errno.errorcode[k] for k in (19, 95, 22, 1, 14)}


# ------------------------------------------------------------------------------- sysinfo

SYS_EDGE = [0, 1, 4096, 2**31 - 1, 2**31, 2**32 - 1, 2**32, 2**32 + 1, 2**63 - 1, 2**63, 2**64 - 1]
UNIT_EDGE = [0, 1, 4096, 65536, 2**31 - 1, 2**31, 2**32 - 1]


def gen_sysinfo_case(rng):
    return {"vals": [rng.choice(SYS_EDGE + [rng.randrange(2**64)]) for _ in range(6)] + [rng.choice(UNIT_EDGE + [rng.randrange(2**32)])],
            "errno": rng.choice(ERRNOS)}


def compare_sysinfo(run, c, m):
    res = run.res
    inp = {"kind": "sysinfo", "vals": c["vals"], "errno": c["errno"]}
    rep = run.ask({"cmd": "sysinfo", "vals": c["vals"], "errno": c["errno"]}, inp)
    if rep is None:
        return
    res.count("sysinfo_calls")
    res.case(("sysinfo", tuple(c["vals"])), nontrivial=True)
    if m["model"] != m["spec"]:
        res.disagree("spec", inp, rep, m["model"], m["spec"],
                     note="model of the current source: a Py_BuildValue format unit of linux_sysinfo() does not match the width of the struct sysinfo member it is given")
        return
    if rep.get("kind") != "value" or rep["value"] != m["spec"]:
        res.disagree("spec", inp, rep, m["model"], m["spec"], note="linux_sysinfo() differs from the struct sysinfo the kernel filled in")


# ------------------------------------------------------------------------------- getpriority / errno

def getprio_grid():
    out = []
    for nice in (-20, -2, -1, 0, 1, 19):
        for e in (0, 1, 3, 13, 22):
            out.append({"target": "child", "nice": nice, "errno": e})
    for e in (0, 3, 22):
        out.append({"target": "nopid", "nice": 0, "errno": e})
    return out


def getprio_line(c):
    if c["target"] == "child":
        return {"op": "getprio", "errno_in": c["errno"], "nice": c["nice"]}
    return {"op": "getprio", "errno_in": c["errno"], "kerr": 3}


def compare_getprio(run, c, m):
    res = run.res
    inp = {"kind": "getprio", "case": c}
    rep = run.ask(dict(c, cmd="getprio"), inp)
    if rep is None:
        return
    res.case(("getprio", repr(c)), nontrivial=True)
    if c["target"] == "child" and rep.get("nice_set") != c["nice"]:
        res.count("getprio:nice_not_settable")
        return
    res.count("getprio_grid")
    mo, sp = m["model"], m["spec"]
    got = {"kind": "value", "value": rep["value"]} if rep.get("kind") == "value" else {"kind": "exc", "exc": "OSError" if rep.get("oserror") else rep.get("exc"), "errno": rep.get("errno_num")}
    if mo != sp:
        res.disagree("spec", inp, got, mo, sp,
                     note="model of the current source: getpriority()'s result depends on the errno value on entry (a legitimate return value taken for an error, or the reverse)")
        return
    if got != sp:
        res.disagree("spec", inp, got, mo, sp, note="posix.getpriority() with a stale errno=%d on entry differs from the kernel's answer" % c["errno"])


# ------------------------------------------------------------------------------- mount lines through the Lean getmntent model

def mnt_line_for(mounts):
    lines = mounts.split(b"\n")
    last_term = mounts.endswith(b"\n") or mounts == b""
    if lines and lines[-1] == b"":
        lines = lines[:-1]
    return {"op": "mnt", "lines": [l.hex() for l in lines], "last_term": bool(last_term)}


def gen_mnt_entry(rng):
    def field(first_ok=True, utf8=False):
        n = rng.choice([1, 1, 3, 8, 40])
        alpha = [32, 9, 10, 92, 35, 48, 52, 49, 51, 47, 97, 65] + ([] if utf8 else [255, 128]) + [rng.randrange(1, 128 if utf8 else 256)]
        b = bytes(rng.choice(alpha) for _ in range(n))
        return b
    dev = field()
    while dev[:1] == b"#":
        dev = field()
    return [dev, field(), field(utf8=True), field(utf8=True)]
