"""C17 helpers: sub-process worker handle, sanitizer build, independent record codecs."""
import json
import os
import shutil
import struct
import subprocess
import tempfile

from harness.common import build
from harness.common.build import InfraError, PY

HERE = os.path.dirname(os.path.abspath(__file__))
WORKER = os.path.join(HERE, "c17_worker.py")
SAN_CFLAGS = "-fsanitize=address,undefined -fno-omit-frame-pointer -fno-sanitize-recover=undefined"


class Crash(Exception):
    def __init__(self, status, stderr_tail):
        Exception.__init__(self, "worker died: %s" % status)
        self.status = status
        self.stderr_tail = stderr_tail


class Worker:
    """One sub-process running c17_worker.py against a psutil package dir."""

    def __init__(self, pkg_parent, env_extra=None, timeout=20):
        self.pkg_parent = pkg_parent
        self.env_extra = env_extra or {}
        self.timeout = timeout
        self.scratch = tempfile.mkdtemp(prefix="psv-c17w-")
        self.proc = None
        self.errf = None
        self.restarts = 0
        self.sent = 0

    def start(self):
        env = dict(os.environ)
        env.pop("PYTHONPATH", None)
        env.update({"PYTHONUTF8": "1", "PYTHONDONTWRITEBYTECODE": "1", "PYTHONHASHSEED": "0"})
        env.update(self.env_extra)
        env["C17_SHIM_DIR"] = self.scratch          # script files of the shim2 preload (inactive while absent)
        self.errf = open(os.path.join(self.scratch, "stderr.txt"), "wb")
        self.proc = subprocess.Popen([PY, "-X", "utf8", WORKER, self.pkg_parent, self.scratch], env=env,
                                     stdin=subprocess.PIPE, stdout=subprocess.PIPE, stderr=self.errf,
                                     text=True, bufsize=1)

    def _stderr_tail(self):
        try:
            self.errf.flush()
            with open(os.path.join(self.scratch, "stderr.txt"), "rb") as f:
                data = f.read()
            return data[-3000:].decode("utf-8", "replace")
        except OSError:
            return ""

    def ask(self, cmd, during=None):
        """Send one command; return the reply. Raises Crash when the worker dies or hangs on it.
        `during(pid)` runs in THIS process after the command was sent and before the reply is awaited (scripted feeding of
        the pipes the worker's threads read from)."""
        import select
        if self.proc is None or self.proc.poll() is not None:
            self.start()
        self.sent += 1
        try:
            self.proc.stdin.write(json.dumps(cmd) + "\n")
            self.proc.stdin.flush()
        except (BrokenPipeError, OSError):
            return self._died("broken pipe")
        if during is not None:
            during(self.proc.pid)
        r, _, _ = select.select([self.proc.stdout], [], [], self.timeout)
        if not r:
            self.proc.kill()
            self.proc.wait()
            return self._died("timeout after %ss (killed)" % self.timeout)
        line = self.proc.stdout.readline()
        if not line:
            self.proc.wait()
            return self._died("exit status %s" % self.proc.returncode)
        rep = json.loads(line)
        if "worker_error" in rep:
            raise InfraError("C17 worker bug: " + rep["worker_error"])
        return rep

    def _died(self, status):
        tail = self._stderr_tail()
        self.proc = None
        self.restarts += 1
        try:
            self.errf.close()
        except Exception:
            pass
        raise Crash(status, tail)

    def stderr_reports(self):
        """sanitizer lines printed so far without killing the worker (should be none)"""
        t = self._stderr_tail()
        return [l for l in t.split("\n") if "runtime error:" in l or "AddressSanitizer" in l]

    def close(self):
        if self.proc is not None and self.proc.poll() is None:
            try:
                self.proc.stdin.close()
                self.proc.wait(timeout=10)
            except Exception:
                self.proc.kill()
        try:
            if self.errf:
                self.errf.close()
        except Exception:
            pass
        shutil.rmtree(self.scratch, ignore_errors=True)


def sanitizer_env():
    rt = subprocess.run(["clang", "-print-file-name=libclang_rt.asan-x86_64.so"], stdout=subprocess.PIPE, text=True).stdout.strip()
    if not os.path.isfile(rt):
        raise InfraError("ASan runtime not found: %r" % rt)
    return {"LD_PRELOAD": rt, "ASAN_OPTIONS": "detect_leaks=0:abort_on_error=0:exitcode=87",
            "UBSAN_OPTIONS": "halt_on_error=1:print_stacktrace=1:exitcode=88"}


def sanitizer_package(snap):
    """A copy of the snapshot's psutil package whose extension is the ASan+UBSan build."""
    so_dir, cached = build.build_ext(snap.repo, env_extra={"CC": "clang", "CFLAGS": SAN_CFLAGS}, tag="asan-ubsan")
    parent = tempfile.mkdtemp(prefix="psv-c17san-")
    pkg = os.path.join(parent, "psutil")
    shutil.copytree(snap.pkg, pkg, ignore=lambda d, names: {n for n in names if n.endswith(".so")})
    for f in os.listdir(so_dir):
        shutil.copy2(os.path.join(so_dir, f), os.path.join(pkg, f))
    return parent, cached


SHIM_C = r"""
#define _GNU_SOURCE
#include <errno.h>
#include <sched.h>
#include <stdlib.h>
#include <dlfcn.h>
/* sched_getaffinity() answers EINVAL while the set is smaller than C17_NEED_BITS bits
   (C17_NEED_BITS=never: always) -- a kernel with more CPUs than the caller guessed. */
int sched_getaffinity(pid_t pid, size_t size, cpu_set_t *set) {
    static int (*real)(pid_t, size_t, cpu_set_t *);
    const char *need = getenv("C17_NEED_BITS");
    if (!real) real = dlsym(RTLD_NEXT, "sched_getaffinity");
    if (need) {
        if (need[0] == 'n' || (unsigned long long)size * 8ULL < strtoull(need, 0, 10)) { errno = EINVAL; return -1; }
    }
    return real(pid, size, set);
}
"""


def build_shim():
    d = os.path.join(build.CACHE, "c17shim")
    os.makedirs(d, exist_ok=True)
    so = os.path.join(d, "shim.so")
    src = os.path.join(d, "shim.c")
    if not os.path.exists(so) or not os.path.exists(src) or open(src).read() != SHIM_C:
        with open(src, "w") as f:
            f.write(SHIM_C)
        r = subprocess.run(["gcc", "-shared", "-fPIC", "-O1", "-o", so + ".tmp", src, "-ldl"],
                           stdout=subprocess.PIPE, stderr=subprocess.STDOUT, text=True)
        if r.returncode != 0:
            raise InfraError("cannot build sched_getaffinity shim: " + r.stdout[-1500:])
        os.replace(so + ".tmp", so)
    return so


SHIM2_C = r"""
#define _GNU_SOURCE
#include <dlfcn.h>
#include <errno.h>
#include <ifaddrs.h>
#include <net/if.h>
#include <stdarg.h>
#include <stdio.h>
#include <stdlib.h>
#include <string.h>
#include <sys/ioctl.h>
#include <sys/socket.h>
#include <sys/sysinfo.h>
#include <linux/sockios.h>
#include <linux/ethtool.h>
/* Scripted OS answers for the C17 correspondence.  Active only while the script file exists in $C17_SHIM_DIR:
     ifaddrs.txt   first line "FAIL <errno> <stores_null>": getifaddrs() fails (and stores NULL into *ifap first, or not); else
                   one entry per line: <name hex> <flags> <addr> <netmask> <ifu>   (each sockaddr: '-' or the hex of its bytes;
                   every sockaddr is malloc'ed with exactly that many bytes, but never fewer than sizeof(struct sockaddr) —
                   the size every consumer, ASan's own getifaddrs interceptor included, may assume — so that a sanitizer
                   build sees any read past the object)
     ioctl.txt     "<ret> <errno> <mtu> <flags> <speed_lo> <speed_hi> <duplex>" for SIOCGIFMTU / SIOCGIFFLAGS / SIOCETHTOOL
                   (default answer), optionally followed by per-NIC / per-request lines "<name hex> <M|F|E> <same 7 numbers>";
                   the 16 raw bytes of ifr_name the call carried are appended (hex) to ioctl.out
     socket.txt    "<errno>": socket(AF_INET, SOCK_DGRAM, …) fails with it (calls logged to socket.out)
     sysinfo.txt   seven decimal numbers: totalram freeram bufferram sharedram totalswap freeswap mem_unit            */
static const char *dir(void) { return getenv("C17_SHIM_DIR"); }
static FILE *script(const char *name) {
    char p[4096]; const char *d = dir();
    if (!d) return NULL;
    snprintf(p, sizeof p, "%s/%s", d, name);
    return fopen(p, "r");
}
static int hexv(int c) { return c >= '0' && c <= '9' ? c - '0' : c >= 'a' && c <= 'f' ? c - 'a' + 10 : -1; }
static unsigned char *unhex(const char *s, size_t *n) {
    size_t l = strlen(s) / 2, i; unsigned char *b = malloc(l ? l : 1);
    for (i = 0; i < l; i++) b[i] = (unsigned char)(hexv(s[2 * i]) * 16 + hexv(s[2 * i + 1]));
    *n = l; return b;
}
static struct ifaddrs *ours;
static void free_ours(struct ifaddrs *p) {
    while (p) { struct ifaddrs *n = p->ifa_next; free(p->ifa_name); free(p->ifa_addr); free(p->ifa_netmask); free(p->ifa_broadaddr); free(p); p = n; }
}
static struct sockaddr *sock_of(const char *tok) {
    size_t n; unsigned char *b, *p; if (tok[0] == '-') return NULL;
    b = unhex(tok, &n);
    if (n >= sizeof(struct sockaddr)) return (struct sockaddr *)b;
    p = calloc(1, sizeof(struct sockaddr)); memcpy(p, b, n); free(b);
    return (struct sockaddr *)p;
}
int getifaddrs(struct ifaddrs **out) {
    static int (*real)(struct ifaddrs **);
    FILE *f = script("ifaddrs.txt");
    if (!f) { if (!real) real = dlsym(RTLD_NEXT, "getifaddrs"); return real(out); }
    {   /* round 3: a FAILING getifaddrs(): first line "FAIL <errno> <stores_null>".  getifaddrs(3) does not say what *ifap
           holds after a failure: glibc stores NULL before anything can fail (stores_null = 1), musl leaves it untouched (0) */
        char first[8]; int e = 0, st = 0;
        if (fscanf(f, "%7s", first) == 1 && strcmp(first, "FAIL") == 0) {
            if (fscanf(f, "%d %d", &e, &st) != 2) { e = ENOMEM; st = 1; }
            fclose(f);
            if (st) *out = NULL;
            errno = e; return -1;
        }
        rewind(f);
    }
    struct ifaddrs *head = NULL, **tail = &head;
    static char name[4096], a[70000], m[70000], u[70000]; unsigned flags;
    while (fscanf(f, "%4095s %u %69999s %69999s %69999s", name, &flags, a, m, u) == 5) {
        struct ifaddrs *e = calloc(1, sizeof *e); size_t n;
        unsigned char *nm = unhex(name, &n);
        e->ifa_name = malloc(n + 1); memcpy(e->ifa_name, nm, n); e->ifa_name[n] = 0; free(nm);
        e->ifa_flags = flags; e->ifa_addr = sock_of(a); e->ifa_netmask = sock_of(m); e->ifa_broadaddr = sock_of(u);
        *tail = e; tail = &e->ifa_next;
    }
    fclose(f);
    ours = head; *out = head; return 0;
}
void freeifaddrs(struct ifaddrs *p) {
    static void (*real)(struct ifaddrs *);
    if (p && p == ours) { free_ours(p); ours = NULL; return; }
    if (!real) real = dlsym(RTLD_NEXT, "freeifaddrs");
    real(p);
}
/* round 3: a FAILING socket(AF_INET, SOCK_DGRAM, 0) — what the four ifreq entry points open — while socket.txt ("<errno>") exists;
   every call is logged to socket.out so that the harness sees the entry point did ask */
int socket(int domain, int type, int protocol) {
    static int (*real)(int, int, int);
    if (domain == AF_INET && (type & 0xf) == SOCK_DGRAM) {
        FILE *f = script("socket.txt");
        if (f) {
            int e = 0; int got = fscanf(f, "%d", &e); fclose(f);
            if (got == 1) {
                char p[4096]; FILE *o; snprintf(p, sizeof p, "%s/socket.out", dir());
                o = fopen(p, "a"); if (o) { fprintf(o, "%d %d %d\n", domain, type, protocol); fclose(o); }
                errno = e; return -1;
            }
        }
    }
    if (!real) real = dlsym(RTLD_NEXT, "socket");
    return real(domain, type, protocol);
}
int ioctl(int fd, unsigned long req, ...) {
    static int (*real)(int, unsigned long, void *);
    va_list ap; void *arg; va_start(ap, req); arg = va_arg(ap, void *); va_end(ap);
    if (req == SIOCGIFMTU || req == SIOCGIFFLAGS || req == SIOCETHTOOL) {
        FILE *f = script("ioctl.txt");
        if (f) {
            int ret = 0, err = 0, mtu = 0; unsigned flags = 0, lo = 0, hi = 0, duplex = 0;
            int got = fscanf(f, "%d %d %d %u %u %u %u", &ret, &err, &mtu, &flags, &lo, &hi, &duplex);
            if (got == 7) {
                /* optional per-NIC, per-request lines: "<name hex> <M|F|E> ret errno mtu flags lo hi duplex" */
                struct ifreq *ifr0 = arg; char nm[64], want[2 * IFNAMSIZ + 1], code; int r2, e2, m2, k; unsigned f2, l2, h2, d2;
                for (k = 0; k < IFNAMSIZ && ifr0->ifr_name[k]; k++) sprintf(want + 2 * k, "%02x", (unsigned char)ifr0->ifr_name[k]);
                want[2 * k] = 0;
                while (fscanf(f, "%63s %c %d %d %d %u %u %u %u", nm, &code, &r2, &e2, &m2, &f2, &l2, &h2, &d2) == 9) {
                    if (strcmp(nm, want) == 0 && code == (req == SIOCGIFMTU ? 'M' : req == SIOCGIFFLAGS ? 'F' : 'E')) {
                        ret = r2; err = e2; mtu = m2; flags = f2; lo = l2; hi = h2; duplex = d2; break;
                    }
                }
            }
            fclose(f);
            if (got == 7) {
                struct ifreq *ifr = arg; char p[4096]; FILE *o; int i;
                snprintf(p, sizeof p, "%s/ioctl.out", dir());
                o = fopen(p, "a");
                if (o) { fprintf(o, "%lx ", req); for (i = 0; i < IFNAMSIZ; i++) fprintf(o, "%02x", (unsigned char)ifr->ifr_name[i]); fprintf(o, "\n"); fclose(o); }
                if (ret == -1) { errno = err; return -1; }
                if (req == SIOCGIFMTU) ifr->ifr_mtu = mtu;
                else if (req == SIOCGIFFLAGS) ifr->ifr_flags = (short)flags;
                else { struct ethtool_cmd *e = (struct ethtool_cmd *)ifr->ifr_data; e->speed = (unsigned short)lo; e->speed_hi = (unsigned short)hi; e->duplex = (unsigned char)duplex; }
                return 0;
            }
        }
    }
    if (!real) real = dlsym(RTLD_NEXT, "ioctl");
    return real(fd, req, arg);
}
int sysinfo(struct sysinfo *info) {
    static int (*real)(struct sysinfo *);
    FILE *f = script("sysinfo.txt");
    if (f) {
        unsigned long v[7]; int got = fscanf(f, "%lu %lu %lu %lu %lu %lu %lu", v, v + 1, v + 2, v + 3, v + 4, v + 5, v + 6);
        fclose(f);
        if (got == 7) {
            memset(info, 0x5a, sizeof *info);
            info->totalram = v[0]; info->freeram = v[1]; info->bufferram = v[2]; info->sharedram = v[3];
            info->totalswap = v[4]; info->freeswap = v[5]; info->mem_unit = (unsigned)v[6];
            return 0;
        }
    }
    if (!real) real = dlsym(RTLD_NEXT, "sysinfo");
    return real(info);
}
"""


def _build_so(name, code):
    d = os.path.join(build.CACHE, "c17shim")
    os.makedirs(d, exist_ok=True)
    so = os.path.join(d, name + ".so")
    src = os.path.join(d, name + ".c")
    if not os.path.exists(so) or not os.path.exists(src) or open(src).read() != code:
        tmpc = src + ".tmp%d" % os.getpid()
        with open(tmpc, "w") as f:
            f.write(code)
        os.replace(tmpc, src)
        tmp = so + ".tmp%d" % os.getpid()
        r = subprocess.run(["gcc", "-shared", "-fPIC", "-O1", "-o", tmp, src, "-ldl"],
                           stdout=subprocess.PIPE, stderr=subprocess.STDOUT, text=True)
        if r.returncode != 0:
            raise InfraError("cannot build %s shim: %s" % (name, r.stdout[-1500:]))
        os.replace(tmp, so)
    return so


def build_shim2():
    """LD_PRELOAD library scripting getifaddrs / ioctl(SIOCGIFMTU|SIOCGIFFLAGS|SIOCETHTOOL) / sysinfo (see SHIM2_C)."""
    return _build_so("shim2", SHIM2_C)


# --------------------------------------------------------------------------- utmp (independent: struct.pack)

UT_FMT = "<hxxi32s4s32s256s4s4si4s16s20s"
assert struct.calcsize(UT_FMT) == 384
UT_KEYS = ["typ", "pid", "line", "id", "user", "host", "exit", "session", "sec", "usec", "addr", "unused"]


def ut_pack(r):
    return struct.pack(UT_FMT, *[r[k] for k in UT_KEYS])


def ut_unpack(b):
    return dict(zip(UT_KEYS, struct.unpack(UT_FMT, b)))


def ut_json(r):
    return {k: (v.hex() if isinstance(v, bytes) else v) for k, v in r.items()}


# --------------------------------------------------------------------------- getmntent (independent decoding, glibc 2.36)

MNT_BUF = 4096


def _decode_name(b):
    out = bytearray()
    i = 0
    while i < len(b):
        if b[i:i + 4] == b"\\040":
            out.append(32); i += 4
        elif b[i:i + 4] == b"\\011":
            out.append(9); i += 4
        elif b[i:i + 4] == b"\\012":
            out.append(10); i += 4
        elif b[i:i + 2] == b"\\\\":
            out.append(92); i += 2
        elif b[i:i + 4] == b"\\134":
            out.append(92); i += 4
        else:
            out.append(b[i]); i += 1
    return bytes(out)


def _strsep(head):
    """strsep(&head, " \\t") on bytes: (token, rest or None)"""
    if head is None:
        return None, None
    for i, c in enumerate(head):
        if c in (32, 9):
            return head[:i], head[i + 1:]
    return head, None


def getmntent_decode(data):
    """Entries (fsname, dir, type, opts) as glibc 2.36 getmntent() yields them for file content `data`
    (no NUL bytes). Lines longer than 4095 bytes are cut there and their remainder is dropped."""
    assert b"\0" not in data
    out = []
    pos, n = 0, len(data)
    while pos < n:
        # fgets(buffer, 4096)
        nl = data.find(b"\n", pos, pos + MNT_BUF - 1)
        if nl >= 0:
            line = data[pos:nl]
            pos = nl + 1
            line = line.rstrip(b" \t")
        else:
            line = data[pos:pos + MNT_BUF - 1]
            pos += len(line)
            # "Not the whole line was read. Do it now but forget it."
            nl2 = data.find(b"\n", pos)
            pos = n if nl2 < 0 else nl2 + 1
        head = line.lstrip(b" \t")
        if head == b"" or head[:1] == b"#":
            continue
        fields = []
        for k in range(4):
            tok, head = _strsep(head)
            fields.append(_decode_name(tok) if tok is not None else b"")
            if head is not None:
                head = head.lstrip(b" \t")
        out.append(tuple(fields))
    return out


def utf8_ok(b):
    try:
        b.decode("utf-8")
        return True
    except UnicodeDecodeError:
        return False
