"""C20 — every platform layer keeps the same error contract and record layout.

Model: lean/PsutilModel/Model/C20.lean (+C20Gen), Spec: Spec/C20.lean, theorems: Props/C20.lean.
Translator: harness/props/c20_facts.py. Emulation: harness/props/c20_emul.py.

Correspondence: for every platform identity (FreeBSD, OpenBSD, NetBSD, macOS, Solaris, AIX,
Windows) the REAL `_ps*.py` and the REAL front end are loaded under an alias package over a
scripted native layer; every public method of the platform `Process` class is run once
without fault (tuple contents vs slot values) and then once per native call it makes × errno
× pid state (exception class / pid / name), and compared with the Lean model and with the
set of outcomes the specification allows. Plus `net_if_addrs()` post-processing and `__all__`.
"""
import ast
import errno
import os
import socket

from harness.common import extract
from harness.common.build import InfraError
from harness.common.extract import NotRecognised, lean_bool, lean_list, lean_nat, lean_str
from harness.props import c20_emul as E
from harness.props import c20_facts as T

PROP = "C20"
DRIVER_MODULES = ["PsutilModel.Model.C20Gen", "PsutilModel.Spec.C20"]
NEEDS_EXT = False
TRUSTED = [
    "C20 emulation (harness/props/c20_emul.py): alias import of the snapshot's psutil with sys.platform/os.name patched during the import only, stub native modules built from the C sources' PyMethodDef tables, scripted os/time/glob/subprocess proxies; the native layers themselves (C for other OSes) are NOT executed",
    "C20: CPython's errno → OSError-subclass map (ESRCH→ProcessLookupError, ENOENT→FileNotFoundError, EPERM/EACCES→PermissionError), `OSError.winerror` set by the stub as Windows would",
    "C20: the order of the native one-shot records is the one written in the C sources' Py_BuildValue comments (cross-checked textually by the translator, theorem C20_slot_maps_match_native)",
    "C20: 'pid state' is what the module's own probe sees after the faulted call (one-shot status slot on BSD/macOS; kill(pid,0) / /proc/<pid>/psinfo on Solaris/AIX); only the probe primitives follow it",
]
ASSUMPTIONS = [
    "single-fault sweep: exactly one native call of the method raises (sticky only for the Windows ERROR_PARTIAL_COPY retry loop); records hold a distinct value in every slot",
    "Python-level os.path.exists/islink/isfile/os.access never raise and are not faulted; subprocess-based helpers (pfiles, procfiles, swap -l, lsdev, entstat) are outside the model",
]
MANIFEST = {
    "level_text": "Machine-checked Lean 4 proofs over a model of the five non-Linux platform modules and the front end's platform-conditional post-processing: C20_error_contract (for every platform module, every errno in {ESRCH, ENOENT, EPERM, EACCES, EIO, EINVAL}, every winerror, every pid and pid state, the decorator built from the translator's except-clause table produces exactly the cell of the contract table), instantiated for every decorated method of the generated per-platform method lists (C20_error_contract_methods), C20_all_methods_wrapped (every undecorated method justified one by one, helpers only reachable from decorated methods), C20_inner_handlers_transcribed, C20_method_faults_within_spec (every native call of every method × error × pid state: outcome within the specification's allowed set, by decide over the generated traces; partial: two Windows call sites are known findings, counterexamples proved), C20_slot_maps_match_native, C20_slots_match, C20_ntuple_types, C20_win_pmem_layout (decide over generated tables), C20_api_names (documented ⊆ exposed per platform), C20_mac_padding, C20_broadcast (post-processing takes effect; counterexample for the pre-fix front end). Tie: translator (except clauses, decorators, slot maps, feeds, C comments, docs) + a differential run of the REAL platform modules and front end under platform emulation over a scripted native layer (full single-fault sweep).",
    "level_note": "Trusted: Lean kernel + {propext, Classical.choice, Quot.sound}; the translator; the emulation layer (stub natives, scripted os); CPython's errno→exception map. Not executed: the native C layers of the other OSes. Partial: pid-state semantics is the module's own probe; two-fault sequences only in the thorough tier.",
    "technique": "Lean 4 case analysis + decide over translator-generated tables; platform emulation with scripted native layer for the differential correspondence",
    "design_ref": "DESIGN.md §5 C20",
}

ERRNOS = [("ESRCH", errno.ESRCH), ("ENOENT", errno.ENOENT), ("EPERM", errno.EPERM),
          ("EACCES", errno.EACCES), ("EIO", errno.EIO), ("EINVAL", errno.EINVAL)]
ERRNO_NAME = {v: k for k, v in ERRNOS}
WIN_CODES = [0, E.ERROR_ACCESS_DENIED, E.ERROR_PRIVILEGE_NOT_HELD, E.ERROR_PARTIAL_COPY, E.ERROR_INVALID_PARAMETER]
NO_FAULT = {"os.path.exists", "os.path.islink", "os.path.isfile", "os.access"}
PIDS = [42, 0]

# ------------------------------------------------------------------------------ translator


def _emus(snap):
    cache = getattr(snap, "_c20_emus", None)
    if cache is None:
        try:
            cache = E.load_all(snap.pkg)
        except E.EmuError as e:
            raise InfraError("C20 emulation: %s" % e)
        snap._c20_emus = cache
    return cache


def _traces(emu):
    out = []
    for m in emu.process_methods():
        for pid in PIDS:
            obs, tr = emu.run(m, pid=pid)
            out.append((m, pid, [c for c in tr]))
    return out


def facts(snap, F):
    trees = {}

    def tree(rel):
        if rel not in trees:
            trees[rel] = extract.parse_module(snap, rel)
        return trees[rel]

    emus = _emus(snap)
    fams = list(T.FAMILY_FILE)

    def lean_clause_table():
        rows = []
        for fam in fams:
            rows.append(T.lpair(lean_str(fam), T.lean_clauses(T.wrap_clauses(tree(T.FAMILY_FILE[fam])))))
        return "[" + ", ".join(rows) + "]"
    F.try_add("exceptClauses", "List (String × List (List String × String))", lean_clause_table,
              "`except` clauses of each platform module's wrap_exceptions, in source order: (classes, recognised body)")
    F.try_add("procfsClauses", "List (List String × String)",
              lambda: T.lean_clauses(T.wrap_clauses(tree("_psbsd.py"), "wrap_exceptions_procfs")),
              "_psbsd.wrap_exceptions_procfs")
    wconsts = emus["windows"].consts
    F.try_add("winPermIsinstance", "Bool", lambda: lean_bool(T.win_permission(tree("_pswindows.py"), wconsts)[0]),
              "is_permission_err tests isinstance(exc, PermissionError)")
    F.try_add("winPermCodes", "List Nat", lambda: lean_list(T.win_permission(tree("_pswindows.py"), wconsts)[1], lean_nat),
              "is_permission_err: exc.winerror in {...}")
    F.try_add("winConvert", "List (String × String)",
              lambda: lean_list(T.win_convert(tree("_pswindows.py")), lambda c: T.lpair(lean_str(c[0]), lean_str(c[1]))),
              "branches of convert_oserror in source order")
    F.try_add("winPartialCopy", "Nat", lambda: lean_nat(T.win_retry(tree("_pswindows.py"))[0]), "ERROR_PARTIAL_COPY")
    F.try_add("winRetryTimes", "Nat", lambda: lean_nat(T.win_retry(tree("_pswindows.py"))[1]),
              "retry_error_partial_copy: times")
    F.try_add("winBroadcastAssigned", "Bool", lambda: lean_bool(T.broadcast_assigned(tree("__init__.py"))),
              "net_if_addrs(): is the result of nt._replace(broadcast=...) assigned back to nt?")

    mt = {}

    def methods(ident):
        if ident not in mt:
            mt[ident] = T.method_table(emus[ident], tree(T.FAMILY_FILE[T.FAMILY[ident]]), tree("_common.py"))
        return mt[ident]

    def lean_methods():
        rows = []
        for ident in E.IDENTS:
            rows.append(T.lpair(lean_str(ident), lean_list(
                methods(ident), lambda md: T.lpair(lean_str(md[0]), T.lstr_list(md[1])))))
        return "[" + ", ".join(rows) + "]"
    F.try_add("methods", "List (String × List (String × List String))", lean_methods,
              "per platform identity: every function in the class dict of the platform Process class with its decorators (outermost first)")

    def lean_callers():
        rows = []
        for ident in E.IDENTS:
            hc = T.helper_callers(tree(T.FAMILY_FILE[T.FAMILY[ident]]), methods(ident))
            rows.append(T.lpair(lean_str(ident), lean_list(hc, lambda h: T.lpair(lean_str(h[0]), T.lstr_list(h[1])))))
        return "[" + ", ".join(rows) + "]"
    F.try_add("helperCallers", "List (String × List (String × List String))", lean_callers,
              "per platform identity: for every method without wrap_exceptions, the methods that call self.<it>")

    def lean_inner():
        rows = []
        for fam in fams:
            for m in T.inner_try(tree(T.FAMILY_FILE[fam])):
                rows.append(T.lpair(lean_str(fam), lean_str(m)))
        return "[" + ", ".join(rows) + "]"
    F.try_add("innerTry", "List (String × String)", lean_inner,
              "(module, method) whose body contains a try/except (or with wrap_exceptions_procfs) able to catch OSError / psutil errors")

    def lean_traces():
        rows = []
        for ident in E.IDENTS:
            tr = _traces(emus[ident])
            rows.append(T.lpair(lean_str(ident), lean_list(
                tr, lambda t: "(%s, %d, %s)" % (lean_str(t[0]), t[1], T.lstr_list(t[2])))))
        return "[" + ", ".join(rows) + "]"
    F.try_add("traces", "List (String × List (String × Nat × List String))", lean_traces,
              "per platform identity: native calls made by Process(pid).<method>() over the scripted native layer (no fault)")

    def lean_slotmaps():
        rows = []
        for fam in fams:
            for n, items in T.slot_maps(emus[T.FAMILY_IDENT[fam]]):
                rows.append(T.lpair(lean_str("%s.%s" % (fam, n)),
                                    lean_list(items, lambda kv: T.lpair(lean_str(kv[0]), lean_nat(kv[1])))))
        return "[" + ", ".join(rows) + "]"
    F.try_add("slotMaps", "List (String × List (String × Nat))", lean_slotmaps,
              "kinfo_proc_map / pidtaskinfo_map / proc_info_map / pinfo_map as the modules define them")

    def lean_labels():
        rows = []
        for key, (rel, fn, _) in sorted(T.C_ONESHOT.items()):
            fam = key.split(".")[0]
            for ident in [i for i in E.IDENTS if T.FAMILY[i] == fam]:
                lab = T.c_slot_labels(snap.pkg, rel, fn, E.DEFINES[ident])
                rows.append(T.lpair(T.lpair(lean_str(key), lean_str(ident)), T.lstr_list(lab)))
        return "[" + ", ".join(rows) + "]"
    F.try_add("nativeSlotLabels", "List ((String × String) × List String)", lean_labels,
              "labels of the Py_BuildValue arguments of each one-shot C function (its // comments), per platform identity")

    def lean_feeds():
        rows = []
        for fam in fams:
            fd = T.feeds(emus[T.FAMILY_IDENT[fam]], tree(T.FAMILY_FILE[fam]))
            flat = []
            for m, nt, fl in fd:
                for f, src in fl:
                    if src != "expr":
                        flat.append((m, nt, f, src))
            rows.append(T.lpair(lean_str(fam), lean_list(
                flat, lambda q: "(%s, %s, %s, %s)" % tuple(lean_str(x) for x in q))))
        return "[" + ", ".join(rows) + "]"
    F.try_add("feeds", "List (String × List (String × String × String × String))", lean_feeds,
              "per module: (method, namedtuple, field | #k, source) — which slot / constant each field (or bare value) is fed from")

    def lean_returns():
        rows = []
        for fam in fams:
            r = T.returns_ntuple(emus[T.FAMILY_IDENT[fam]], tree(T.FAMILY_FILE[fam]))
            rows.append(T.lpair(lean_str(fam), lean_list(r, lambda q: T.lpair(lean_str(q[0]), lean_str(q[1])))))
        return "[" + ", ".join(rows) + "]"
    F.try_add("returnsNtuple", "List (String × List (String × String))", lean_returns,
              "per module: (method, namedtuple type constructed in a return statement)")

    def win_meminfo():
        t = tree("_pswindows.py")
        fn = extract.find_def(t, "memory_info", cls="Process")
        idx = {}
        for n in ast.walk(fn):
            if isinstance(n, ast.Assign) and isinstance(n.targets[0], ast.Name) and n.targets[0].id in ("rss", "vms") \
                    and isinstance(n.value, ast.Subscript) and extract.unparse(n.value.value) == "t":
                idx[n.targets[0].id] = extract.const(n.value.slice)
        if set(idx) != {"rss", "vms"} or "pmem(*(rss, vms) + t)" not in extract.unparse(fn):
            raise NotRecognised("_pswindows.Process.memory_info shape")
        return idx
    F.try_add("winRssIdx", "Nat", lambda: lean_nat(win_meminfo()["rss"]), "memory_info: rss = t[i]")
    F.try_add("winVmsIdx", "Nat", lambda: lean_nat(win_meminfo()["vms"]), "memory_info: vms = t[i]")
    F.try_add("winPmemFields", "List String", lambda: T.lstr_list(list(emus["windows"].mod.pmem._fields)),
              "_pswindows.pmem._fields")

    doc_cache = {}

    def doc():
        if "d" not in doc_cache:
            p = os.path.join(snap.dir, "docs", "index.rst")
            if not os.path.isfile(p):
                raise NotRecognised("docs/index.rst not in the tree; the committed hand-checked table is used")
            with open(p, encoding="utf-8") as f:
                doc_cache["d"] = T.documented_api(f.read())
        return doc_cache["d"]

    def lean_doc():
        d = doc()
        return "[" + ", ".join(T.lpair(lean_str(i), T.lstr_list(d[i])) for i in E.IDENTS) + "]"
    F.try_add("documented", "List (String × List String)", lean_doc,
              "names docs/index.rst promises per platform identity (Process methods as Process.<m>), sorted")

    def lean_exposed():
        try:
            d = doc()
        except NotRecognised:
            d = _baseline_documented()
        return "[" + ", ".join(T.lpair(lean_str(i), T.lstr_list(T.exposed_api(emus[i], d))) for i in E.IDENTS) + "]"
    F.try_add("exposed", "List (String × List String)", lean_exposed,
              "which of the documented names the package exposes when imported as that platform (in __all__ and an attribute; Process.<m> = attribute of the front-end class), sorted")


def _baseline_documented():
    """the committed hand-checked table (GeneratedBaseline/C20.lean) when docs/ is absent"""
    import re
    p = os.path.join(extract.BASE_DIR, "C20.lean")
    with open(p, encoding="utf-8") as f:
        base = extract.parse_generated(f.read())
    if "documented" not in base:
        raise NotRecognised("no baseline for `documented`")
    val = base["documented"][1]
    out = {}
    for m in re.finditer(r'\("(\w+)", \[([^\]]*)\]\)', val):
        out[m.group(1)] = re.findall(r'"([^"]*)"', m.group(2))
    return out
