"""C20 — every platform layer keeps the same error contract and record layout.

Model: lean/PsutilModel/Model/C20.lean (+C20Gen), Spec: Spec/C20.lean, theorems: Props/C20.lean.
Translator: harness/props/c20_facts.py. Emulation: harness/props/c20_emul.py.

Correspondence: for every platform identity (FreeBSD, OpenBSD, NetBSD, macOS, Solaris, AIX,
Windows) the REAL `_ps*.py` and the REAL front end are loaded under an alias package over a
scripted native layer; every public method of the platform `Process` class is run once
without fault (tuple contents vs slot values) and then once per native call it makes × errno
× pid state (exception class / pid / name), and compared with the Lean model and with the
set of outcomes the specification allows. Plus `net_if_addrs()` post-processing and `__all__`.
"""
import ast
import errno
import json
import os
import socket

from harness.common import extract
from harness.common.build import InfraError
from harness.common.extract import NotRecognised, lean_bool, lean_list, lean_nat, lean_str
from harness.props import c20_emul as E
from harness.props import c20_expect as X
from harness.props import c20_facts as T

PROP = "C20"
DRIVER_MODULES = ["PsutilModel.Model.C20Gen", "PsutilModel.Spec.C20", "PsutilModel.Model.C20Block", "PsutilModel.Spec.C20Block"]
NEEDS_EXT = False
TRUSTED = [
    "C20 emulation (harness/props/c20_emul.py): alias import of the snapshot's psutil with sys.platform/os.name patched during the import only, stub native modules built from the C sources' PyMethodDef tables, scripted os/time/glob/subprocess proxies; the native layers themselves (C for other OSes) are NOT executed",
    "C20: CPython's errno → OSError-subclass map (ESRCH→ProcessLookupError, ENOENT→FileNotFoundError, EPERM/EACCES→PermissionError), `OSError.winerror` set by the stub as Windows would",
    "C20: the order of the native one-shot records (and of the native tuples unpacked positionally) is the argument order of the C sources' Py_BuildValue CALLS, parsed by the translator through a mini preprocessor per identity (format units counted against arguments) and matched by name through the reviewed table Spec.slotCExpr / Spec.tupleCExpr (theorem C20_native_slot_order_partial; the // comments are still cross-checked by C20_slot_maps_match_native); the emulator's stub records have the same lengths (fact stubRecordLens) and a distinct value per position; the C code itself is not compiled or run",
    "C20: 'pid state' (gone / zombie / alive) is a fact about the scripted process after the faulted call; the probe primitives follow it (one-shot status slot on BSD/macOS — 'zombie' is swept over every native status code the identity's PROC_STATUSES maps to STATUS_ZOMBIE, each stub constant a distinct value; kill(pid,0) / /proc/<pid>/psinfo on Solaris/AIX, which cannot tell zombie from alive: finding C20-sunos-aix-exists-means-zombie)",
]
ASSUMPTIONS = [
    "single-fault sweep: exactly one native call of the method raises (sticky only for the Windows ERROR_PARTIAL_COPY retry loop); two-fault sequences: a second, later call raises after the method went on; records hold a distinct value in every slot",
    "front-end name(): ASCII names only (len(os.fsencode(name)) = number of characters); front-end cases run over a scripted platform object (_proc) behind the real psutil.Process",
    "os.path.exists/isfile/islink = ONE stat()/lstat() whose OSError is swallowed and answered False (genericpath / posixpath), faulted as such; os.access never fails and is not faulted; empty native answers: one per-process list / dict / str answer (or a random subset of them) comes back empty, other degenerate shapes (None, truncated tuples) are not generated; subprocess-based helpers (pfiles, procfiles, swap -l, lsdev, entstat) are outside the model",
]
MANIFEST = {
    "level_text": "Machine-checked Lean 4 proofs over a model of the five non-Linux platform modules and the front end's platform-conditional post-processing: C20_error_contract_partial (for every platform module, every errno in {ESRCH, ENOENT, EPERM, EACCES, EIO, EINVAL}, every winerror, every pid and every REAL pid state — gone / zombie / alive, not what the module's probe can tell — outside the region Spec.knownZombieDeviation, the decorator built from the translator's except-clause table produces exactly the cell of the contract table; full strength on BSD / macOS / Windows: C20_error_contract_bsd_osx_windows; the full statement C20_error_contract_Full is REFUTED for Solaris / AIX by C20_error_contract_counterexample and the code's behaviour in the region is characterised exactly by C20_error_contract_deviation: ZombieProcess where the cell is NoSuchProcess — finding C20-sunos-aix-exists-means-zombie), corollary C20_error_contract_methods, C20_all_methods_wrapped (every undecorated method justified one by one, helpers only reachable from decorated methods), C20_inner_handlers_transcribed, C20_method_faults_within_spec_partial (every native call of every method × error × pid state: outcome within the specification's allowed set or, on Solaris / AIX only, the one known zombie deviation in its region; by decide over the generated traces; no call site excluded, for the code as it is — obligations cfg_win_ppid_wrapped and cfg_win_maps_loop_guarded; strict full strength on the BSDs, macOS and Windows: C20_method_faults_within_spec_bsd_osx_windows; the strict statement C20_method_faults_within_spec_Full is refuted by C20_method_faults_not_full; counterexamples kept for the unrepaired Windows configuration), C20_zombie_codes_documented / C20_zombie_probe_sees_documented_codes / C20_error_contract_status_codes (the contract in terms of the native status code of the probe record: is_zombie's comparison, a translator fact, says zombie for exactly the codes the platform documents — OpenBSD SDEAD and SZOMB), C20_two_faults_within_spec (same tolerance; two-fault sequences: for every generated row of first faults after which a method goes on — alternative path after an inner handler, or re-run by the partial-copy retry — every later native call × second error × pid state is within the specification; any first error), C20_two_faults_first_ends, C20_empty_answer_faults_within_spec_partial (seeded round 5 — the native ANSWER is a dimension: for every method × native call whose list / dict / str answer about the process can come back EMPTY, rows of the translator fact tracesEmpty, every native call the method makes on THAT run — the Solaris / AIX 'is the process still there?' re-checks behind `if not ret:` are reached this way only — × error × pid state is within the specification, same tolerance; strict on BSD / macOS / Windows: C20_empty_answer_faults_bsd_osx_windows; C20_empty_answer_faults_not_full), C20_path_probes_transcribed + C20_path_probe_faults_within_spec (os.path.exists / isfile / islink are a stat() whose failure the caller never sees: the (identity, method, question) triples of ALL generated call sequences are exactly the transcribed ones, and a failing stat there leaves the method inside the specification — an OS query moved behind such a yes/no question is noticed), C20_slot_maps_match_native, C20_slots_match, C20_all_record_reads_named (every read of a native one-shot record on any path is a named-slot read), C20_fallback_slots_match (the slot reads on except-handler paths are exactly the documented fall-backs), C20_ntuple_types, C20_win_pmem_layout (decide over generated tables), C20_api_names (documented ⊆ exposed per platform), C20_mac_padding, C20_net_if_addrs_records_independent / C20_net_if_addrs_record_wise / C20_broadcast_rejected_netmask_leaves_record (one net_if_addrs() call on a native answer of ANY length, NICs, families and netmasks incl. those the ipaddress module rejects: record-wise, nothing carried from one record to the next; obligation cfg_broadcast_fresh from a per-iteration data-flow fact; what-if C20_broadcast_carry_counterexample), C20_broadcast_takes_effect and C20_broadcast6_takes_effect (IPv4 on 32 bits and IPv6 on 128 bits against bit-level specifications; post-processing takes effect; counterexample for the pre-fix front end), C20_front_branches_classified (every platform-conditional branch inside a function or class of the front end is on a classified list) with C20_front_ppid / _name / _username / _pid_exists / _affinity_all_cpus / _disk_io_kwargs for the ones that transform a value. Tie: translator (except clauses, decorators, slot maps, feeds, record reads, fall-back reads, single- and two-fault traces, front-end branches, C comments, docs) + a differential run of the REAL platform modules and front end under platform emulation over a scripted native layer (full single-fault sweep, os.path questions included as fault points; two-fault sequences: sampled at the quick tier, the whole domain at the thorough tier; empty-answer family: every emptied run with a different call sequence × every call × every error × state exhaustively, random subsets of empty answers with a random fault). Round 2/3: C20_native_slot_order (at full strength for the code as it is: slot i of every slot map = i-th argument of the parsed Py_BuildValue call of the C function and that argument is the struct member the slot is NAMED FOR — reviewed table of INTENDED members; the positional native tuples too; stub record lengths; every slot, since /repo c9c8f6b repaired the BSD saved_gid slot that was fed from the saved UID member — defect C20-bsd-saved-gid, fixed; C20_saved_gid_is_not_saved_uid names the slot, C20_native_slot_order_partial is kept for a tree without the repair); C20_api_fields (every namedtuple field docs/index.rst documents for a platform — bullets with platform notes, per-platform table columns in order — is a field of that platform's namedtuple; six Solaris/AIX gaps listed and kept exact by C20_api_fields_gaps_characterisation); C20_front_ident_partial (+ _bsd_osx_windows full, _counterexample_sunos) / _ident_fast_only / cfg_ident_fast_only (Process(pid): Windows identity uses create_time(fast_only=True), AccessDenied → (pid, None)), C20_front_eq (Open/NetBSD zombie equality, all identities), C20_front_send_signal_posix (OpenBSD zombie branch), C20_front_send_signal_windows (+ _contract): all driven on the REAL front end over the REAL platform module under each emulated identity.",
    "level_note": "Trusted: Lean kernel + {propext, Classical.choice, Quot.sound}; the translator; the emulation layer (stub natives, scripted os); CPython's errno→exception map. Not executed: the native C layers of the other OSes. Partial: one open finding — C20-sunos-aix-exists-means-zombie (Solaris / AIX report ZombieProcess for a process that merely still exists; theorems _partial with the region excluded and characterised); two-fault sequences start from first faults after which the method still returns (the decorator's os.kill probe is faulted with EPERM only); the Windows partial-copy retry loop is a closed form, not a recursive loop; Spec.recoverable / Model.inner are keyed by the same (method, call) table (characterisation of the handlers, tied by the differential run); every public method's returned value is compared with an expected value (per-item tuples by hand from the native item layout; scalars a reviewed literal); every platform-conditional front-end branch that transforms a value is now modelled (round 2: _get_ident, __eq__, _send_signal, send_signal); documented FIELDS: six Solaris/AIX gaps (nice, active, inactive marked *(UNIX)* in the docs) are characterised, not findings (the statement promises function and constant names); the native C code is parsed, not compiled.",
    "technique": "Lean 4 case analysis + decide over translator-generated tables (Python AST, parsed C Py_BuildValue calls, docs); platform emulation with scripted native layer for the differential correspondence",
    "design_ref": "DESIGN.md §5 C20",
}

ERRNOS = [("ESRCH", errno.ESRCH), ("ENOENT", errno.ENOENT), ("EPERM", errno.EPERM),
          ("EACCES", errno.EACCES), ("EIO", errno.EIO), ("EINVAL", errno.EINVAL)]
ERRNO_NAME = {v: k for k, v in ERRNOS}
WIN_CODES = [0, E.ERROR_ACCESS_DENIED, E.ERROR_PRIVILEGE_NOT_HELD, E.ERROR_PARTIAL_COPY, E.ERROR_INVALID_PARAMETER]
# never faulted: os.access() answers False for any failure by definition (it is the yes/no syscall itself). The
# os.path.exists/isfile/islink questions ARE faulted since seeded round 5: the stat() inside fails, the question
# answers False (c20_emul.PATH_PROBES)
NO_FAULT = {"os.access"}
PIDS = [42, 0]
RETRY_TOTAL_S = (0.5, 2.0)     # retry_error_partial_copy: "retries for roughly 1 second" (comment in _pswindows.py)

# ------------------------------------------------------------------------------ translator


def _emus(snap):
    cache = getattr(snap, "_c20_emus", None)
    if cache is None:
        try:
            cache = E.load_all(snap.pkg)
        except E.EmuError as e:
            raise InfraError("C20 emulation: %s" % e)
        snap._c20_emus = cache
    return cache


def _traces(emu):
    out = []
    for m in emu.process_methods():
        for pid in PIDS:
            obs, tr = emu.run(m, pid=pid)
            out.append((m, pid, [c for c in tr]))
    return out


# calls that only answer "does the pid exist / is it a zombie" once the method has gone on after a first fault
# (the pid state of the case already says what they answer): not second-fault points
PROBE_CALLS = {"bsd": {"proc_oneshot_info", "os.kill", "pids", "proc_name"}, "osx": set(),
               "sunos": {"os.kill", "os.stat", "os.listdir", "pids"},
               "aix": {"os.kill", "os.stat", "os.listdir", "pids", "os.path.exists"}, "windows": set()}


def swept_errs(emu):
    out = []
    for ename, eno in ERRNOS:
        for win in ([None] + WIN_CODES if emu.windows else [None]):
            out.append((ename, eno, win))
    return out


def continuation(emu, tr, k1):
    """second-fault points of a faulted run that went on: (index, call) after k1, minus un-faultable and probe calls"""
    skip = NO_FAULT | PROBE_CALLS[T.FAMILY[emu.ident]]
    return [(k, c) for k, c in enumerate(tr) if k > k1 and c not in skip]


def _traces2(emu):
    """(method, pid, call1, mode, [calls after call1]) for every first fault after which the method goes on
    (returns a value although the call raised): absorbed by an inner handler ('fallback') or re-run by
    retry_error_partial_copy ('rerun', recognised by its one sleep)"""
    rows = []
    for m in emu.process_methods():
        for pid in PIDS:
            obs0, tr0 = emu.run(m, pid=pid)
            for k1, call1 in enumerate(tr0):
                if call1 in NO_FAULT:
                    continue
                for ename, eno, win in swept_errs(emu):
                    obs, tr = emu.run(m, pid=pid, fault_at=k1, err=(eno, win), state="alive")
                    if obs["kind"] != "value" or len(tr) <= k1 or tr[k1] != call1:
                        continue
                    mode = "rerun" if obs.get("sleeps", 0) else "fallback"
                    row = (m, pid, call1, mode, [c for _, c in continuation(emu, tr, k1)])
                    if row not in rows:
                        rows.append(row)
    return rows


def empty_rows(emu, pids=PIDS):
    """The empty-answer dimension. For every public method × pid × native call of its no-fault run that is a question
    about THIS process and answers a non-empty list / dict / str: the same run with that answer handed back EMPTY (the
    native call succeeds; it found nothing) → (method, pid, emptied call, base trace, trace, observable)."""
    cache = getattr(emu, "_c20_empty_rows", None)
    if cache is not None and cache[0] == tuple(pids):
        return cache[1]
    rows = []
    for m in emu.process_methods():
        for pid in pids:
            obs0, tr0, ans = emu.run(m, pid=pid, with_answers=True)
            for name in dict.fromkeys(a[0] for a in ans if a[1] and a[2]):
                obs, tr = emu.run(m, pid=pid, empty=[name])
                rows.append((m, pid, name, list(tr0), list(tr), obs))
    emu._c20_empty_rows = (tuple(pids), rows)
    return rows


def facts(snap, F):
    trees = {}

    def tree(rel):
        if rel not in trees:
            trees[rel] = extract.parse_module(snap, rel)
        return trees[rel]

    emus = _emus(snap)
    fams = list(T.FAMILY_FILE)

    def lean_clause_table():
        rows = []
        for fam in fams:
            rows.append(T.lpair(lean_str(fam), T.lean_clauses(T.wrap_clauses(tree(T.FAMILY_FILE[fam])))))
        return "[" + ", ".join(rows) + "]"
    F.try_add("exceptClauses", "List (String × List (List String × String))", lean_clause_table,
              "`except` clauses of each platform module's wrap_exceptions, in source order: (classes, recognised body)")
    F.try_add("procfsClauses", "List (List String × String)",
              lambda: T.lean_clauses(T.wrap_clauses(tree("_psbsd.py"), "wrap_exceptions_procfs")),
              "_psbsd.wrap_exceptions_procfs")
    wconsts = emus["windows"].consts
    F.try_add("winPermIsinstance", "Bool", lambda: lean_bool(T.win_permission(tree("_pswindows.py"), wconsts)[0]),
              "is_permission_err tests isinstance(exc, PermissionError)")
    F.try_add("winPermCodes", "List Nat", lambda: lean_list(T.win_permission(tree("_pswindows.py"), wconsts)[1], lean_nat),
              "is_permission_err: exc.winerror in {...}")
    F.try_add("winConvert", "List (String × String)",
              lambda: lean_list(T.win_convert(tree("_pswindows.py")), lambda c: T.lpair(lean_str(c[0]), lean_str(c[1]))),
              "branches of convert_oserror in source order")
    F.try_add("winPartialCopy", "Nat", lambda: lean_nat(T.win_retry(tree("_pswindows.py"))[0]), "ERROR_PARTIAL_COPY")
    F.try_add("winRetryTimes", "Nat", lambda: lean_nat(T.win_retry(tree("_pswindows.py"))[1]),
              "retry_error_partial_copy: times")
    F.try_add("winBroadcastAssigned", "Bool", lambda: lean_bool(T.broadcast_assigned(tree("__init__.py"))),
              "net_if_addrs(): is the result of nt._replace(broadcast=...) assigned back to nt?")
    F.try_add("winBroadcastFresh", "Bool", lambda: lean_bool(T.broadcast_fresh(tree("__init__.py"))),
              "net_if_addrs(): on every path reaching _replace(broadcast=V), was V bound in the same iteration of the record loop?")

    def status_tab(ident):
        return T.status_tables(emus[ident], tree(T.FAMILY_FILE[T.FAMILY[ident]]))
    F.try_add("statusCodes", "List (String × List String)",
              lambda: "[" + ", ".join(T.lpair(lean_str(i), T.lstr_list(status_tab(i)[0])) for i in E.IDENTS) + "]",
              "per platform identity: the native process-status codes (cext constants) that are keys of the module's live PROC_STATUSES")
    F.try_add("zombieCodes", "List (String × List String)",
              lambda: "[" + ", ".join(T.lpair(lean_str(i), T.lstr_list(status_tab(i)[1])) for i in E.IDENTS) + "]",
              "per platform identity: the native status codes PROC_STATUSES maps to STATUS_ZOMBIE")

    def lean_zprobe():
        rows = [T.lpair(lean_str("bsd"), lean_str(T.zombie_probe(tree("_psbsd.py"), "proc_oneshot_info"))),
                T.lpair(lean_str("osx"), lean_str(T.zombie_probe(tree("_psosx.py"), "proc_kinfo_oneshot")))]
        for fam in ("sunos", "aix", "windows"):
            # no is_zombie(): the decorators of these modules never read a status code
            try:
                extract.find_def(tree(T.FAMILY_FILE[fam]), "is_zombie")
            except NotRecognised:
                rows.append(T.lpair(lean_str(fam), lean_str("none")))
                continue
            # total: a module that acquires an is_zombie() is REPORTED (tag → ZProbe.unknown: the zombie theorems fail and
            # the model has to follow), the fact is not skipped
            rows.append(T.lpair(lean_str(fam), lean_str("defined")))
        return "[" + ", ".join(rows) + "]"
    F.try_add("zombieProbe", "List (String × String)", lean_zprobe,
              "per module: the comparison is_zombie(pid) makes on the status slot of the probe record: procStatuses (PROC_STATUSES.get(st) == _common.STATUS_ZOMBIE) | eq:<NAME> (st == cext.<NAME>) | none (module has no is_zombie)")

    F.try_add("probeStale", "List (String × List String)",
              lambda: "[" + ", ".join(T.lpair(lean_str(fam), lean_list(T.probe_stale_sources(tree(T.FAMILY_FILE[fam])), lean_str))
                                      for fam in ("bsd", "osx", "sunos", "aix", "windows")) + "]",
              "per module: every memoised function (memoize / memoize_when_activated) and every attribute of self other than pid / _name / _ppid that the except handlers of the module's wrap_exceptions* decorators can reach (call graph by name / attribute name, not entered past a memoised function): sources that can hold the answer of an EARLIER native call")

    F.try_add("frontBranches", "List (String × String)",
              lambda: lean_list(T.front_branches(tree("__init__.py")), lambda q: T.lpair(lean_str(q[0]), lean_str(q[1]))),
              "every `if` / conditional expression inside a function or class body of psutil/__init__.py whose test names a platform constant: (where, test), source order")

    F.try_add("sunosPid0AdNamed", "Bool", lambda: lean_bool(T.sunos_pid0_named(tree("_pssunos.py"))),
              "_pssunos._proc_basic_info: `raise AccessDenied(self.pid, self._name)` (true) or without the name (false) for an unreadable PID 0")

    F.try_add("winMapsLoopGuarded", "Bool", lambda: lean_bool(T.win_maps_loop_guarded(tree("_pswindows.py"))),
              "_pswindows.Process.memory_maps: every convert_dos_path() call of the per-mapping loop is inside the try whose `except OSError` raises convert_oserror(err, self.pid, self._name)")

    F.try_add("winIdentFastOnly", "Bool",
              lambda: lean_bool(T.ident_fast_only(tree("__init__.py"), tree("_pswindows.py"))),
              "Process._get_ident: the WINDOWS branch calls self._proc.create_time(fast_only=True) AND _pswindows.Process.create_time re-raises a permission error when fast_only (no slower fall-back for the identity)")

    mt = {}

    def methods(ident):
        if ident not in mt:
            mt[ident] = T.method_table(emus[ident], tree(T.FAMILY_FILE[T.FAMILY[ident]]), tree("_common.py"))
        return mt[ident]

    def lean_methods():
        rows = []
        for ident in E.IDENTS:
            rows.append(T.lpair(lean_str(ident), lean_list(
                methods(ident), lambda md: T.lpair(lean_str(md[0]), T.lstr_list(md[1])))))
        return "[" + ", ".join(rows) + "]"
    F.try_add("methods", "List (String × List (String × List String))", lean_methods,
              "per platform identity: every function in the class dict of the platform Process class with its decorators (outermost first)")

    def lean_callers():
        rows = []
        for ident in E.IDENTS:
            hc = T.helper_callers(tree(T.FAMILY_FILE[T.FAMILY[ident]]), methods(ident))
            rows.append(T.lpair(lean_str(ident), lean_list(hc, lambda h: T.lpair(lean_str(h[0]), T.lstr_list(h[1])))))
        return "[" + ", ".join(rows) + "]"
    F.try_add("helperCallers", "List (String × List (String × List String))", lean_callers,
              "per platform identity: for every method without wrap_exceptions, the methods that call self.<it>")

    def lean_inner():
        rows = []
        for fam in fams:
            for m in T.inner_try(tree(T.FAMILY_FILE[fam])):
                rows.append(T.lpair(lean_str(fam), lean_str(m)))
        return "[" + ", ".join(rows) + "]"
    F.try_add("innerTry", "List (String × String)", lean_inner,
              "(module, method) whose body contains a try/except (or with wrap_exceptions_procfs) able to catch OSError / psutil errors")

    def lean_traces():
        rows = []
        for ident in E.IDENTS:
            tr = _traces(emus[ident])
            rows.append(T.lpair(lean_str(ident), lean_list(
                tr, lambda t: "(%s, %d, %s)" % (lean_str(t[0]), t[1], T.lstr_list(t[2])))))
        return "[" + ", ".join(rows) + "]"
    F.try_add("traces", "List (String × List (String × Nat × List String))", lean_traces,
              "per platform identity: native calls made by Process(pid).<method>() over the scripted native layer (no fault)")

    def lean_traces_empty():
        rows = []
        for ident in E.IDENTS:
            tr = [(m, pid, name, t) for m, pid, name, t0, t, _ in empty_rows(emus[ident]) if t != t0]
            rows.append(T.lpair(lean_str(ident), lean_list(
                tr, lambda t: "(%s, %d, %s, %s)" % (lean_str(t[0]), t[1], lean_str(t[2]), T.lstr_list(t[3])))))
        return "[" + ", ".join(rows) + "]"
    F.try_add("tracesEmpty", "List (String × List (String × Nat × String × List String))", lean_traces_empty,
              "per platform identity: (method, pid, native call whose answer about the process comes back EMPTY, native calls "
              "of that no-fault run) for every per-process list / dict / str answer of every method — only the runs whose "
              "call sequence differs from the plain one (the others make the calls of `traces`): the code behind "
              "`if not ret:` (is the process still there?) is reached this way only")

    def lean_traces2():
        rows = []
        for ident in E.IDENTS:
            tr = _traces2(emus[ident])
            rows.append(T.lpair(lean_str(ident), lean_list(
                tr, lambda t: "(%s, %d, %s, %s, %s)" % (lean_str(t[0]), t[1], lean_str(t[2]), lean_str(t[3]), T.lstr_list(t[4])))))
        return "[" + ", ".join(rows) + "]"
    F.try_add("traces2", "List (String × List (String × Nat × String × String × List String))", lean_traces2,
              "per platform identity: (method, pid, first faulted call, how the method went on: fallback | rerun, native calls it still makes afterwards) for every first fault after which Process(pid).<method>() still returns")

    def lean_slotmaps():
        rows = []
        for fam in fams:
            for n, items in T.slot_maps(emus[T.FAMILY_IDENT[fam]]):
                rows.append(T.lpair(lean_str("%s.%s" % (fam, n)),
                                    lean_list(items, lambda kv: T.lpair(lean_str(kv[0]), lean_nat(kv[1])))))
        return "[" + ", ".join(rows) + "]"
    F.try_add("slotMaps", "List (String × List (String × Nat))", lean_slotmaps,
              "kinfo_proc_map / pidtaskinfo_map / proc_info_map / pinfo_map as the modules define them")

    def lean_labels():
        rows = []
        for key, (rel, fn, _) in sorted(T.C_ONESHOT.items()):
            fam = key.split(".")[0]
            for ident in [i for i in E.IDENTS if T.FAMILY[i] == fam]:
                lab = T.c_slot_labels(snap.pkg, rel, fn, E.DEFINES[ident])
                rows.append(T.lpair(T.lpair(lean_str(key), lean_str(ident)), T.lstr_list(lab)))
        return "[" + ", ".join(rows) + "]"
    F.try_add("nativeSlotLabels", "List ((String × String) × List String)", lean_labels,
              "labels of the Py_BuildValue arguments of each one-shot C function (its // comments), per platform identity")

    def lean_native_args():
        rows = []
        for (k, ident), u, ex in T.native_args(snap.pkg):
            rows.append("((%s, %s), %s, %s)" % (lean_str(k), lean_str(ident), lean_str(u), T.lstr_list(ex)))
        return "[" + ", ".join(rows) + "]"
    F.try_add("nativeArgs", "List ((String × String) × String × List String)", lean_native_args,
              "the Py_BuildValue CALL of every one-shot C function (key = slot map) and of every native tuple the Python side unpacks positionally (key = native function), per platform identity, after the preprocessor: (format units, argument expressions — comments and one leading cast dropped, no blanks)")
    F.try_add("stubRecordLens", "List ((String × String) × Nat)",
              lambda: lean_list(T.stub_record_lens(emus), lambda q: "((%s, %s), %d)" % (lean_str(q[0][0]), lean_str(q[0][1]), q[1])),
              "length of the tuple the emulator's STUB native returns for each of the records above (measured by calling the stub)")

    def lean_feeds():
        rows = []
        for fam in fams:
            fd = T.feeds(emus[T.FAMILY_IDENT[fam]], tree(T.FAMILY_FILE[fam]))
            flat = []
            for m, nt, fl in fd:
                for f, src in fl:
                    if src != "expr":
                        flat.append((m, nt, f, src))
            rows.append(T.lpair(lean_str(fam), lean_list(
                flat, lambda q: "(%s, %s, %s, %s)" % tuple(lean_str(x) for x in q))))
        return "[" + ", ".join(rows) + "]"
    F.try_add("feeds", "List (String × List (String × String × String × String))", lean_feeds,
              "per module: (method, namedtuple, field | #k, source) — which slot / constant each field (or bare value) is fed from")

    def lean_unnamed():
        rows = []
        for fam in fams:
            for m, ex in T.unnamed_record_refs(emus[T.FAMILY_IDENT[fam]], tree(T.FAMILY_FILE[fam])):
                rows.append("(%s, %s, %s)" % (lean_str(fam), lean_str(m), lean_str(ex)))
        return "[" + ", ".join(rows) + "]"
    F.try_add("unnamedRecordRefs", "List (String × String × String)", lean_unnamed,
              "(module, function, expression): every read of a native one-shot record, on any path of any function, that is NOT `<record>[<map>['<slot>']]`, and every other use of a slot map; empty = all record reads are named-slot reads")

    def lean_fallback_feeds():
        rows = []
        for fam in fams:
            fb = T.fallback_feeds(emus[T.FAMILY_IDENT[fam]], tree(T.FAMILY_FILE[fam]))
            rows.append(T.lpair(lean_str(fam), lean_list(fb, lambda q: T.lpair(lean_str(q[0]), lean_str(q[1])))))
        return "[" + ", ".join(rows) + "]"
    F.try_add("fallbackFeeds", "List (String × List (String × String))", lean_fallback_feeds,
              "per module: (method, map.slot) of every named slot read inside an `except` handler of a Process method (the alternative / slower-fallback paths)")

    def lean_returns():
        rows = []
        for fam in fams:
            r = T.returns_ntuple(emus[T.FAMILY_IDENT[fam]], tree(T.FAMILY_FILE[fam]))
            rows.append(T.lpair(lean_str(fam), lean_list(r, lambda q: T.lpair(lean_str(q[0]), lean_str(q[1])))))
        return "[" + ", ".join(rows) + "]"
    F.try_add("returnsNtuple", "List (String × List (String × String))", lean_returns,
              "per module: (method, namedtuple type constructed in a return statement)")

    def win_meminfo():
        t = tree("_pswindows.py")
        fn = extract.find_def(t, "memory_info", cls="Process")
        idx = {}
        for n in ast.walk(fn):
            if isinstance(n, ast.Assign) and isinstance(n.targets[0], ast.Name) and n.targets[0].id in ("rss", "vms") \
                    and isinstance(n.value, ast.Subscript) and extract.unparse(n.value.value) == "t":
                idx[n.targets[0].id] = extract.const(n.value.slice)
        if set(idx) != {"rss", "vms"} or "pmem(*(rss, vms) + t)" not in extract.unparse(fn):
            raise NotRecognised("_pswindows.Process.memory_info shape")
        return idx
    F.try_add("winRssIdx", "Nat", lambda: lean_nat(win_meminfo()["rss"]), "memory_info: rss = t[i]")
    F.try_add("winVmsIdx", "Nat", lambda: lean_nat(win_meminfo()["vms"]), "memory_info: vms = t[i]")
    F.try_add("winPmemFields", "List String", lambda: T.lstr_list(list(emus["windows"].mod.pmem._fields)),
              "_pswindows.pmem._fields")

    doc_cache = {}

    def doc():
        if "d" not in doc_cache:
            p = os.path.join(snap.dir, "docs", "index.rst")
            if not os.path.isfile(p):
                raise NotRecognised("docs/index.rst not in the tree; the committed hand-checked table is used")
            with open(p, encoding="utf-8") as f:
                doc_cache["d"] = T.documented_api(f.read())
        return doc_cache["d"]

    def lean_doc():
        d = doc()
        return "[" + ", ".join(T.lpair(lean_str(i), T.lstr_list(d[i])) for i in E.IDENTS) + "]"
    F.try_add("documented", "List (String × List String)", lean_doc,
              "names docs/index.rst promises per platform identity (Process methods as Process.<m>), sorted")

    def doc_fields():
        if "f" not in doc_cache:
            p = os.path.join(snap.dir, "docs", "index.rst")
            if not os.path.isfile(p):
                raise NotRecognised("docs/index.rst not in the tree; the committed table is used")
            with open(p, encoding="utf-8") as f:
                doc_cache["f"] = T.documented_fields(f.read())
        return doc_cache["f"]

    def lean_doc_fields():
        d = doc_fields()
        return "[" + ", ".join(T.lpair(lean_str(i), lean_list(
            d[i], lambda r: "(%s, %s, %s, %s)" % (lean_str(r[0]), lean_str(r[1]), lean_bool(r[3]), T.lstr_list(r[2]))))
            for i in E.IDENTS) + "]"
    F.try_add("docFields", "List (String × List (String × String × Bool × List String))", lean_doc_fields,
              "per platform identity: (documented function | Process.<method>, namedtuple type its doc example shows, ordered?, field names docs/index.rst promises there) — bullets `- **field** *(platforms)*` (unordered) and the per-platform columns of the field tables (ordered)")

    def lean_actual_fields():
        try:
            d = doc_fields()
        except NotRecognised:
            d = _baseline_doc_fields()
        rows = []
        for i in E.IDENTS:
            nts = sorted({r[1] for r in d[i]})
            got = [(nt, T.actual_fields(emus[i], nt)) for nt in nts]
            rows.append(T.lpair(lean_str(i), lean_list([g for g in got if g[1] is not None],
                                                       lambda g: T.lpair(lean_str(g[0]), T.lstr_list(g[1])))))
        return "[" + ", ".join(rows) + "]"
    F.try_add("actualFields", "List (String × List (String × List String))", lean_actual_fields,
              "per platform identity: runtime `_fields` of every namedtuple type named in docFields, as defined by the package imported as that platform")

    def lean_exposed():
        try:
            d = doc()
        except NotRecognised:
            d = _baseline_documented()
        return "[" + ", ".join(T.lpair(lean_str(i), T.lstr_list(T.exposed_api(emus[i], d))) for i in E.IDENTS) + "]"
    F.try_add("exposed", "List (String × List String)", lean_exposed,
              "which of the documented names the package exposes when imported as that platform (in __all__ and an attribute; Process.<m> = attribute of the front-end class), sorted")


def _baseline_documented():
    """the committed hand-checked table (GeneratedBaseline/C20.lean) when docs/ is absent"""
    import re
    p = os.path.join(extract.BASE_DIR, "C20.lean")
    with open(p, encoding="utf-8") as f:
        base = extract.parse_generated(f.read())
    if "documented" not in base:
        raise NotRecognised("no baseline for `documented`")
    val = base["documented"][1]
    out = {}
    for m in re.finditer(r'\("(\w+)", \[([^\]]*)\]\)', val):
        out[m.group(1)] = re.findall(r'"([^"]*)"', m.group(2))
    return out


def _baseline_doc_fields():
    """(api, nt, fields, ordered) rows of the committed baseline when docs/ is absent"""
    import re
    p = os.path.join(extract.BASE_DIR, "C20.lean")
    with open(p, encoding="utf-8") as f:
        base = extract.parse_generated(f.read())
    if "docFields" not in base:
        raise NotRecognised("no baseline for `docFields`")
    out = {i: [] for i in E.IDENTS}
    val = base["docFields"][1]
    # split per identity: ("ident", [ rows ])
    for mi in re.finditer(r'\("(\w+)", \[((?:\("[^"]*", "[^"]*", (?:true|false), \[[^\]]*\]\)(?:, )?)*)\]\)', val):
        for mr in re.finditer(r'\("([^"]*)", "([^"]*)", (true|false), \[([^\]]*)\]\)', mi.group(2)):
            out[mi.group(1)].append((mr.group(1), mr.group(2), re.findall(r'"([^"]*)"', mr.group(4)), mr.group(3) == "true"))
    return out


# ------------------------------------------------------------------------------ implementation side

CACHED_NAME, CACHED_PPID = "c20cached", 7
REC_OF_MAP = {"kinfo_proc_map": 1, "pidtaskinfo_map": 2, "proc_info_map": 1, "pinfo_map": 1}
# bare values that are a TRANSFORMATION of the slot (status code -> string, tty number -> device name, name slot overridden by
# the stub): the slot-row comparison does not apply; their values are compared through c20_expect (SCALARS, STATUS_DOC sweep)
TRANSFORMED_BARE = {"status", "terminal", "name"}
DIRECT_NT = {"uids": "puids", "gids": "pgids", "cpu_times": "pcputimes", "num_ctx_switches": "pctxsw", "io_counters": "pio",
             "memory_info": "pmem"}
# values that do not come through a slot map: the order the C function documents for its tuple
DIRECT_EXPECT = {
    ("sunos", "uids"): [["real", 3101], ["effective", 3102], ["saved", 3103]],
    ("sunos", "gids"): [["real", 3104], ["effective", 3105], ["saved", 3106]],
    ("aix", "uids"): [["real", 3101], ["effective", 3102], ["saved", 3103]],
    ("aix", "gids"): [["real", 3104], ["effective", 3105], ["saved", 3106]],
    ("sunos", "cpu_times"): [["user", 5101.0], ["system", 5102.0], ["children_user", 5103.0], ["children_system", 5104.0]],
    ("aix", "cpu_times"): [["user", 5101.0], ["system", 5102.0], ["children_user", 5103.0], ["children_system", 5104.0]],
    ("sunos", "num_ctx_switches"): [["voluntary", 7101], ["involuntary", 7102]],
    ("aix", "num_ctx_switches"): [["voluntary", 7101], ["involuntary", 7102]],
    ("aix", "io_counters"): [["read_count", 6101], ["write_count", 6102], ["read_bytes", 6103], ["write_bytes", 6104]],
    ("windows", "io_counters"): [["read_count", 6101], ["write_count", 6102], ["read_bytes", 6103], ["write_bytes", 6104],
                                 ["other_count", 6105], ["other_bytes", 6106]],
    ("windows", "cpu_times"): [["user", 8101.0], ["system", 8102.0], ["children_user", 0.0], ["children_system", 0.0]],
    ("windows", "memory_info"): [["rss", 4103], ["vms", 4108], ["num_page_faults", 4101], ["peak_wset", 4102], ["wset", 4103],
                                 ["peak_paged_pool", 4104], ["paged_pool", 4105], ["peak_nonpaged_pool", 4106],
                                 ["nonpaged_pool", 4107], ["pagefile", 4108], ["peak_pagefile", 4109], ["private", 4110]],
}
# methods whose slot rows describe the documented fall-back path (taken when the fast call is denied)
FALLBACK_ROWS = {("windows", "memory_info"), ("windows", "memory_full_info"), ("windows", "io_counters"), ("windows", "cpu_times"),
                 ("windows", "create_time"), ("windows", "num_handles"), ("sunos", "uids"), ("sunos", "gids")}
# LEFTOVER (text-only note, logic untouched): both findings below were fixed in /repo by 61843a1 (Windows ppid() decorated) and
# 4481769 (Windows memory_maps() loop inside the converting try) and are `fixed:` lines of findings/C20.json, no longer known
# findings. On the repaired tree these regions are never entered (the outcome is inside the specification, so judge_fault
# returns before looking at `region`). CAVEAT: judge_fault does not check that the id is still listed in known_findings.json,
# so after a revert of either repair a bare OSError at these two call sites would still be tolerated here; the regression is
# then reported by the theorems only (cfg_win_ppid_wrapped, cfg_win_maps_loop_guarded, C20_method_faults_within_spec_code).
KNOWN_NOW = set()          # ids of the findings currently listed as known for C20 (set by correspond/search from ctx.findings)
KNOWN_REGIONS = {
    "C20-win-ppid-bare": ("windows", "ppid", "ppid_map"),
    "C20-win-memory-maps-bare": ("windows", "memory_maps", "QueryDosDevice"),
}
# Solaris / AIX: wrap_exceptions has no zombie probe — "the pid still exists" is reported as ZombieProcess. The region
# (Spec.knownZombieDeviation) and the one tolerated outcome come from the Lean driver (`spec.tolerated`); tolerated only
# while the finding is listed as known; the implementation must still equal the MODEL there.
ZOMBIE_FINDING = "C20-sunos-aix-exists-means-zombie"
SAVED_GID_FINDING = "C20-bsd-saved-gid"


def errno_name(n):
    return ERRNO_NAME.get(n, "E%s" % n)


def impl_outcome(obs):
    """observable of the emulated call → the outcome vocabulary of the model"""
    if obs["kind"] == "value":
        return {"k": "value"}
    if obs["kind"] == "unscripted":
        return {"k": "unscripted", "what": obs["what"]}
    cls = obs["exc"]
    if obs.get("psutil"):
        named = obs.get("name") == CACHED_NAME
        if cls == "ZombieProcess":
            return {"k": "zombie", "pid": obs["pid"], "named": named and obs.get("ppid") == CACHED_PPID}
        if cls == "NoSuchProcess":
            return {"k": "nsp", "pid": obs["pid"], "named": named}
        if cls == "AccessDenied":
            return {"k": "ad", "pid": obs["pid"], "named": named}
        return {"k": "exc:" + cls}
    if "errno" in obs:
        return {"k": "raw", "errno": errno_name(obs["errno"]), "winerror": obs.get("winerror"), "cls": cls}
    return {"k": "exc:" + cls, "msg": obs.get("msg")}


def same_outcome(a, b):
    keys = ("k", "pid", "named", "errno", "winerror")
    return all(a.get(k) == b.get(k) for k in keys)


def py_class_of(name):
    return {"ESRCH": "ProcessLookupError", "ENOENT": "FileNotFoundError", "EPERM": "PermissionError",
            "EACCES": "PermissionError"}.get(name, "OSError")


def model_pid0(ident, pid, state, pid0):
    # OpenBSD: pids() adds 0 when Process(0).name() works, i.e. when the probe still sees pid 0
    if ident == "openbsd" and pid == 0 and state != "gone":
        return True
    return pid0


def world_states(emu):
    """(pid state, native status code): 'zombie' ranges over EVERY native code the module's own PROC_STATUSES maps to
    STATUS_ZOMBIE under this identity (OpenBSD: SDEAD and SZOMB; the stub gives each constant a distinct value)"""
    zc = getattr(emu, "_c20_zombie_codes", None)
    if zc is None:
        tree = ast.parse(open(os.path.join(emu.pkg_dir, T.FAMILY_FILE[T.FAMILY[emu.ident]]), encoding="utf-8").read())
        try:
            zc = T.status_tables(emu, tree)[1]
        except NotRecognised:
            zc = []
        emu._c20_zombie_codes = zc
    return [("gone", None)] + [("zombie", c) for c in (zc or [None])] + [("alive", None)]


def fault_cases(emu, tier, rng=None):
    """the exhaustive single-fault domain of one platform identity"""
    pids = PIDS if tier == "quick" else PIDS + [1, 2, 4]
    for meth in emu.process_methods():
        for pid in pids:
            obs0, tr0 = emu.run(meth, pid=pid)
            for k, call in enumerate(tr0):
                if call in NO_FAULT:
                    continue
                for ename, eno in ERRNOS:
                    wins = [None] + WIN_CODES if emu.windows else [None]
                    for win in wins:
                        for state, zcode in world_states(emu):
                            for pid0 in ((True, False) if pid == 0 else (True,)):
                                stickies = (False, True) if (emu.windows and win == E.ERROR_PARTIAL_COPY) else (False,)
                                for sticky in stickies:
                                    yield {"kind": "fault", "ident": emu.ident, "meth": meth, "pid": pid, "k": k,
                                           "call": call, "errno": ename, "winerror": win, "state": state,
                                           "zcode": zcode, "pid0": pid0, "sticky": sticky}


def run_fault(emu, c, with_trace=False):
    eno = dict(ERRNOS)[c["errno"]]
    kw = {}
    if c.get("kind") == "fault2":
        kw = {"fault2_at": c["k2"], "err2": (dict(ERRNOS)[c["errno2"]], c["winerror2"])}
    if c.get("probe_eperm") is not None:
        # the decorator's own `os.kill(pid, 0)` probe (native call #probe_eperm of the faulted run) answers EPERM: the pid
        # exists but belongs to somebody else — same world as `state`, so the same model / spec answer as the plain case
        kw = {"fault2_at": c["probe_eperm"], "err2": (errno.EPERM, None)}
    obs, tr = emu.run(c["meth"], pid=c["pid"], fault_at=c["k"], err=(eno, c["winerror"]), state=c["state"],
                      pid0_listed=c["pid0"], sticky=c.get("sticky", False), name=CACHED_NAME, ppid=CACHED_PPID,
                      zcode=c.get("zcode"), empty=c.get("empty") or (), **kw)
    out = impl_outcome(obs)
    out["sleeps"] = obs.get("sleeps", 0)
    if "slept" in obs:
        out["slept"] = obs["slept"]
    if len(tr) <= c["k"] or tr[c["k"]] != c["call"]:
        out = {"k": "trace-drift", "trace": tr[:8]}
    elif c.get("kind") == "fault2" and (len(tr) <= c["k2"] or tr[c["k2"]] != c["call2"]):
        out = {"k": "trace-drift", "trace": tr[:8]}
    return (out, tr) if with_trace else out


def _fault_points(emu, meth, pid, tr, empty, extra=None):
    """every swept fault at every faultable call of one (emptied) run"""
    for k, call in enumerate(tr):
        if call in NO_FAULT:
            continue
        for ename, eno, win in swept_errs(emu):
            for state, zcode in world_states(emu):
                for pid0 in ((True, False) if pid == 0 else (True,)):
                    yield dict({"kind": "fault", "ident": emu.ident, "meth": meth, "pid": pid, "k": k, "call": call,
                                "errno": ename, "winerror": win, "state": state, "zcode": zcode, "pid0": pid0,
                                "sticky": False, "empty": list(empty)}, **(extra or {}))


def empty_answer_cases(emu, tier, rng, n_random):
    """The empty-answer family (seeded round 5): a native call SUCCEEDS but its answer about the process is empty,
    then a native call of THAT run fails.
      structured  — every emptied run whose call sequence differs from the plain one (it reaches code the plain run
                    does not: the liveness re-checks, or stops early), no fault: the method must return;
      exhaustive  — × every faultable call of that run × every swept error × pid state × pid-0 listing;
      random      — a random NON-EMPTY SUBSET of the emptiable answers of a random (method, pid) at once, a random
                    call of that run, a random swept error / state (covers the runs with the plain call sequence and
                    several empty answers together)."""
    pids = PIDS if tier == "quick" else PIDS + [1, 2, 4]
    rows = empty_rows(emu, pids)
    for m, pid, name, tr0, tr, obs in rows:
        if tr != tr0:
            yield {"kind": "emptyrun", "ident": emu.ident, "meth": m, "pid": pid, "empty": [name], "part": "structured"}
            for c in _fault_points(emu, m, pid, tr, [name], {"part": "exhaustive"}):
                yield c
    by_mp = {}
    for m, pid, name, tr0, tr, obs in rows:
        by_mp.setdefault((m, pid), []).append(name)
    keys = sorted(by_mp)
    errs, states = swept_errs(emu), world_states(emu)
    for _ in range(n_random if keys else 0):
        m, pid = keys[rng.randrange(len(keys))]
        names = by_mp[(m, pid)]
        sub = [n for n in names if rng.random() < 0.6] or [names[rng.randrange(len(names))]]
        obs, tr = emu.run(m, pid=pid, empty=sub)
        ks = [k for k, call in enumerate(tr) if call not in NO_FAULT]
        if not ks:
            continue
        k = ks[rng.randrange(len(ks))]
        ename, eno, win = errs[rng.randrange(len(errs))]
        state, zcode = states[rng.randrange(len(states))]
        yield {"kind": "fault", "ident": emu.ident, "meth": m, "pid": pid, "k": k, "call": tr[k], "errno": ename,
               "winerror": win, "state": state, "zcode": zcode, "pid0": (rng.random() < 0.5) if pid == 0 else True,
               "sticky": False, "empty": sorted(sub), "part": "random"}


def run_emptyrun(emu, c):
    obs, tr = emu.run(c["meth"], pid=c["pid"], empty=c["empty"], name=CACHED_NAME, ppid=CACHED_PPID)
    return obs


def judge_emptyrun(emu, c, obs, res):
    """an empty answer is not an OS failure: nothing for the error contract to translate, the method returns (the
    collection it builds from the answer is then empty — compared with the plain run's type only)"""
    if obs.get("kind") != "value":
        res.disagree("spec", c, obs, None, {"kind": "value"},
                     note="%s.Process(%d).%s(): the native call(s) %s succeed with an EMPTY answer and nothing fails — the method must "
                     "return, not raise" % (c["ident"], c["pid"], c["meth"], ", ".join(c["empty"])))
        return True
    return False


def probe_eperm_cases(emu, cases):
    """E4: single-fault cases (pid 42, process still there: zombie or alive, 'no such process' errno) whose faulted run goes
    through an `os.kill(pid, 0)` probe afterwards × that probe raising EPERM"""
    if emu.windows:
        return
    for c in cases:
        if c["pid"] != 42 or c["state"] == "gone" or c["errno"] not in ("ESRCH", "ENOENT") or c["sticky"]:
            continue
        _, tr = run_fault(emu, c, with_trace=True)
        ks = [i for i, n in enumerate(tr) if i > c["k"] and n == "os.kill"]
        if ks:
            yield dict(c, probe_eperm=ks[0])


def status_cases(emu):
    """status(): the status slot of the one-shot record swept over EVERY native code of the identity's PROC_STATUSES"""
    if not hasattr(emu.mod, "PROC_STATUSES"):
        return
    tree = ast.parse(open(os.path.join(emu.pkg_dir, T.FAMILY_FILE[T.FAMILY[emu.ident]]), encoding="utf-8").read())
    try:
        codes = T.status_tables(emu, tree)[0]
    except NotRecognised:
        codes = sorted(X.STATUS_DOC.get(emu.ident, {}))
    for code in sorted(set(codes) | set(X.STATUS_DOC.get(emu.ident, {}))):
        yield {"kind": "status", "ident": emu.ident, "code": code}


def run_status(emu, c):
    if c["code"] not in emu.consts:
        return {"kind": "no-such-native-constant"}
    w = E.World(emu, 42, state="zombie", zcode=c["code"])     # the stub puts the named code into the status slot
    w.switched = True

    def call():
        p = emu.mod.Process(42)
        p._name, p._ppid = CACHED_NAME, CACHED_PPID
        return p.status()
    obs, _ = emu.call(call, world=w)
    return obs


def judge_status(emu, c, obs, res):
    want = X.STATUS_DOC.get(emu.ident, {}).get(c["code"])
    if want is None:
        res.disagree("spec", c, obs, None, None, note="%s: native status code %s is in PROC_STATUSES but has no documented meaning "
                     "(c20_expect.STATUS_DOC)" % (emu.ident, c["code"]))
        return True
    if obs.get("kind") != "value" or obs.get("value") != want:
        res.disagree("spec", c, obs, None, want, note="%s status(): native code %s must be reported as %r" % (emu.ident, c["code"], want))
        return True
    return False


def two_fault_cases(emu, cases, impls):
    """Two-fault sequences: every single-fault case after which the method went on (it returned a value although a
    call raised: inner handler absorbed the error, or the partial-copy retry re-ran the body) × every later native
    call of THAT run's trace (un-faultable and pure probe calls excepted) × every swept error."""
    for c, impl in zip(cases, impls):
        if impl.get("k") != "value" or c["sticky"]:
            continue
        _, tr = run_fault(emu, c, with_trace=True)
        for k2, call2 in continuation(emu, tr, c["k"]):
            for ename, _, win in swept_errs(emu):
                d = dict(c, kind="fault2", k2=k2, call2=call2, errno2=ename, winerror2=win)
                d.pop("sticky", None)
                yield d


def fault_line(c):
    if c.get("kind") == "fault2":
        return {"op": "fault2", "plat": c["ident"], "meth": c["meth"], "call": c["call"], "errno": c["errno"],
                "winerror": c["winerror"], "call2": c["call2"], "errno2": c["errno2"], "winerror2": c["winerror2"],
                "state": c["state"], "zcode": c.get("zcode"), "pid": c["pid"],
                "pid0": model_pid0(c["ident"], c["pid"], c["state"], c["pid0"])}
    return {"op": "fault", "zcode": c.get("zcode"), "plat": c["ident"], "meth": c["meth"], "call": c["call"], "errno": c["errno"],
            "winerror": c["winerror"], "state": c["state"], "pid": c["pid"],
            "pid0": model_pid0(c["ident"], c["pid"], c["state"], c["pid0"]), "persistent": c["sticky"]}


def judge_fault(c, impl, m, res):
    """compare one executed fault case with model and spec; returns True when a disagreement was recorded"""
    if "bad" in m:
        res.disagree("model", c, impl, m, None, note="the model has no such method/platform: " + str(m["bad"]))
        return True
    mo, allowed = m["model"]["o"], m["spec"]["allowed"]
    in_spec = any(same_outcome(impl, a) for a in allowed)
    region = None
    for fid, (pl, me, ca) in KNOWN_REGIONS.items():
        # tolerated only while the finding is still listed as known (both were fixed by 61843a1 / 4481769: a return
        # of the bare OSError is a violation again)
        if (c["ident"], c["meth"], c["call"]) == (pl, me, ca) and fid in KNOWN_NOW:
            region = fid
    if not in_spec and ZOMBIE_FINDING in KNOWN_NOW and any(same_outcome(impl, a) for a in m["spec"].get("tolerated", [])):
        res.known_seen[ZOMBIE_FINDING] = res.known_seen.get(ZOMBIE_FINDING, 0) + 1
        in_spec = True           # known deviation: not a new violation; the model comparison below still applies
    if not in_spec:
        if region and impl.get("k") == "raw" and impl.get("errno") == c["errno"] and impl.get("winerror") == c["winerror"]:
            res.known_seen[region] = res.known_seen.get(region, 0) + 1
            return False
        second = ""
        if c.get("empty"):
            second = " [the native call(s) %s had SUCCEEDED with an empty answer]" % ", ".join(c["empty"])
        if c.get("kind") == "fault2":
            second += " (the method goes on), then native call #%d %s raises %s(winerror=%s)" % (
                c["k2"], c["call2"], c["errno2"], c["winerror2"])
        res.disagree("spec", c, impl, mo, {"cell": m["spec"]["cell"], "allowed": allowed},
                     note="%s.Process(%d).%s(): native call #%d %s %s %s(winerror=%s)%s, pid then %s: outcome outside the specification"
                     % (c["ident"], c["pid"], c["meth"], c["k"], c["call"],
                        "answers False because the stat() inside it fails with" if c["call"] in E.PATH_PROBES else "raises",
                        c["errno"], c["winerror"], second,
                   c["state"] + ("" if not c.get("zcode") else " (status slot = %s)" % c["zcode"])))
        return True
    if c.get("sticky") and impl.get("k") == "ad" and m["model"]["sleeps"] > 0 and impl.get("sleeps") != m["spec"]["retries"]:
        res.disagree("spec", c, impl, m["model"], {"retries": m["spec"]["retries"]},
                     note="ERROR_PARTIAL_COPY is retried %s times before AccessDenied, the documented number is %s"
                     % (impl.get("sleeps"), m["spec"]["retries"]))
        return True
    if c.get("sticky") and impl.get("k") == "ad" and impl.get("sleeps") == m["spec"]["retries"] > 0 \
            and not (RETRY_TOTAL_S[0] <= impl.get("slept", 0.0) <= RETRY_TOTAL_S[1]):
        res.disagree("spec", c, impl, m["model"], {"retries_for_roughly_seconds": list(RETRY_TOTAL_S)},
                     note="ERROR_PARTIAL_COPY: the %s retries sleep %s s in total; documented: \"retries for roughly 1 second\""
                     % (impl.get("sleeps"), impl.get("slept")))
        return True
    if not same_outcome(impl, mo) or impl.get("sleeps", 0) != m["model"]["sleeps"]:
        res.disagree("model", c, impl, m["model"], {"cell": m["spec"]["cell"], "allowed": allowed},
                     note="implementation differs from the Lean model (still inside the specification)")
        return True
    if impl.get("k") == "raw" and impl.get("cls") != py_class_of(impl.get("errno")):
        res.disagree("model", c, impl, m["model"], None, note="unexpected OSError subclass")
        return True
    return False


# ---- seeded round 5 (C20-8): a oneshot() block as a history


def block_profile(emu, pid=42):
    """per public method, measured on the real module: (returns a value when called alone in a block?, does it read a
    memoised one-shot record? — a second call in the same block makes FEWER native calls than the first, returns a value
    when the pid is a zombie at that time?)"""
    cache = getattr(emu, "_c20_block_profile", None)
    if cache is not None:
        return cache
    prof = {}
    for m in emu.process_methods():
        if m in BLOCK_NOT_HISTORY:
            continue
        obs, hobs, tr, htr = emu.run_block([(m, "alive")], m, pid=pid)
        if obs["kind"] != "value" or hobs[0]["kind"] != "value":
            continue
        obz, hobz, _, _ = emu.run_block([(m, "zombie")], m, pid=pid)
        prof[m] = {"reads": len(tr) < len(htr[0]), "zombie_ok": hobz[0]["kind"] == "value"}
    emu._c20_block_profile = prof
    return prof


# calls that change the process or wait for it: not used as EARLIER steps of a block (they are still final steps)
BLOCK_NOT_HISTORY = {"kill", "suspend", "resume", "send_signal", "wait", "nice_set", "cpu_affinity_set", "ionice_set",
                     "rlimit", "terminate"}
BLOCK_ERRS_STRUCT = ("ESRCH", "ENOENT", "EPERM", "EIO")


def _block_case(emu, hist, meth, k, call, ename, win, state, zcode, exited, part, pid=42):
    return {"kind": "block", "ident": emu.ident, "history": [list(h) for h in hist], "meth": meth, "pid": pid, "k": k,
            "call": call, "errno": ename, "winerror": win, "state": state, "zcode": zcode, "pid0": True,
            "exited": exited, "part": part}


def block_cases(emu, rng, n_random, exhaustive):
    """The oneshot-block family: a HISTORY of calls on one Process object inside `oneshot()` (each with the pid state at
    that time: alive or already a zombie), then a call whose native call #k fails while the pid is alive / zombie / gone.
      structured  — history = EVERY record-reading method of the identity (all memoised records are filled), read while
                    alive and read while a zombie × every method × every native call it still makes × 4 errnos × 3
                    states, inside the block; and the same after oneshot_exit() for ESRCH;
      exhaustive  — (identities in `exhaustive`) every ordered pair (one record-reading method, final method) × every
                    call × ESRCH × every transition alive→{alive, zombie, gone}, zombie→{zombie, gone};
      random      — 1–4 random earlier calls (readers and non-readers) with random states, random final call / error /
                    state, inside or after the block."""
    prof = block_profile(emu)
    readers = sorted(m for m, v in prof.items() if v["reads"])
    others = sorted(m for m, v in prof.items() if not v["reads"])
    finals = emu.process_methods()
    states = world_states(emu)

    def points(hist, meth, exited):
        obs, hobs, tr, htr = emu.run_block(hist, meth, exited=exited)
        if any(h["kind"] != "value" for h in hobs):
            return []
        return [(k, c) for k, c in enumerate(tr) if c not in NO_FAULT]

    for s0 in ("alive", "zombie"):
        hist = [(m, s0) for m in readers if s0 == "alive" or prof[m]["zombie_ok"]]
        if not hist:
            continue
        for meth in finals:
            for exited in (False, True):
                for k, call in points(hist, meth, exited):
                    for ename in (BLOCK_ERRS_STRUCT if not exited else ("ESRCH",)):
                        for state, zcode in states:
                            yield _block_case(emu, hist, meth, k, call, ename, None, state, zcode, exited, "structured")
    if emu.ident in exhaustive:
        for r in readers:
            for s0, nexts in (("alive", ("alive", "zombie", "gone")), ("zombie", ("zombie", "gone"))):
                if s0 == "zombie" and not prof[r]["zombie_ok"]:
                    continue
                for meth in finals:
                    for k, call in points([(r, s0)], meth, False):
                        for s1 in nexts:
                            yield _block_case(emu, [(r, s0)], meth, k, call, "ESRCH", None, s1, None, False, "exhaustive")
    pool = readers + others
    errs = swept_errs(emu)
    for _ in range(n_random if pool else 0):
        hist = []
        for _i in range(rng.randint(1, 4)):
            src = readers if readers and rng.random() < 0.6 else pool
            m = src[rng.randrange(len(src))]
            st = "zombie" if prof[m]["zombie_ok"] and rng.random() < 0.3 else "alive"
            hist.append((m, st))
        meth = finals[rng.randrange(len(finals))]
        exited = rng.random() < 0.25
        pts = points(hist, meth, exited)
        if not pts:
            continue
        k, call = pts[rng.randrange(len(pts))]
        ename, eno, win = errs[rng.randrange(len(errs))]
        state, zcode = states[rng.randrange(len(states))]
        yield _block_case(emu, hist, meth, k, call, ename, win, state, zcode, exited, "random")


def run_block(emu, c):
    eno = dict(ERRNOS)[c["errno"]]
    obs, hobs, tr, htr = emu.run_block([tuple(h) for h in c["history"]], c["meth"], pid=c["pid"], fault_k=c["k"],
                                       err=(eno, c["winerror"]), state=c["state"], pid0_listed=c["pid0"],
                                       name=CACHED_NAME, ppid=CACHED_PPID, zcode=c.get("zcode"), exited=c["exited"])
    cname, cppid = obs.pop("cached", (CACHED_NAME, CACHED_PPID))
    if obs.get("psutil") and (cname, cppid) != (CACHED_NAME, CACHED_PPID):
        # an earlier call of the history legitimately refreshed what the object caches (BSD ppid() stores the ppid it
        # read): "carrying the pid and cached name" is judged against what the object holds when the failing call starts
        obs = dict(obs, name=CACHED_NAME if obs.get("name") == cname else ("!" + str(obs.get("name"))))
        if "ppid" in obs:
            obs["ppid"] = CACHED_PPID if obs["ppid"] == cppid else ("!" + str(obs["ppid"]))
    out = impl_outcome(obs)
    out["sleeps"] = 0
    if any(h["kind"] != "value" for h in hobs) or len(tr) <= c["k"] or tr[c["k"]] != c["call"]:
        out = {"k": "trace-drift", "trace": tr[:8]}
    return out


def block_line(emu, c):
    prof = block_profile(emu)
    return {"op": "block", "zcode": c.get("zcode"), "plat": c["ident"], "meth": c["meth"], "call": c["call"],
            "errno": c["errno"], "winerror": c["winerror"], "state": c["state"], "pid": c["pid"],
            "pid0": model_pid0(c["ident"], c["pid"], c["state"], c["pid0"]), "exited": c["exited"],
            "history": [{"reads": bool(prof.get(h[0], {}).get("reads")), "state": h[1]} for h in c["history"]]}


def judge_block(c, impl, m, res):
    if impl.get("k") == "trace-drift":
        res.disagree("model", c, impl, m.get("model"), None,
                     note="oneshot block: the history no longer returns / the last call no longer makes that native call")
        return True
    n0 = len(res.disagreements)
    bad = judge_fault(c, dict(impl, sleeps=m.get("model", {}).get("sleeps", 0)), m, res)
    for d in res.disagreements[n0:]:
        d["note"] = "inside ONE oneshot() block, after %s%s: %s" % (
            ", ".join("%s() [pid %s]" % (h[0], h[1]) for h in c["history"]),
            " and oneshot_exit()" if c["exited"] else "", d.get("note", ""))
    return bad


# ---- values


def expected_rows(rows):
    """driver rows → {nt: [[field, value]]} and list of bare values"""
    nts, bare = {}, []
    for r in rows:
        src, slot = r["src"], r["slot"]
        if src.startswith("const:"):
            v = ast.literal_eval(src[len("const:"):])
        elif slot is None:
            v = ("unresolved", src)
        else:
            v = E.slot_value(REC_OF_MAP[slot["map"]], slot["idx"]) * slot["mul"]
        if r["nt"]:
            nts.setdefault(r["nt"], []).append([r["field"], v])
        else:
            bare.append(v)
    return nts, bare


def check_value(emu, fam, meth, obs, rowsets, res, case):
    """tuple contents vs slot values, for model rows and spec rows"""
    bad = False
    for which in ("spec", "model"):
        nts, bare = expected_rows(rowsets[which])
        val = obs.get("value") if obs["kind"] == "value" else None
        problem = None
        if obs["kind"] != "value":
            problem = "no value: %r" % (obs,)
        elif nts:
            vals = val if isinstance(val, list) else [val]
            if not vals or not all(isinstance(x, dict) and "nt" in x for x in vals):
                problem = "not a namedtuple"
            for x in ([] if problem else vals):
                got = {f: v for f, v in x["fields"]}
                for nt, fl in nts.items():
                    if nt != x["nt"]:
                        problem = "namedtuple type %s, expected %s" % (x["nt"], nt)
                    for f, v in fl:
                        if f not in got or got[f] != v:
                            problem = "field %s = %r, expected %r (slot named for it)" % (f, got.get(f), v)
        elif bare and meth not in TRANSFORMED_BARE and not meth.startswith("_"):
            if len(bare) == 1 and val != bare[0]:
                problem = "value %r, expected %r" % (val, bare[0])
        if problem:
            res.disagree(which if which == "spec" else "model", case, obs, rowsets["model"], rowsets["spec"],
                         note="%s %s(): %s" % (emu.ident, meth, problem))
            bad = True
            break
    return bad


def value_cases(emu):
    for meth in emu.process_methods():
        yield {"kind": "value", "ident": emu.ident, "meth": meth, "pid": 42, "fallback": False}
    for (fam, meth) in sorted(FALLBACK_ROWS):
        if fam == T.FAMILY[emu.ident]:
            yield {"kind": "value", "ident": emu.ident, "meth": meth, "pid": 42, "fallback": True}


def run_value(emu, c):
    if c.get("fallback"):
        obs, tr = emu.run(c["meth"], pid=c["pid"], fault_at=0,
                          err=(errno.EACCES, E.ERROR_ACCESS_DENIED if emu.windows else None), state="alive",
                          name=CACHED_NAME, ppid=CACHED_PPID)
    else:
        obs, tr = emu.run(c["meth"], pid=c["pid"], name=CACHED_NAME, ppid=CACHED_PPID)
    return obs


def fallback_expect(meth, spec_rows_by_method):
    """Windows fall-back tuples: what the documented namedtuple must contain"""
    if meth in ("memory_info", "memory_full_info"):
        _, t = expected_rows(spec_rows_by_method["_get_raw_meminfo"])
        srcs = [r["src"] for r in spec_rows_by_method["_get_raw_meminfo"]]
        rss, vms = t[srcs.index("pinfo_map.wset")], t[srcs.index("pinfo_map.pagefile")]
        fields = [f for f, _ in DIRECT_EXPECT[("windows", "memory_info")]]
        if meth == "memory_full_info":     # pfullmem = pmem + (uss,), uss = proc_memory_uss() pages × page size
            return {"nt": "pfullmem", "fields": [[f, v] for f, v in zip(fields + ["uss"], [rss, vms] + t + [3 * 4096])]}
        return {"nt": "pmem", "fields": [[f, v] for f, v in zip(fields, [rss, vms] + t)]}
    if meth == "io_counters":
        _, t = expected_rows(spec_rows_by_method["io_counters"])
        fields = [f for f, _ in DIRECT_EXPECT[("windows", "io_counters")]]
        return {"nt": "pio", "fields": [[f, v] for f, v in zip(fields, t)]}
    return None


def judge_value(emu, c, obs, rows, res):
    fam = T.FAMILY[emu.ident]
    meth = c["meth"]
    if c.get("fallback"):
        want = fallback_expect(meth, rows)
        if want is not None:
            if obs.get("value") != want:
                res.disagree("spec", c, obs, None, want, note="Windows %s() fall-back tuple is not the documented layout" % meth)
                return True
            return False
        return check_value(emu, fam, meth, obs, rows[meth + "@rows"], res, c)
    # every method has an expected value (per-item tuples by hand from the native item layout, the rest a reviewed literal)
    found, want = X.expected(emu.ident, meth)
    if not found:
        res.disagree("spec", c, obs, None, None,
                     note="%s %s(): no expected value for this method (harness/props/c20_expect.py) — a new public method must get one"
                     % (emu.ident, meth))
        return True
    if obs["kind"] != "value" or obs.get("value") != want:
        res.disagree("spec", c, obs, None, want, note="%s %s(): returned value differs from the expected one "
                     "(native answer laid out in the documented namedtuple, field by field)" % (emu.ident, meth))
        return True
    res.count("values:expected-value-compared")
    direct = DIRECT_EXPECT.get((fam, meth))
    if direct is not None:
        val = obs.get("value")
        if not (obs["kind"] == "value" and isinstance(val, dict) and val.get("fields") == direct and val.get("nt") == DIRECT_NT[meth]):
            res.disagree("spec", c, obs, None, {"nt": DIRECT_NT[meth], "fields": direct},
                         note="%s %s(): not the documented namedtuple type, or fields not in the order the native tuple documents" % (emu.ident, meth))
            return True
    rs = rows.get(meth + "@rows")
    if rs and (rs["model"] or rs["spec"]):
        if (fam, meth) in FALLBACK_ROWS:
            return False          # their rows describe the fall-back path (checked with fallback=True)
        return check_value(emu, fam, meth, obs, rs, res, c)
    if obs["kind"] not in ("value",):
        res.disagree("spec", c, obs, None, None, note="%s %s() without any fault does not return" % (emu.ident, meth))
        return True
    return False


# ---- net_if_addrs


def dotted(n):
    return ".".join(str((n >> s) & 255) for s in (24, 16, 8, 0))


def netif_cases(emu, rng, n_random):
    sep = "-" if emu.windows else ":"
    out = []
    for groups in range(1, 8):
        out.append({"fam": "link", "mac": sep.join("%02x" % (16 + i) for i in range(groups)), "ip": 0, "plen": None, "bcast": None})
    ips = [0xC0A8010A, 0x0A000001, 0xFFFFFFFF, 0, 0xAC10FE07]
    for plen in range(0, 33):
        for ip in ips[:2]:
            out.append({"fam": "inet", "mac": "", "ip": ip, "plen": plen, "bcast": None})
    for ip in ips:
        out.append({"fam": "inet", "mac": "", "ip": ip, "plen": None, "bcast": None})
    for _ in range(n_random):
        plen = rng.randrange(0, 33)
        ip = rng.randrange(0, 2 ** 32)
        b = None if emu.windows else ((ip | (2 ** (32 - plen) - 1)) if rng.random() < 0.7 else None)
        out.append({"fam": "inet", "mac": "", "ip": ip, "plen": plen, "bcast": b})
    # AF_INET6 (the statement names it): netmask = prefix length, every length for one address, a few for others
    ip6 = [0xfe800000000000000000000000000001, 0x20010db8000000000000abcd12345678, 0, 2 ** 128 - 1]
    for ip in ip6:
        out.append({"fam": "inet6", "mac": "", "ip": ip, "plen": None, "bcast": None})
    for plen in range(0, 129):
        out.append({"fam": "inet6", "mac": "", "ip": ip6[1], "plen": plen, "bcast": None})
    for ip in (ip6[0], ip6[2], ip6[3]):
        for plen in (0, 1, 7, 64, 127, 128):
            out.append({"fam": "inet6", "mac": "", "ip": ip, "plen": plen, "bcast": None})
    for _ in range(n_random // 4):
        out.append({"fam": "inet6", "mac": "", "ip": rng.randrange(0, 2 ** 128), "plen": rng.randrange(0, 129), "bcast": None})
    return [dict(c, kind="netif", ident=emu.ident) for c in out]


def text6(n):
    import ipaddress
    return str(ipaddress.IPv6Address(n))


def run_netif(emu, c):
    if c["fam"] == "link":
        fam = -1 if emu.windows else emu.consts["AF_LINK"]
        raw = ("nic0", fam, c["mac"], None, None, None)
    elif c["fam"] == "inet":
        mask = None if c["plen"] is None else dotted((2 ** 32 - 1) ^ (2 ** (32 - c["plen"]) - 1))
        raw = ("nic0", int(socket.AF_INET), dotted(c["ip"]), mask, None if c["bcast"] is None else dotted(c["bcast"]), None)
    else:
        raw = ("nic0", int(socket.AF_INET6), text6(c["ip"]), None if c["plen"] is None else str(c["plen"]),
               None if c["bcast"] is None else text6(c["bcast"]), None)
    emu.netif_raw = [raw]
    obs, tr = emu.call(emu.pkg.net_if_addrs)
    if obs["kind"] != "value":
        return {"k": "exc", "obs": obs}
    try:
        ent = obs["value"]["dict"][0][1][0]
        f = {k: v for k, v in ent["fields"]}
        return {"k": "ok", "address": f["address"], "netmask": f["netmask"], "broadcast": f["broadcast"], "ptp": f["ptp"],
                "family": f["family"].get("name") if isinstance(f["family"], dict) else f["family"]}
    except Exception as e:  # noqa: BLE001
        return {"k": "shape", "obs": obs, "err": repr(e)}


def netif_line(emu, c):
    return {"op": "netif", "windows": emu.windows, "fam": c["fam"], "mac": c["mac"], "ip": c["ip"], "plen": c["plen"],
            "bcast": c["bcast"]}


def judge_netif(emu, c, impl, m, res):
    def want(side):
        w = {"k": "ok"}
        if c["fam"] == "link":
            w["address"] = m[side]["mac"]
            w["broadcast"] = None
        elif c["fam"] == "inet":
            w["address"] = dotted(c["ip"])
            w["broadcast"] = None if m[side]["bcast"] is None else dotted(m[side]["bcast"])
        else:
            w["address"] = text6(c["ip"])
            w["broadcast"] = None if m[side]["bcast"] is None else text6(m[side]["bcast"])
        return w
    for side, kind in (("spec", "spec"), ("model", "model")):
        w = want(side)
        if impl.get("k") != "ok" or impl["address"] != w["address"] or impl["broadcast"] != w["broadcast"]:
            res.disagree(kind, c, impl, want("model"), want("spec"),
                         note="%s net_if_addrs(): post-processing result differs from the %s" % (emu.ident, side))
            return True
    return False


# ---- net_if_addrs: one call on a native answer of MANY records (records on which the helper raises included)

# texts ipaddress rejects as a netmask of the family; a "plen" beyond the family's width selects one of them
BAD_MASK4 = ["255.0.255.0", "255.255.255.256", "255.255.0.255", "ffff::", "33", "255.255"]
BAD_MASK6 = ["ffff:ffff:ffff:ffff::", "129", "255.255.255.0", "-1", "64/64", "zz"]

# record kinds the family is spanned over: (fam, plen) with plen None = no netmask, > width = rejected netmask
NETIFS_KINDS = [("link", None), ("inet", 24), ("inet", 8), ("inet", None), ("inet", 33), ("inet", 35),
                ("inet6", 64), ("inet6", None), ("inet6", 129), ("inet6", 130)]


def _mask_text(fam, plen):
    if plen is None:
        return None
    if fam == "inet":
        if plen <= 32:
            return dotted((2 ** 32 - 1) ^ (2 ** (32 - plen) - 1))
        return BAD_MASK4[(plen - 33) % len(BAD_MASK4)]
    if plen <= 128:
        return str(plen)
    return BAD_MASK6[(plen - 129) % len(BAD_MASK6)]


def _netifs_rec(fam, plen, nic, k, sep, rng=None, native_b=False):
    if fam == "link":
        groups = 1 + (k % 6)
        return {"nic": nic, "fam": "link", "mac": sep.join("%02x" % (16 + k + i) for i in range(groups)), "ip": 0,
                "plen": None, "bcast": None}
    if fam == "inet":
        ip = rng.randrange(1, 2 ** 32) if rng else (0x0A000001 + 0x01010100 * k) % 2 ** 32
        b = (ip | 0xFF) if native_b else None
    else:
        ip = rng.randrange(1, 2 ** 128) if rng else 0xfe800000000000000000000000000001 + (k << 64)
        b = (ip | 0xFFFF) if native_b else None
    return {"nic": nic, "fam": fam, "mac": "", "ip": ip, "plen": plen, "bcast": b}


def _check_bad_masks():
    """the family's premise, checked on the host's ipaddress module: every text of BAD_MASK4/6 IS rejected"""
    import ipaddress
    for cls, a, texts in ((ipaddress.IPv4Network, "10.1.2.3", BAD_MASK4), (ipaddress.IPv6Network, "fe80::1", BAD_MASK6)):
        for t in texts:
            try:
                cls("%s/%s" % (a, t), strict=False)
            except ValueError:
                continue
            raise InfraError("ipaddress accepts %r as a netmask: not a rejected-netmask text" % t)


def netifs_cases(emu, rng, n_random, exhaustive):
    _check_bad_masks()
    sep = "-" if emu.windows else ":"
    out = []
    # structured: every ordered pair of record kinds, on one NIC and on two
    for i, (f1, p1) in enumerate(NETIFS_KINDS):
        for j, (f2, p2) in enumerate(NETIFS_KINDS):
            for nics in ((0, 0), (0, 1)):
                out.append(("pair", [_netifs_rec(f1, p1, nics[0], 1, sep), _netifs_rec(f2, p2, nics[1], 2, sep)]))
    # small exhaustive: every triple over a reduced alphabet (one representative per helper outcome and family)
    small = [("link", None), ("inet", 24), ("inet", None), ("inet", 34), ("inet6", 64), ("inet6", 129)]
    if exhaustive:
        for a in range(len(small)):
            for b in range(len(small)):
                for c in range(len(small)):
                    recs = [_netifs_rec(small[x][0], small[x][1], nic, pos + 1, sep)
                            for pos, (x, nic) in enumerate(((a, 0), (b, 1), (c, 0)))]
                    out.append(("triple", recs))
    # random: 2..7 records, 1..3 NICs, random addresses, every bad-mask text, native broadcast off Windows
    for _ in range(n_random):
        n = rng.randrange(2, 8)
        recs = []
        for k in range(n):
            fam = rng.choice(["link", "inet", "inet", "inet6", "inet6"])
            if fam == "link":
                plen = None
            else:
                width = 32 if fam == "inet" else 128
                plen = rng.choice([None, rng.randrange(0, width + 1), rng.randrange(0, width + 1),
                                   width + 1 + rng.randrange(0, 6)])
            recs.append(_netifs_rec(fam, plen, rng.randrange(0, 3), k, sep, rng=rng,
                                    native_b=(not emu.windows and rng.random() < 0.5)))
        out.append(("random", recs))
    return [{"kind": "netifs", "ident": emu.ident, "part": part, "recs": recs} for part, recs in out]


def _netifs_keys(emu):
    return {"key_link": 0 if emu.windows else int(emu.consts["AF_LINK"]) + 1,
            "key_inet": int(socket.AF_INET) + 1, "key_inet6": int(socket.AF_INET6) + 1}


def netifs_line(emu, c):
    # family numbers as the sort keys of this identity (shifted by one: Windows flags a MAC record with -1)
    return dict({"op": "netifs", "windows": emu.windows, "recs": c["recs"]}, **_netifs_keys(emu))


def _netifs_addr(r):
    return r["mac"] if r["fam"] == "link" else (dotted(r["ip"]) if r["fam"] == "inet" else text6(r["ip"]))


def _netifs_b(r):
    if r["bcast"] is None:
        return None
    return dotted(r["bcast"]) if r["fam"] == "inet" else text6(r["bcast"])


def run_netifs(emu, c):
    raw = []
    for r in c["recs"]:
        if r["fam"] == "link":
            fam = -1 if emu.windows else emu.consts["AF_LINK"]
        else:
            fam = int(socket.AF_INET) if r["fam"] == "inet" else int(socket.AF_INET6)
        raw.append(("nic%d" % r["nic"], fam, _netifs_addr(r), _mask_text(r["fam"], r["plen"]), _netifs_b(r), None))
    emu.netif_raw = raw
    obs, tr = emu.call(emu.pkg.net_if_addrs)
    if obs["kind"] != "value":
        return {"k": "exc", "obs": obs}
    try:
        got = {}
        for name, ents in obs["value"]["dict"]:
            rows = []
            for ent in ents:
                f = {k: v for k, v in ent["fields"]}
                rows.append([f["address"], f["netmask"], f["broadcast"], f["ptp"]])
            got[name] = rows
        return {"k": "ok", "nics": got}
    except Exception as e:  # noqa: BLE001
        return {"k": "shape", "obs": obs, "err": repr(e)}


def judge_netifs(emu, c, impl, m, res):
    masks = {}
    for r in c["recs"]:
        masks.setdefault((r["nic"], r["fam"], r["ip"], r["mac"] if r["fam"] != "link" else None), _mask_text(r["fam"], r["plen"]))

    def rows(side):
        w = {}
        for o in m[side]:
            src = [r for r in c["recs"] if r["nic"] == o["nic"] and r["fam"] == o["fam"] and r["ip"] == o["ip"]
                   and (r["fam"] != "link" or o["mac"].startswith(r["mac"]))]
            mask = _mask_text(src[0]["fam"], src[0]["plen"]) if src else None
            w.setdefault("nic%d" % o["nic"], []).append(
                [_netifs_addr(o), mask, _netifs_b(o), None])
        return w
    wm, ws = rows("model"), rows("spec")
    if impl.get("k") != "ok":
        res.disagree("spec", c, impl, wm, ws, note="%s net_if_addrs() on %d records does not return" % (emu.ident, len(c["recs"])))
        return True
    got = impl["nics"]
    norm = lambda d: {k: sorted(v, key=repr) for k, v in d.items()}  # noqa: E731
    if norm(got) != norm(ws):
        res.disagree("spec", c, impl, wm, ws,
                     note="%s net_if_addrs(): a record of a %d-record native answer is not what the record on its own calls for"
                     % (emu.ident, len(c["recs"])))
        return True
    if got != wm:
        res.disagree("model", c, impl, wm, ws, note="%s net_if_addrs(): order / content differs from the model" % emu.ident)
        return True
    return False


# ---- api


def judge_api(emu, m, res):
    live = T.exposed_api(emu, {"x": m["documented"] + m["exposed"]})
    bad = False
    for nm in m["documented"]:
        if nm not in live:
            res.disagree("spec", {"kind": "api", "ident": emu.ident, "name": nm}, {"exposed": False}, None, {"exposed": True},
                         note="documented for %s but not exposed by the package imported as %s" % (emu.ident, emu.ident))
            bad = True
    if sorted(set(m["exposed"])) != sorted(set(live) & set(m["exposed"])):
        res.disagree("model", {"kind": "api", "ident": emu.ident}, sorted(live), m["exposed"], None,
                     note="generated `exposed` table differs from the live package")
        bad = True
    return bad


# ---- front end passes the records through


FRONT = [("ppid", "ppid"), ("cpu_times", "cpu_times"), ("memory_info", "memory_info"), ("uids", "uids"), ("gids", "gids"),
         ("num_ctx_switches", "num_ctx_switches"), ("io_counters", "io_counters"), ("num_threads", "num_threads"),
         ("status", "status"), ("nice", "nice_get"), ("create_time", "create_time"), ("cmdline", "cmdline")]


def front_end_pass(emu, res):
    n = 0
    for fm, pm in FRONT:
        if not hasattr(emu.pkg.Process, fm) or pm not in emu.process_methods():
            continue

        def call():
            return getattr(emu.pkg.Process(42), fm)()
        fobs, _ = emu.call(call)
        pobs, _ = emu.run(pm, pid=42)
        n += 1
        c = {"kind": "front", "ident": emu.ident, "meth": fm}
        res.case(("front", emu.ident, fm), nontrivial=True)
        res.count("family:front-end")
        if fobs != {k: v for k, v in pobs.items() if k != "sleeps"}:
            res.disagree("spec", c, fobs, None, pobs, note="front-end Process.%s() does not hand the platform record through" % fm)
    return n


# ---- the other platform-conditional branches of the front end (ppid / name caching, username, pid_exists(0),
# ---- cpu_affinity([]), disk_io_counters kwargs): the REAL __init__.py imported as each platform, over a scripted
# ---- platform-layer object (`_proc`) so that the native answer can change between two calls


class FakeProc:
    """stands in for `_psplatform.Process(pid)` behind a front-end Process"""

    def __init__(self, **answers):
        self.pid, self._name, self._ppid = 42, None, None
        self.answers = answers
        self.got = {}

    def __getattr__(self, n):
        if n.startswith("__") or n not in self.answers:
            raise AttributeError(n)
        a = self.answers[n]

        def f(*args, **kw):
            self.got[n] = [args, kw]
            if isinstance(a, BaseException):
                raise a
            return a
        return f


class FakePwd:
    def __init__(self, table):
        self.table = table

    def getpwuid(self, uid):
        if uid not in self.table:
            raise KeyError("getpwuid(): uid not found: %s" % uid)
        import types as _t
        return _t.SimpleNamespace(pw_name=self.table[uid])


LONG15 = "gnome-keyring-d"


def front_cases(emu):
    posix = not emu.windows
    base = {"kind": "front2", "ident": emu.ident, "windows": emu.windows, "posix": posix}
    for cached in (None, 7):
        for native in (9, 0):
            yield dict(base, fn="ppid", cached=cached, native=native)
    names = [("c20proc", ["/usr/bin/c20proc"]), (LONG15, ["/usr/bin/gnome-keyring-daemon", "--start"]), (LONG15, []),
             (LONG15, ["/usr/bin/other-daemon"]), (LONG15, "AccessDenied"), (LONG15, "ZombieProcess"),
             (LONG15 + "x", ["rel/" + LONG15 + "xyz"]), (LONG15[:14], ["/usr/bin/gnome-keyring-daemon"])]
    for cached in (None, "oldname"):
        for native, argv in names:
            yield dict(base, fn="name", cached=cached, native=native, argv=argv)
    for uid, pw in ((1101, "alice"), (1102, None)):
        yield dict(base, fn="username", uid=uid, pw=pw, native="DOM\\user")
    for pid in (-1, 0, 5):
        for listed in (True, False):
            for native in ((True, False) if emu.windows else (True,)):
                yield dict(base, fn="pid_exists", pid=pid, listed=listed, native=native)
    if hasattr(emu.pkg.Process, "cpu_affinity"):
        for cpus in ([], [1], [1, 1, 0]):
            yield dict(base, fn="affinity", ncpu=2, cpus=cpus)
    for perdisk in (False, True):
        yield dict(base, fn="disk", perdisk=perdisk)


def _disk_rows(emu):
    nt = getattr(emu.mod, "sdiskio", emu.common.sdiskio)
    w = len(nt._fields)
    return nt, [[100 * (d + 1) + i for i in range(w)] for d in range(2)]


def run_front(emu, c):
    """→ (observable, driver line)"""
    pkg, common = emu.pkg, emu.common
    fn = c["fn"]
    line = {"op": "front", "fn": fn, "windows": c["windows"], "posix": c["posix"]}

    def proc(fp, **attrs):
        p = pkg.Process(42)
        p._proc = fp
        for k, v in attrs.items():
            setattr(p, k, v)
        return p
    if fn == "ppid":
        def call():
            p = proc(FakeProc(ppid=c["native"]), _ppid=c["cached"])
            return [p.ppid(), p._ppid]
        obs, _ = emu.call(call)
        line.update(cached=c["cached"], native=c["native"])
        return obs, line
    if fn == "name":
        argv = c["argv"]
        cm = argv
        if argv == "AccessDenied":
            cm = common.AccessDenied(42)
        elif argv == "ZombieProcess":
            cm = common.ZombieProcess(42)

        def call():
            fp = FakeProc(name=c["native"], cmdline=cm)
            p = proc(fp, _name=c["cached"])
            r = p.name()
            return [r, p._name, fp._name]
        obs, _ = emu.call(call)
        line.update(cached=c["cached"], native=c["native"], argv=argv if isinstance(argv, list) else None)
        return obs, line
    if fn == "username":
        saved = getattr(pkg, "pwd", None)

        def call():
            fp = FakeProc(uids=common.puids(c["uid"], 1, 2), username=c["native"])
            return proc(fp).username()
        try:
            if c["posix"]:
                pkg.pwd = FakePwd({c["uid"]: c["pw"]} if c["pw"] else {})
            obs, _ = emu.call(call)
        finally:
            pkg.pwd = saved
        line.update(uid=c["uid"], pw=c["pw"], native=c["native"])
        return obs, line
    if fn == "pid_exists":
        w = E.World(emu, pid=42, pid0_listed=c["listed"],
                    overrides=({"pid_exists": lambda w_, pid: c["native"]} if emu.windows else {}))
        obs, _ = emu.call(lambda: [pkg.pid_exists(c["pid"]), pkg.pids()], world=w)
        pids = obs["value"][1] if obs["kind"] == "value" else []
        if obs["kind"] == "value":
            obs = {"kind": "value", "value": obs["value"][0]}
        line.update(pid=c["pid"], pids=pids, native=c["native"])
        return obs, line
    if fn == "affinity":
        def call():
            fp = FakeProc(cpu_affinity_set=None, cpu_affinity_get=[0, 1])
            proc(fp).cpu_affinity(c["cpus"])
            return sorted(fp.got["cpu_affinity_set"][0][0])
        obs, _ = emu.call(call)
        line.update(ncpu=c["ncpu"], cpus=c["cpus"])
        return obs, line
    if fn == "disk":
        nt, rows = _disk_rows(emu)
        got = {}

        def native(w_, *a, **kw):
            got["args"] = [list(a), sorted(kw)]
            return {"d%d" % i: tuple(r) for i, r in enumerate(rows)}
        w = E.World(emu, overrides={"disk_io_counters": native})

        def call():
            pkg.disk_io_counters.cache_clear()
            r = pkg.disk_io_counters(perdisk=c["perdisk"])
            names = sorted(k for k in common.wrap_numbers.cache_info()[0])
            return [r, names, got.get("args")]
        obs, _ = emu.call(call, world=w)
        line.update(perdisk=c["perdisk"], rows=rows)
        return obs, line
    raise InfraError("unknown front case %r" % (c,))


def front_expect(emu, c, side):
    """what the driver's `model` / `spec` answer means for the observable of run_front"""
    fn = c["fn"]
    if fn == "ppid":
        if "cache" in side:
            return [side["ret"], side["cache"]]
        return [side["ret"], None]        # the documentation does not speak about the cache slot
    if fn == "name":
        # the name is also handed down to the platform object (for its error messages) unless the cache answered
        early = c["windows"] and c["cached"] is not None
        return [side["ret"], side["ret"], None if early else side["ret"]]
    if fn in ("username", "pid_exists", "affinity"):
        return side["ret"]
    if fn == "disk":
        nt, rows = _disk_rows(emu)
        if c["perdisk"]:
            val = {"dict": sorted([["d%d" % i, {"nt": nt.__name__, "fields": [[f, v] for f, v in zip(nt._fields, r)]}]
                                   for i, r in enumerate(rows)], key=repr)}
        else:
            val = {"nt": nt.__name__, "fields": [[f, v] for f, v in zip(nt._fields, side["total"])]}
        return [val, [side["cache"]], [[], side["kwargs"]]]
    return None


def judge_front(emu, c, obs, m, res):
    if "bad" in m:
        raise InfraError("driver rejected front query: %s" % m)
    for which in ("spec", "model"):
        want = front_expect(emu, c, m[which])
        got = obs.get("value") if obs["kind"] == "value" else obs
        if c["fn"] == "ppid" and which == "spec" and isinstance(got, list):
            got = [got[0], None]
        if got != want:
            res.disagree(which, c, obs, front_expect(emu, c, m["model"]), front_expect(emu, c, m["spec"]),
                         note="%s front end %s(): result differs from the %s" % (emu.ident, c["fn"], which))
            return True
    return False


# ---- round 2: Process._get_ident / __eq__ / _send_signal / send_signal — the REAL front end over the REAL platform
# ---- module and the scripted native layer (no FakeProc except for `status()` inside __eq__)

INIT_NO_FAULT = NO_FAULT | {"check_pid_range"}     # pid range check: not a per-process query, raises OverflowError only
SIG_METHODS = ["send_signal", "terminate", "kill", "suspend", "resume"]
EQ_IDENTS_1 = [(42, 1110), (42, 0), (42, None)]
EQ_IDENTS_2 = [(42, 1110), (42, 0), (42, None), (43, None), (42, 2220)]
EQ_STATUS = ["zombie", "running", "zombieExc", "error", "error2"]


def _mk_proc(emu, pid, ignore=False):
    pkg = emu.pkg
    if not ignore:
        return pkg.Process(pid)
    p = pkg.Process.__new__(pkg.Process)
    p._init(pid, _ignore_nsp=True)
    return p


def _init_obs(emu, pid, ignore, world):
    def call():
        p = _mk_proc(emu, pid, ignore)
        return [list(p._ident), p._create_time, p._gone]
    obs, tr = emu.call(call, world=world)
    return obs, list(tr)


def front2_cases(emu, tier):
    ident = emu.ident
    base = {"kind": "front3", "ident": ident}
    # --- identity
    for pid in PIDS:
        obs0, tr0 = _init_obs(emu, pid, False, E.World(emu, pid))
        ct = obs0["value"][1] if obs0["kind"] == "value" else None
        for ign in (False, True):
            yield dict(base, fn="ident", pid=pid, ignore=ign, call=None, ct=ct, k=None)
        for k, call in enumerate(tr0):
            if call in INIT_NO_FAULT:
                continue
            for ename, eno, win in swept_errs(emu):
                for state, zcode in world_states(emu):
                    for pid0 in ((True, False) if pid == 0 else (True,)):
                        for ign in (False, True):
                            yield dict(base, fn="ident", pid=pid, ignore=ign, call=call, k=k, ct=ct, errno=ename,
                                       winerror=win, state=state, zcode=zcode, pid0=pid0)
    # --- equality
    for i1 in EQ_IDENTS_1:
        for i2 in EQ_IDENTS_2:
            for st in EQ_STATUS:
                yield dict(base, fn="eq", i1=list(i1), i2=list(i2), st=st)
    # --- signals
    if not emu.windows:
        for meth in SIG_METHODS:
            yield dict(base, fn="sigposix", meth=meth, pid=0, kill="ok", state="alive", zcode=None)
            for kill in ["ok"] + [e for e, _ in ERRNOS]:
                for state, zcode in world_states(emu):
                    yield dict(base, fn="sigposix", meth=meth, pid=42, kill=kill, state=state, zcode=zcode)
    else:
        for via, sig in (("send_signal", "SIGTERM"), ("send_signal", "CTRL_C_EVENT"), ("send_signal", "CTRL_BREAK_EVENT"),
                         ("send_signal", "other"), ("terminate", "SIGTERM"), ("kill", "SIGTERM")):
            yield dict(base, fn="sigwin", via=via, sig=sig, running=True, errno=None)
            if via == "send_signal" and sig != "SIGTERM":
                yield dict(base, fn="sigwin", via=via, sig=sig, running=False, errno=None)
            if sig != "other":
                for ename, eno, win in swept_errs(emu):
                    for state in ("gone", "alive"):
                        yield dict(base, fn="sigwin", via=via, sig=sig, running=True, errno=ename, winerror=win, state=state)


def _sig_value(emu, name):
    import signal as _sig
    if name == "SIGTERM":
        return _sig.SIGTERM
    if name == "CTRL_C_EVENT":
        return E.SignalProxy.CTRL_C_EVENT
    if name == "CTRL_BREAK_EVENT":
        return E.SignalProxy.CTRL_BREAK_EVENT
    return _sig.SIGINT


def _exc_outcome(obs):
    """front-end exception → vocabulary of the model (named = carries the cached name [and ppid])"""
    o = impl_outcome(obs)
    return o


def run_front2(emu, c):
    """→ (observable, driver line)"""
    pkg, common = emu.pkg, emu.common
    fn = c["fn"]
    line = {"op": "front2", "fn": fn}
    if fn == "ident":
        line.update(plat=c["ident"], ignore=c["ignore"], ct=int(c["ct"] or 0), call=c["call"])
        if c["call"] is None:
            obs, _ = _init_obs(emu, c["pid"], c["ignore"], E.World(emu, c["pid"]))
            return obs, line
        w = E.World(emu, c["pid"], c["k"], (dict(ERRNOS)[c["errno"]], c["winerror"]), c["state"], c["pid0"], zcode=c["zcode"])
        obs, tr = _init_obs(emu, c["pid"], c["ignore"], w)
        if len(tr) <= c["k"] or tr[c["k"]] != c["call"]:
            obs = {"kind": "trace-drift", "trace": tr[:8]}
        line.update(errno=c["errno"], winerror=c["winerror"], state=c["state"], pid=c["pid"], zcode=c["zcode"],
                    pid0=model_pid0(c["ident"], c["pid"], c["state"], c["pid0"]))
        return obs, line
    if fn == "eq":
        st = c["st"]
        ans = {"zombie": common.STATUS_ZOMBIE, "running": common.STATUS_RUNNING, "zombieExc": common.ZombieProcess(42),
               "error": common.NoSuchProcess(42), "error2": common.AccessDenied(42)}[st]

        def call():
            p1, p2 = pkg.Process(42), pkg.Process(42)
            p1._proc = FakeProc(status=ans)
            p2._proc = FakeProc(status=common.STATUS_RUNNING)
            p1._ident = (c["i1"][0], None if c["i1"][1] is None else float(c["i1"][1]))
            p2._ident = (c["i2"][0], None if c["i2"][1] is None else float(c["i2"][1]))
            return [p1 == p2, p1 != p2]
        obs, _ = emu.call(call)
        line.update(obn=c["ident"] in ("openbsd", "netbsd"), i1={"pid": c["i1"][0], "ctime": c["i1"][1]},
                    i2={"pid": c["i2"][0], "ctime": c["i2"][1]}, st="error" if st == "error2" else st)
        return obs, line
    if fn == "sigposix":
        import signal as _sig
        pid = c["pid"]
        saved_os = pkg.os
        # what pid_exists() says once the world is in the case's state
        wx = E.World(emu, pid, state=c["state"], zcode=c["zcode"])
        wx.switched = True
        ex_obs, _ = emu.call(lambda: pkg.pid_exists(pid), world=wx)
        exists = bool(ex_obs.get("value")) if ex_obs["kind"] == "value" else False

        def mk_call(world_holder):
            def call():
                p = pkg.Process(pid)
                p._name, p._ppid = CACHED_NAME, CACHED_PPID
                p._proc._name, p._proc._ppid = CACHED_NAME, CACHED_PPID      # as the front-end name() / ppid() leave them
                world_holder["base"] = len(emu.world.trace)
                try:
                    r = p.send_signal(_sig.SIGTERM) if c["meth"] == "send_signal" else getattr(p, c["meth"])()
                    return ["sent", r, p._gone]
                except BaseException as e:  # noqa: BLE001
                    o = impl_outcome(E.canon_exc(e, emu))
                    o["gone"] = p._gone
                    o["tail"] = emu.world.trace[world_holder["base"]:][-1:] if False else None
                    return ["exc", o]
            return call
        try:
            pkg.os = emu.osproxy
            h0 = {}
            obs0, tr0 = emu.call(mk_call(h0), world=E.World(emu, pid))
            k = max([i for i, n in enumerate(tr0) if n == "os.kill"], default=None)
            if c["kill"] == "ok" or k is None:
                obs = obs0
            else:
                w = E.World(emu, pid, k, (dict(ERRNOS)[c["kill"]], None), c["state"], True, zcode=c["zcode"])
                obs, tr = emu.call(mk_call({}), world=w)
                if len(tr) <= k or tr[k] != "os.kill":
                    obs = {"kind": "trace-drift", "trace": tr[:10]}
        finally:
            pkg.os = saved_os
        line.update(openbsd=c["ident"] == "openbsd", pid=pid, exists=exists, kill=c["kill"])
        return obs, line
    if fn == "sigwin":
        pid = 42

        def mk_call(holder):
            def call():
                p = pkg.Process(pid)
                p._name, p._ppid = CACHED_NAME, CACHED_PPID
                p._proc._name, p._proc._ppid = CACHED_NAME, CACHED_PPID      # as the front-end name() / ppid() leave them
                holder["base"] = len(emu.world.trace)
                try:
                    if c["via"] == "send_signal":
                        p.send_signal(_sig_value(emu, c["sig"]))
                    else:
                        getattr(p, c["via"])()
                    return ["done"]
                except BaseException as e:  # noqa: BLE001
                    return ["exc", impl_outcome(E.canon_exc(e, emu)), type(e).__name__, str(getattr(e, "msg", ""))[:60]]
            return call
        h0 = {}
        obs0, tr0 = emu.call(mk_call(h0), world=E.World(emu, pid))
        tail0 = tr0[h0.get("base", 0):]
        obs, tail = obs0, tail0
        if not c["running"]:
            # the second is_running() of send_signal finds the process gone: its identity query says "no such process"
            idx = [h0["base"] + i for i, n in enumerate(tail0) if n == "proc_times"]
            if len(idx) >= 2:
                h = {}
                w = E.World(emu, pid, idx[1], (errno.ESRCH, None), "gone", True)
                obs, tr = emu.call(mk_call(h), world=w)
                tail = tr[h.get("base", 0):]
            else:
                obs = {"kind": "trace-drift", "trace": tail0}
        elif c.get("errno"):
            prim = [h0["base"] + i for i, n in enumerate(tail0) if n in ("proc_kill", "os.kill")]
            if prim:
                h = {}
                w = E.World(emu, pid, prim[-1], (dict(ERRNOS)[c["errno"]], c["winerror"]), c["state"], True)
                obs, tr = emu.call(mk_call(h), world=w)
                tail = tr[h.get("base", 0):]
            else:
                obs = {"kind": "trace-drift", "trace": tail0}
        if obs.get("kind") == "value":
            obs = {"kind": "value", "value": obs["value"], "prims": [n for n in tail if n in ("proc_kill", "os.kill")]}
        line.update(via=c["via"], sig=c["sig"], running=c["running"], errno=c.get("errno"), winerror=c.get("winerror"),
                    state=c.get("state"), pid=pid)
        return obs, line
    raise InfraError("unknown front3 case %r" % (c,))


def front2_expect(emu, c, side, which):
    """the observable run_front2 must show if `side` (the driver's model / spec answer) is right"""
    fn = c["fn"]
    if fn == "ident":
        k = side["k"]
        if k == "built":
            ct = c["ct"]
            return {"kind": "value", "value": [[c["pid"], None if side["ident"] is None else ct],
                                               None if side["cache"] is None else ct, side["gone"]]}
        if k == "nsp-not-found":
            return {"kind": "exc", "exc": "NoSuchProcess", "psutil": True, "pid": c["pid"], "name": None}
        if k == "raw":
            return {"kind": "exc", "exc": py_class_of(side["errno"]), "errno": dict(ERRNOS)[side["errno"]], "winerror": side["winerror"]}
        return {"kind": "unmodelled"}
    if fn == "eq":
        return {"kind": "value", "value": [side["ret"], not side["ret"]]}
    if fn == "sigposix":
        r = side["res"]
        if r["k"] == "sent":
            return {"kind": "value", "value": ["sent", None, False]}
        if r["k"] == "ValueError":
            return {"kind": "value", "value": ["exc", {"k": "exc:ValueError"}]}
        o = {"k": r["k"]}
        if r["k"] == "raw":
            o.update(errno=r["errno"], winerror=r["winerror"])
        else:
            o.update(pid=c["pid"], named=r["named"])
        if "gone" in side:
            o["gone"] = side["gone"]
        return {"kind": "value", "value": ["exc", o]}
    if fn == "sigwin":
        act = side["act"]
        if act == "ValueError":
            return {"act": "ValueError"}
        if act == "nsp-not-running":
            return {"act": "nsp-not-running"}
        if "o" in side and c.get("errno"):
            return {"act": act, "o": side["o"]}
        return {"act": act}
    return None


def _uncanon(v):
    """undo E.canon for the dicts the front3 closures return"""
    if isinstance(v, dict) and set(v) == {"dict"}:
        return {k: _uncanon(x) for k, x in v["dict"]}
    if isinstance(v, dict):
        return {k: _uncanon(x) for k, x in v.items()}
    if isinstance(v, list):
        return [_uncanon(x) for x in v]
    return v


def _norm_front2(emu, c, obs):
    """bring the observable into the shape front2_expect describes"""
    fn = c["fn"]
    obs = _uncanon(obs)
    if fn == "ident" and obs.get("kind") == "exc":
        o = {k: v for k, v in obs.items() if k in ("kind", "exc", "psutil", "pid", "name", "errno", "winerror")}
        return o
    if fn == "sigposix" and obs.get("kind") == "value" and obs["value"] and obs["value"][0] == "exc":
        o = dict(obs["value"][1])
        keep = {k: o[k] for k in ("k", "pid", "named", "errno", "winerror", "gone") if k in o}
        if str(o.get("k", "")).startswith("exc:"):
            keep = {"k": o["k"]}
        return {"kind": "value", "value": ["exc", keep]}
    if fn == "sigwin":
        if obs.get("kind") != "value":
            return obs
        v = obs["value"]
        if v[0] == "done":
            return {"act": (obs.get("prims") or ["?"])[-1]}
        o, cls, msg = v[1], v[2], v[3]
        if cls == "ValueError":
            return {"act": "ValueError"}
        if cls == "NoSuchProcess" and "no longer exists" in msg and not obs.get("prims"):
            return {"act": "nsp-not-running"}
        out = {"act": (obs.get("prims") or ["?"])[-1], "o": {k: o.get(k) for k in ("k", "pid", "named", "errno", "winerror") if k in o}}
        return out
    return obs


def judge_front2(emu, c, obs, m, res):
    if "bad" in m:
        raise InfraError("driver rejected front2 query: %s" % m)
    got = _norm_front2(emu, c, obs)
    for which in ("spec", "model"):
        want = front2_expect(emu, c, m[which], which)
        g = got
        if which == "spec" and c["fn"] == "ident" and g != want and ZOMBIE_FINDING in KNOWN_NOW \
                and any(g == front2_expect(emu, c, t, which) for t in m.get("tolerated", [])):
            res.known_seen[ZOMBIE_FINDING] = res.known_seen.get(ZOMBIE_FINDING, 0) + 1
            continue
        if which == "spec" and c["fn"] == "ident" and g != want and any(g == front2_expect(emu, c, t, which) for t in m.get("also", [])):
            continue        # a documented recoverable place of the creation-time query (Spec.initAlso), not gated by a finding
        if c["fn"] == "sigposix" and which == "spec" and isinstance(g.get("value"), list) and g["value"][0] == "exc":
            g = {"kind": "value", "value": ["exc", {k: v for k, v in g["value"][1].items() if k != "gone"}]}
        if c["fn"] == "sigwin" and isinstance(want, dict) and "o" in want and isinstance(g, dict) and "o" in g:
            same = g.get("act") == want.get("act") and same_outcome(g["o"], want["o"])
        else:
            same = g == want
        if not same:
            res.disagree(which, c, obs, front2_expect(emu, c, m["model"], "model"), front2_expect(emu, c, m["spec"], "spec"),
                         note="%s front end %s: result differs from the %s" % (emu.ident, c["fn"], which))
            return True
    return False


# ---- documented namedtuple fields

# (identity, api) whose PLATFORM-layer method hands back another type than the documented one because the FRONT END builds the
# documented type from it (listed one by one; anything else returning a differently named tuple is a disagreement)
# memory_full_info(): "returns the same information as memory_info(), plus, on some platform (Linux, macOS, Windows), also
# provides additional metrics" (docs/index.rst) — on the BSDs, Solaris and AIX it IS memory_info() (`pmem`); the doc example
# (`pfullmem`) is the Linux one
DOC_TYPE_DIFFERS = {(i, "Process.memory_full_info") for i in ("freebsd", "openbsd", "netbsd", "sunos", "aix")}


def judge_api_fields(emu, m, res):
    bad = False
    gen_actual = {a["nt"]: a["fields"] for a in m["actual"]}
    for nt, fl in gen_actual.items():
        live = T.actual_fields(emu, nt)
        if live != fl:
            res.disagree("model", {"kind": "apifields", "ident": emu.ident, "nt": nt}, live, fl, None,
                         note="generated `actualFields` differs from the live namedtuple")
            bad = True
    for row in m["documented"]:
        live = T.actual_fields(emu, row["nt"]) or []
        for f in row["fields"]:
            res.count("family:api-fields")
            if f not in live and f not in row["gaps"]:
                res.disagree("spec", {"kind": "apifield", "ident": emu.ident, "api": row["api"], "nt": row["nt"], "field": f},
                             {"fields": live}, None, {"documented": row["fields"]},
                             note="field documented for %s is not in the namedtuple %s of the package imported as %s"
                             % (emu.ident, row["nt"], emu.ident))
                bad = True
        # the REAL method under emulation hands back that very type
        if row["api"].startswith("Process.") and row["api"].split(".", 1)[1] in emu.process_methods():
            obs, _ = emu.run(row["api"].split(".", 1)[1], pid=42)
            v = obs.get("value")
            if isinstance(v, list) and v:
                v = v[0]
            if obs["kind"] == "value" and isinstance(v, dict) and "nt" in v and v.get("nt") != row["nt"] \
                    and (emu.ident, row["api"]) not in DOC_TYPE_DIFFERS:
                res.disagree("spec", {"kind": "apifields", "ident": emu.ident, "api": row["api"]}, v.get("nt"), None, row["nt"],
                             note="the method returns a namedtuple of another type than the documented one")
                bad = True
            elif obs["kind"] == "value" and isinstance(v, dict) and v.get("nt") == row["nt"]:
                res.count("api-fields:live-tuple")
                names = [f for f, _ in v["fields"]]
                if names != live:
                    res.disagree("model", {"kind": "apifields", "ident": emu.ident, "api": row["api"]}, names, live, None,
                                 note="the tuple the method returns has other fields than the type of that name")
                    bad = True
    return bad


# ------------------------------------------------------------------------------ correspondence


def _chunks(xs, n):
    for i in range(0, len(xs), n):
        yield xs[i:i + n]


def correspond(ctx, res):
    KNOWN_NOW.clear()
    KNOWN_NOW.update(f.get("id") for f in ctx.findings)
    emus = _emus(ctx.snap)
    res.rule = ("exhaustive single-fault sweep: platform identity × public Process method × pid ∈ {42, 0} × each native "
                "call of the no-fault trace × errno ∈ {ESRCH, ENOENT, EPERM, EACCES, EIO, EINVAL} (× winerror ∈ {None, 0, 5, "
                "1314, 299, 87} on Windows) × pid state ∈ {gone, zombie — once per native status code the identity's "
                "PROC_STATUSES maps to STATUS_ZOMBIE —, alive} (× pid 0 listed or not); two-fault "
                "sequences: every single-fault case after which the method still returned × every later native call of "
                "that run × every swept error (quick: all of Solaris + a sample of 1200 of Windows; thorough: all); empty "
                "native answers: every native call of a no-fault run that is a question about the process and answers a list / "
                "dict / str, handed back EMPTY × (when the call sequence then differs from the plain one) every call of that "
                "run × every swept error × pid state, plus random subsets of empty answers with a random fault; "
                "os.path.exists/isfile/islink are fault points (the stat inside fails, the question answers False); plus tuple "
                "contents of every method incl. every fall-back path, the front end's platform-conditional branches "
                "(ppid/name caching, username, pid_exists(0), cpu_affinity([]), disk_io_counters), net_if_addrs "
                "post-processing (all MAC lengths, all prefix lengths), "
                "documented API per platform; non-trivial = a fault case or a value case with slot rows; "
                "distinct = distinct case descriptors")
    drv_lines = 0
    total_fault = 0
    # ---------------- faults
    for ident in E.IDENTS:
        emu = emus[ident]
        cases = list(fault_cases(emu, ctx.tier))
        cases += list(probe_eperm_cases(emu, cases))
        impls = [run_fault(emu, c) for c in cases]
        for part_c, part_i in zip(_chunks(cases, 20000), _chunks(impls, 20000)):
            outs = ctx.driver().batch([fault_line(c) for c in part_c])
            drv_lines += len(part_c)
            for c, impl, m in zip(part_c, part_i, outs):
                total_fault += 1
                res.count("platform:" + ident)
                if c.get("probe_eperm") is not None:
                    res.count("family:probe-kill-eperm")
                if c["call"] in E.PATH_PROBES:
                    res.count("family:path-question-faulted")
                res.count("errno:" + c["errno"])
                res.count("state:" + c["state"])
                if c["pid"] == 0:
                    res.count("pid0")
                res.count("impl:" + impl.get("k", "?"))
                if "model" in m:
                    res.count("cell:" + m["spec"]["cell"]["k"])
                    if not same_outcome(m["model"]["o"], m["spec"]["cell"]):
                        res.count("recoverable-path")
                samp = None
                if total_fault in (1, 4000, 9000):
                    samp = {"case": c, "impl": impl, "model": m.get("model")}
                res.case(tuple(sorted((k, str(v)) for k, v in c.items())), nontrivial=True, sample=samp)
                judge_fault(c, impl, m, res)
    # ---------------- two-fault sequences
    total_two, domain_two = 0, 0
    for ident in E.IDENTS:
        emu = emus[ident]
        cases = [c for c in fault_cases(emu, ctx.tier) if c["pid"] in PIDS]
        impls = [run_fault(emu, c) for c in cases]
        two = list(two_fault_cases(emu, cases, impls))
        domain_two += len(two)
        if ctx.tier == "quick" and len(two) > ctx.n(1200, 1200):
            two = ctx.rng.sample(two, ctx.n(1200, 1200))
        impls2 = [run_fault(emu, c) for c in two]
        for part_c, part_i in zip(_chunks(two, 20000), _chunks(impls2, 20000)):
            outs = ctx.driver().batch([fault_line(c) for c in part_c])
            drv_lines += len(part_c)
            for c, impl, m in zip(part_c, part_i, outs):
                total_two += 1
                res.count("family:two-faults")
                res.count("two-faults:" + ident)
                res.count("two-faults-impl:" + impl.get("k", "?"))
                if "model" in m:
                    res.count("two-faults-first:" + m["model"]["first"]["k"])
                samp = {"case": c, "impl": impl, "model": m.get("model")} if total_two in (1, 700) else None
                res.case(tuple(sorted((k, str(v)) for k, v in c.items())), nontrivial=True, sample=samp)
                if "model" in m and m["model"]["first"]["k"] == "ended":
                    res.disagree("model", c, impl, m["model"], None,
                                 note="the implementation went on after the first fault, the Lean model says the method ended there")
                    continue
                judge_fault(c, impl, m, res)
    res.extra["two_fault_cases"] = total_two
    res.extra["two_fault_domain"] = domain_two
    # ---------------- empty native answers (the call succeeds, finds nothing), then a fault on THAT run's path
    total_empty = 0
    for ident in E.IDENTS:
        emu = emus[ident]
        ecs = list(empty_answer_cases(emu, ctx.tier, ctx.rng, ctx.n(60, 600)))
        res.extra.setdefault("empty_answer_rows", {})[ident] = len(empty_rows(emu, PIDS if ctx.tier == "quick" else PIDS + [1, 2, 4]))
        runs = [c for c in ecs if c["kind"] == "emptyrun"]
        for c in runs:
            total_empty += 1
            res.count("family:empty-answer")
            res.count("empty-answer:structured(no fault)")
            res.case(("emptyrun", ident, c["meth"], c["pid"], tuple(c["empty"])), nontrivial=True)
            judge_emptyrun(emu, c, run_emptyrun(emu, c), res)
        fcs = [c for c in ecs if c["kind"] == "fault"]
        impls = [run_fault(emu, c) for c in fcs]
        outs = ctx.driver().batch([fault_line(c) for c in fcs]) if fcs else []
        drv_lines += len(fcs)
        for c, impl, m in zip(fcs, impls, outs):
            total_empty += 1
            res.count("family:empty-answer")
            res.count("empty-answer:" + c["part"])
            res.count("empty-answer:" + ident)
            res.count("empty-answer-impl:" + impl.get("k", "?"))
            if c["call"] in E.PATH_PROBES:
                res.count("family:path-question-faulted")
            samp = {"case": c, "impl": impl, "model": m.get("model")} \
                if (ident, c["meth"], c["call"], c["errno"], c["state"], c["pid"]) == ("aix", "threads", "os.stat", "EACCES", "alive", 42) else None
            res.case(tuple(sorted((k, str(v)) for k, v in c.items())), nontrivial=True, sample=samp)
            judge_fault(c, impl, m, res)
    res.extra["empty_answer_cases"] = total_empty
    # ---------------- a oneshot() block as a history (pid-state transitions between the first record read and the failing call)
    total_block = 0
    for ident in E.IDENTS:
        emu = emus[ident]
        bcs = list(block_cases(emu, ctx.rng, ctx.n(40, 400), ("macos", "openbsd") if ctx.tier == "quick" else E.IDENTS))
        prof = block_profile(emu)
        res.extra.setdefault("oneshot_block_record_readers", {})[ident] = sorted(m for m, v in prof.items() if v["reads"])
        impls = [run_block(emu, c) for c in bcs]
        outs = ctx.driver().batch([block_line(emu, c) for c in bcs]) if bcs else []
        drv_lines += len(bcs)
        for c, impl, m in zip(bcs, impls, outs):
            total_block += 1
            res.count("family:oneshot-block")
            res.count("oneshot-block:" + c["part"])
            res.count("oneshot-block:" + ident)
            res.count("oneshot-block:after-exit" if c["exited"] else "oneshot-block:inside")
            last = c["history"][-1][1]
            res.count("oneshot-block:transition:%s->%s" % (last, c["state"]))
            res.count("oneshot-block-impl:" + impl.get("k", "?"))
            res.case(("block", ident, json.dumps(c, sort_keys=True)), nontrivial=True)
            judge_block(c, impl, m, res)
    res.extra["oneshot_block_cases"] = total_block
    # ---------------- values
    for ident in E.IDENTS:
        emu = emus[ident]
        fam = T.FAMILY[ident]
        meths = sorted(set(emu.process_methods()) | ({"_get_raw_meminfo"} if emu.windows else set()))
        outs = ctx.driver().batch([{"op": "record", "plat": emu.ident, "method": m} for m in meths])
        drv_lines += len(meths)
        rows = {}
        for mname, o in zip(meths, outs):
            if "bad" in o:
                raise InfraError("driver rejected record query: %s" % o)
            rows[mname + "@rows"] = o
            rows[mname] = o["spec"]
        for c in value_cases(emu):
            obs = run_value(emu, c)
            has_rows = bool(rows.get(c["meth"] + "@rows", {}).get("model"))
            res.count("family:values")
            res.case(("value", ident, c["meth"], c["fallback"]), nontrivial=has_rows or (fam, c["meth"]) in DIRECT_EXPECT,
                     sample={"case": c, "impl": obs} if (ident, c["meth"]) == ("freebsd", "cpu_times") else None)
            judge_value(emu, c, obs, rows, res)
        for c in status_cases(emu):
            obs = run_status(emu, c)
            res.count("family:status-codes")
            res.case(("status", ident, c["code"]), nontrivial=True,
                     sample={"case": c, "impl": obs} if (ident, c["code"]) == ("openbsd", "SDEAD") else None)
            judge_status(emu, c, obs, res)
        front_end_pass(emu, res)
    # ---------------- net_if_addrs
    for ident in E.IDENTS:
        emu = emus[ident]
        cases = netif_cases(emu, ctx.rng, ctx.n(40, 2000))
        outs = ctx.driver().batch([netif_line(emu, c) for c in cases])
        drv_lines += len(cases)
        for c, m in zip(cases, outs):
            if "bad" in m:
                raise InfraError("driver rejected netif query: %s" % m)
            impl = run_netif(emu, c)
            res.count("family:net_if_addrs")
            res.count("netif:" + c["fam"] + (":netmask" if c["plen"] is not None else ""))
            res.case(("netif", ident, c["fam"], c["mac"], c["ip"], c["plen"], c["bcast"]),
                     nontrivial=(c["fam"] == "link" or (emu.windows and c["plen"] is not None)),
                     sample={"case": c, "impl": impl} if (ident == "windows" and c["plen"] == 24 and c["ip"] == 0xC0A8010A) else None)
            judge_netif(emu, c, impl, m, res)
    # ---------------- net_if_addrs, whole native answers (many records, helper raising on some)
    for ident in E.IDENTS:
        emu = emus[ident]
        cases = netifs_cases(emu, ctx.rng, ctx.n(30, 600), exhaustive=(emu.windows or ident == "freebsd"))
        outs = ctx.driver().batch([netifs_line(emu, c) for c in cases])
        drv_lines += len(cases)
        for c, m in zip(cases, outs):
            if "bad" in m:
                raise InfraError("driver rejected netifs query: %s" % m)
            impl = run_netifs(emu, c)
            res.count("family:net_if_addrs-multi")
            res.count("netifs:" + c["part"])
            rejected = sum(1 for r in c["recs"] if r["plen"] is not None and r["plen"] > (32 if r["fam"] == "inet" else 128))
            if rejected:
                res.count("netifs:helper-raises")
            res.case(("netifs", ident, c["part"], json.dumps(c["recs"], sort_keys=True)),
                     nontrivial=(emu.windows and rejected > 0) or any(r["fam"] == "link" for r in c["recs"]),
                     sample={"case": c, "impl": impl} if (ident == "windows" and c["part"] == "pair" and rejected == 1
                                                         and c["recs"][0]["plen"] == 24) else None)
            judge_netifs(emu, c, impl, m, res)
    # ---------------- the other platform-conditional branches of the front end
    for ident in E.IDENTS:
        emu = emus[ident]
        fcs = list(front_cases(emu))
        ran = [run_front(emu, c) for c in fcs]
        outs = ctx.driver().batch([ln for _, ln in ran])
        drv_lines += len(fcs)
        for c, (obs, _), m in zip(fcs, ran, outs):
            res.count("family:front-branches")
            res.count("front:" + c["fn"])
            res.case(("front2", ident) + tuple(sorted((k, str(v)) for k, v in c.items())), nontrivial=True,
                     sample={"case": c, "impl": obs, "model": m.get("model")} if (ident, c["fn"], c.get("cached")) == ("windows", "name", "oldname") and c["native"] == "c20proc" else None)
            judge_front(emu, c, obs, m, res)
    # ---------------- round 2: identity / equality / signals on the real front end
    for ident in E.IDENTS:
        emu = emus[ident]
        fcs = list(front2_cases(emu, ctx.tier))
        ran = [run_front2(emu, c) for c in fcs]
        outs = ctx.driver().batch([ln for _, ln in ran])
        drv_lines += len(fcs)
        for c, (obs, _), m in zip(fcs, ran, outs):
            res.count("family:front-ident-eq-signals")
            res.count("front3:" + c["fn"])
            mm = m.get("model", {})
            res.count("front3-%s:%s" % (c["fn"], mm.get("k") or (mm.get("res") or {}).get("k") or mm.get("act") or mm.get("ret")))
            res.case(("front3", ident) + tuple(sorted((k, str(v)) for k, v in c.items())), nontrivial=True,
                     sample={"case": c, "impl": obs, "model": m.get("model")}
                     if (ident, c["fn"], c.get("errno"), c.get("winerror"), c.get("state"), c.get("ignore")) == ("windows", "ident", "EACCES", 5, "alive", False) and c["pid"] == 42 else None)
            judge_front2(emu, c, obs, m, res)
    # ---------------- documented API
    outs = ctx.driver().batch([{"op": "api", "plat": i} for i in E.IDENTS])
    drv_lines += len(E.IDENTS)
    for ident, m in zip(E.IDENTS, outs):
        res.count("family:api")
        res.case(("api", ident), nontrivial=True)
        judge_api(emus[ident], m, res)
    outs = ctx.driver().batch([{"op": "apifields", "plat": i} for i in E.IDENTS])
    drv_lines += len(E.IDENTS)
    for ident, m in zip(E.IDENTS, outs):
        if "bad" in m:
            raise InfraError("driver rejected apifields query: %s" % m)
        res.case(("apifields", ident), nontrivial=True)
        judge_api_fields(emus[ident], m, res)
    res.exhaustive = ("the whole single-fault domain described in `rule` (%d cases), every MAC length 1..7 and every "
                      "IPv4 prefix length 0..32; two-fault sequences: %d of the %d of the domain (all at the thorough tier); "
                      "random IPv4 addresses are samples" % (total_fault, total_two, domain_two))
    res.extra["driver_lines"] = drv_lines
    res.extra["fault_cases"] = total_fault
    # the Linux psutil of this interpreter must be untouched
    import sys
    if sys.platform != "linux" or os.name != "posix":
        raise InfraError("sys.platform/os.name were not restored by the emulation")


def search(ctx, res, broken):
    KNOWN_NOW.clear()
    KNOWN_NOW.update(f.get("id") for f in ctx.findings)
    correspond(ctx, res)


def _rerun(ctx, inp, res):
    emus = _emus(ctx.snap)
    emu = emus[inp["ident"]]
    kind = inp.get("kind")
    if kind == "emptyrun":
        return judge_emptyrun(emu, inp, run_emptyrun(emu, inp), res)
    if kind == "block":
        impl = run_block(emu, inp)
        if impl.get("k") == "trace-drift":
            return False
        m = ctx.driver().batch([block_line(emu, inp)])[0]
        return judge_block(inp, impl, m, res) and res.disagreements[-1]["kind"] == "spec"
    if kind in ("fault", "fault2"):
        impl = run_fault(emu, inp)
        if impl.get("k") == "trace-drift":
            # the tree under replay does not make that native call at that point (a replay written on another tree):
            # the input does not exist here, nothing to reproduce
            return False
        m = ctx.driver().batch([fault_line(inp)])[0]
        return judge_fault(inp, impl, m, res) and res.disagreements[-1]["kind"] == "spec"
    if kind == "value":
        fam = T.FAMILY[emu.ident]
        meths = sorted(set(emu.process_methods()) | ({"_get_raw_meminfo"} if emu.windows else set()))
        outs = ctx.driver().batch([{"op": "record", "plat": emu.ident, "method": m} for m in meths])
        rows = {}
        for mname, o in zip(meths, outs):
            rows[mname + "@rows"] = o
            rows[mname] = o["spec"]
        return judge_value(emu, inp, run_value(emu, inp), rows, res) and res.disagreements[-1]["kind"] == "spec"
    if kind == "status":
        return judge_status(emu, inp, run_status(emu, inp), res)
    if kind == "netif":
        m = ctx.driver().batch([netif_line(emu, inp)])[0]
        return judge_netif(emu, inp, run_netif(emu, inp), m, res) and res.disagreements[-1]["kind"] == "spec"
    if kind == "netifs":
        m = ctx.driver().batch([netifs_line(emu, inp)])[0]
        return judge_netifs(emu, inp, run_netifs(emu, inp), m, res) and res.disagreements[-1]["kind"] == "spec"
    if kind == "api":
        m = ctx.driver().batch([{"op": "api", "plat": inp["ident"]}])[0]
        live = T.exposed_api(emu, {"x": m["documented"]})
        return inp.get("name") in m["documented"] and inp.get("name") not in live
    if kind == "front2":
        obs, ln = run_front(emu, inp)
        m = ctx.driver().batch([ln])[0]
        return judge_front(emu, inp, obs, m, res) and res.disagreements[-1]["kind"] == "spec"
    if kind == "front3":
        obs, ln = run_front2(emu, inp)
        m = ctx.driver().batch([ln])[0]
        return judge_front2(emu, inp, obs, m, res) and res.disagreements[-1]["kind"] == "spec"
    if kind == "apifield":
        m = ctx.driver().batch([{"op": "apifields", "plat": inp["ident"]}])[0]
        live = T.actual_fields(emu, inp["nt"]) or []
        return any(r["api"] == inp["api"] and inp["field"] in r["fields"] and inp["field"] not in r["gaps"]
                   for r in m["documented"]) and inp["field"] not in live
    if kind == "front":
        n0 = len(res.disagreements)
        front_end_pass(emu, res)
        return any(d["input"].get("meth") == inp.get("meth") for d in res.disagreements[n0:])
    return True


def replay(ctx, rp, res):
    KNOWN_NOW.clear()
    KNOWN_NOW.update(f.get("id") for f in ctx.findings)
    inp = rp.get("input") or {}
    if not isinstance(inp, dict) or "ident" not in inp:
        return True
    return bool(_rerun(ctx, inp, res))


def check_finding(ctx, fnd):
    w = fnd["witness"]
    emus = _emus(ctx.snap)
    if fnd.get("id") == SAVED_GID_FINDING:
        # witness = the parsed C call: the argument at the index of kinfo_proc_map['saved_gid'] is the saved-uid expression
        try:
            sm = dict(dict(T.slot_maps(emus["freebsd"]))["kinfo_proc_map"])
            hit = 0
            for (k, ident), _u, args in T.native_args(ctx.snap.pkg):
                if k == "bsd.kinfo_proc_map" and args[sm["saved_gid"]] == args[sm["saved_uid"]]:
                    hit += 1
            return "reproduces" if hit else "gone"
        except Exception:  # noqa: BLE001
            return "gone"
    if fnd.get("id") == ZOMBIE_FINDING:
        impl = run_fault(emus[w["ident"]], w)
        return "reproduces" if impl.get("k") == "zombie" else "gone"
    impl = run_fault(emus[w["ident"]], w)
    if impl.get("k") == "raw" and impl.get("errno") == w["errno"]:
        return "reproduces"
    return "gone"
