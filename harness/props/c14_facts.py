"""C14 translator: literals and guard placement of `_pslinux.file_flags_to_mode`, `readlink`,
`Process.open_files` and `Process.io_counters`, re-derived from the snapshot's source by `ast`.

Every extractor raises `NotRecognised` when the shape of the code is not the one it knows (then
the committed baseline value is kept and the correspondence check alone ties that fact)."""
import ast
import os

from harness.common import extract
from harness.common.extract import NotRecognised, lean_bool, lean_bytes, lean_list, lean_nat, lean_opt


def _eval_flag_expr(n):
    """`os.O_X`, int constants and `|` of those → int (host values, as the code evaluates them)."""
    if isinstance(n, ast.Constant) and isinstance(n.value, int) and not isinstance(n.value, bool):
        return n.value
    if isinstance(n, ast.Attribute) and isinstance(n.value, ast.Name) and n.value.id == "os" \
            and n.attr.startswith("O_"):
        try:
            return int(getattr(os, n.attr))
        except AttributeError:
            raise NotRecognised("os.%s not defined on this host" % n.attr)
    if isinstance(n, ast.BinOp) and isinstance(n.op, ast.BitOr):
        return _eval_flag_expr(n.left) | _eval_flag_expr(n.right)
    raise NotRecognised("flag expression not recognised: %s" % ast.unparse(n))


def _text(n):
    v = extract.const(n)
    if isinstance(v, str):
        return v.encode("utf-8")
    if isinstance(v, bytes):
        return v
    raise NotRecognised("not a string literal: %r" % (v,))


def _replace_call(value, var="mode"):
    """`mode.replace(old, new[, count])` → (old, new, count|None)"""
    if not (isinstance(value, ast.Call) and isinstance(value.func, ast.Attribute)
            and value.func.attr == "replace" and extract.dotted(value.func.value) == var
            and len(value.args) in (2, 3) and not value.keywords):
        raise NotRecognised("not a %s.replace(...) call: %s" % (var, ast.unparse(value)))
    old, new = _text(value.args[0]), _text(value.args[1])
    cnt = None
    if len(value.args) == 3:
        cnt = extract.const(value.args[2])
        if not isinstance(cnt, int) or cnt < 0:
            raise NotRecognised("replace count %r" % (cnt,))
    if not old:
        raise NotRecognised("replace of the empty string")
    return old, new, cnt


def mode_facts(tree):
    fn = extract.find_def(tree, "file_flags_to_mode")
    body = [s for s in fn.body if not (isinstance(s, ast.Expr) and isinstance(s.value, ast.Constant))]
    if len(body) != 5:
        raise NotRecognised("file_flags_to_mode has %d statements, expected 5" % len(body))
    s_map, s_look, s_if, s_final, s_ret = body
    # modes_map = {...}
    if not (isinstance(s_map, ast.Assign) and extract.dotted(s_map.targets[0]) == "modes_map"
            and isinstance(s_map.value, ast.Dict)):
        raise NotRecognised("modes_map assignment")
    table = {}
    for k, v in zip(s_map.value.keys, s_map.value.values):
        if k is None:
            raise NotRecognised("dict unpacking in modes_map")
        table[_eval_flag_expr(k)] = _text(v)       # a dict: a later duplicate key overrides
    # mode = modes_map[flags & (MASK)]
    if not (isinstance(s_look, ast.Assign) and extract.dotted(s_look.targets[0]) == "mode"
            and isinstance(s_look.value, ast.Subscript) and extract.dotted(s_look.value.value) == "modes_map"):
        raise NotRecognised("mode = modes_map[...]")
    idx = s_look.value.slice
    if not (isinstance(idx, ast.BinOp) and isinstance(idx.op, ast.BitAnd) and extract.dotted(idx.left) == "flags"):
        raise NotRecognised("index is not `flags & mask`")
    mask = _eval_flag_expr(idx.right)
    # if flags & os.O_APPEND: mode = mode.replace('w', 'a', 1)
    if not (isinstance(s_if, ast.If) and not s_if.orelse and len(s_if.body) == 1
            and isinstance(s_if.test, ast.BinOp) and isinstance(s_if.test.op, ast.BitAnd)
            and extract.dotted(s_if.test.left) == "flags"):
        raise NotRecognised("`if flags & os.O_APPEND:`")
    append_bit = _eval_flag_expr(s_if.test.right)
    a = s_if.body[0]
    if not (isinstance(a, ast.Assign) and extract.dotted(a.targets[0]) == "mode"):
        raise NotRecognised("append branch")
    append_repl = _replace_call(a.value)
    if not (isinstance(s_final, ast.Assign) and extract.dotted(s_final.targets[0]) == "mode"):
        raise NotRecognised("final replace")
    final_repl = _replace_call(s_final.value)
    if not (isinstance(s_ret, ast.Return) and extract.dotted(s_ret.value) == "mode"):
        raise NotRecognised("return mode")
    return {"table": sorted(table.items()), "mask": mask, "append_bit": append_bit,
            "append_repl": append_repl, "final_repl": final_repl}


def readlink_facts(tree):
    fn = extract.find_def(tree, "readlink")
    ifs = [s for s in fn.body if isinstance(s, ast.If)]
    if len(ifs) != 1:
        raise NotRecognised("readlink(): expected exactly one `if`")
    st = ifs[0]
    t = st.test
    if not (isinstance(t, ast.BoolOp) and isinstance(t.op, ast.And) and len(t.values) == 2):
        raise NotRecognised("readlink(): test is not `a and b`")
    ends, notex = t.values
    if not (isinstance(ends, ast.Call) and extract.dotted(ends.func) == "path.endswith" and len(ends.args) == 1):
        raise NotRecognised("readlink(): path.endswith(...)")
    suffix = _text(ends.args[0])
    if not (isinstance(notex, ast.UnaryOp) and isinstance(notex.op, ast.Not)
            and isinstance(notex.operand, ast.Call) and extract.dotted(notex.operand.func) == "path_exists_strict"):
        raise NotRecognised("readlink(): not path_exists_strict(path)")
    if not (len(st.body) == 1 and isinstance(st.body[0], ast.Assign)
            and isinstance(st.body[0].value, ast.Subscript) and isinstance(st.body[0].value.slice, ast.Slice)):
        raise NotRecognised("readlink(): path = path[:-N]")
    sl = st.body[0].value.slice
    if sl.lower is not None or sl.step is not None:
        raise NotRecognised("readlink(): slice shape")
    cut = -extract.const(sl.upper)
    if not isinstance(cut, int) or cut <= 0:
        raise NotRecognised("readlink(): cut %r" % (cut,))
    # the NUL cut: path = path.split('\x00')[0]
    nul = [s for s in fn.body if isinstance(s, ast.Assign) and isinstance(s.value, ast.Subscript)
           and isinstance(s.value.value, ast.Call) and extract.dotted(s.value.value.func) == "path.split"]
    if len(nul) != 1 or _text(nul[0].value.value.args[0]) != b"\x00" or extract.const(nul[0].value.slice) != 0:
        raise NotRecognised("readlink(): path.split('\\x00')[0]")
    return {"suffix": suffix, "cut": cut}


def _handler_classes(h):
    if h.type is None:
        return ["BaseException"]
    if isinstance(h.type, ast.Tuple):
        return [extract.dotted(e) for e in h.type.elts]
    return [extract.dotted(h.type)]


def _int_call(value):
    """`int(<x>.split()[i][, base])` → (i, base)"""
    if not (isinstance(value, ast.Call) and extract.dotted(value.func) == "int" and len(value.args) in (1, 2)
            and not value.keywords):
        raise NotRecognised("not int(...): %s" % ast.unparse(value))
    base = 10 if len(value.args) == 1 else extract.const(value.args[1])
    if base not in (8, 10, 16):
        raise NotRecognised("int base %r" % (base,))
    sub = value.args[0]
    if not (isinstance(sub, ast.Subscript) and isinstance(sub.value, ast.Call)
            and isinstance(sub.value.func, ast.Attribute) and sub.value.func.attr == "split"
            and not sub.value.args
            and extract.dotted(sub.value.func.value) == "f.readline()"):
        raise NotRecognised("not f.readline().split()[i]: %s" % ast.unparse(sub))
    i = extract.const(sub.slice)
    if not isinstance(i, int) or i < 0:
        raise NotRecognised("index %r" % (i,))
    return i, base


def _parents(root):
    par = {}
    for n in ast.walk(root):
        for c in ast.iter_child_nodes(n):
            par[c] = n
    return par


def _sets_hit(h):
    return any(isinstance(x, ast.Assign) and extract.dotted(x.targets[0]) == "hit_enoent"
               and extract.const(x.value) is True for x in ast.walk(h))


def _guard_classes(node, par, stop):
    """exception classes of every enclosing `try` (node inside its *body*) whose handler sets
    hit_enoent; position-independent, so a restructured loop is still read correctly"""
    classes = []
    cur = node
    while cur is not stop and cur in par:
        p = par[cur]
        if isinstance(p, ast.Try) and any(cur is b or _contains(b, cur) for b in p.body):
            for h in p.handlers:
                if _sets_hit(h):
                    classes += _handler_classes(h)
        cur = p
    return classes


def _contains(root, node):
    return any(n is node for n in ast.walk(root))


class _Loop:
    """The `for` loop of open_files with its parent map. Each fact below is extracted by its OWN function
    from this object, so that an unrecognised statement costs only the facts that speak about it."""

    def __init__(self, tree):
        self.fn = extract.find_def(tree, "open_files", cls="Process")
        loops = [s for s in ast.walk(self.fn) if isinstance(s, ast.For)]
        if len(loops) != 1:
            raise NotRecognised("open_files: one for loop expected, found %d" % len(loops))
        self.loop = loops[0]
        self.par = _parents(self.fn)

    def walk(self):
        return ast.walk(self.loop)


def _readlink_stmt(L):
    rl = [n for n in L.walk() if isinstance(n, ast.Assign) and isinstance(n.value, ast.Call)
          and extract.dotted(n.value.func) == "readlink" and extract.dotted(n.targets[0]) == "path"]
    if len(rl) != 1:
        raise NotRecognised("open_files: path = readlink(file)")
    return rl[0]


def link_facts(L):
    rl = _readlink_stmt(L)
    return {"link_gone": _guard_classes(rl, L.par, L.loop),
            "link_denied_raises": _link_denied_raises(rl, L.par, L.loop),
            "other": _link_other(rl, L.par, L.loop)}


def _errno_value(name):
    import errno as _errno
    v = getattr(_errno, name, None)
    if not isinstance(v, int):
        raise NotRecognised("errno.%s not defined on this host" % name)
    return v


def _link_other(node, par, stop):
    """What the handlers around `readlink(file)` do with an OSError that is neither gone nor refused:
    the errno numbers an `if err.errno == errno.X` / `in (...)` test `continue`s on (host values) and the
    classes of non-`hit_enoent` handlers that swallow the exception whatever the errno."""
    skip_errnos, skip_classes = set(), []
    cur = node
    while cur is not stop and cur in par:
        p = par[cur]
        if isinstance(p, ast.Try) and any(cur is b or _contains(b, cur) for b in p.body):
            for h in p.handlers:
                if _sets_hit(h):
                    continue
                classes = _handler_classes(h)
                last = h.body[-1] if h.body else None
                reraises = isinstance(last, ast.Raise) and last.exc is None
                if not reraises:
                    skip_classes += classes           # nothing leaves this handler as an exception
                    continue
                for st in h.body[:-1]:
                    leaves = any(isinstance(x, (ast.Continue, ast.Break, ast.Return)) for x in ast.walk(st))
                    if not leaves:
                        continue
                    names = set()
                    if isinstance(st, ast.If):
                        names = {n.attr for n in ast.walk(st.test) if isinstance(n, ast.Attribute)
                                 and extract.dotted(n.value) == "errno"}
                    if not names:
                        skip_classes += classes       # leaves the handler unconditionally / on an unknown test
                    for nm in names:
                        skip_errnos.add(_errno_value(nm))
        cur = p
    return {"skip_errnos": sorted(skip_errnos), "skip_classes": sorted(set(skip_classes))}


def filter_facts(L):
    """the listing filter: TOTAL over the shapes `a and b [and …]` holding one isfile_strict(...) call —
    a swapped / extended / negated test gives filterExact = false, absFirst = false instead of a skip"""
    par = L.par
    isf = [n for n in L.walk() if isinstance(n, ast.Call) and extract.dotted(n.func) == "isfile_strict"]
    sw_all = [n for n in L.walk() if isinstance(n, ast.Call) and extract.dotted(n.func) == "path.startswith"
              and len(n.args) == 1]
    if not sw_all:
        raise NotRecognised("open_files: no path.startswith(...) test in the loop")
    prefix = _text(sw_all[0].args[0])
    if len(isf) != 1:
        return {"prefix": prefix, "filter_exact": False, "abs_first": False}
    bo = par.get(isf[0])
    if not (isinstance(bo, ast.BoolOp) and isinstance(bo.op, ast.And)):
        return {"prefix": prefix, "filter_exact": False, "abs_first": False}
    holder = par.get(bo)
    if isinstance(holder, ast.If) and holder.test is bo:
        shape_ok = not holder.orelse
    elif isinstance(holder, ast.UnaryOp) and isinstance(holder.op, ast.Not) and isinstance(par.get(holder), ast.If) \
            and par[holder].test is holder:
        shape_ok = (len(par[holder].body) == 1 and isinstance(par[holder].body[0], ast.Continue)
                    and not par[holder].orelse)
    else:
        shape_ok = False
    idx_isf = [i for i, v in enumerate(bo.values) if v is isf[0]]
    idx_sw = [i for i, v in enumerate(bo.values) if isinstance(v, ast.Call) and extract.dotted(v.func) == "path.startswith"]
    abs_first = bool(idx_isf and idx_sw and idx_sw[0] < idx_isf[0])
    first = bo.values[0]
    # EXACTLY `path.startswith(<prefix>) and isfile_strict(path)`: no further clause decides whether a
    # descriptor is listed, and no other method of `path` is consulted in the loop
    sw = [n for n in L.walk() if isinstance(n, ast.Call) and isinstance(n.func, ast.Attribute)
          and extract.dotted(n.func.value) == "path"]
    filter_exact = (len(bo.values) == 2 and bo.values[1] is isf[0] and len(sw) == 1 and sw[0] is first
                    and isinstance(first, ast.Call) and extract.dotted(first.func) == "path.startswith"
                    and [ast.unparse(a) for a in isf[0].args] == ["path"] and shape_ok)
    if idx_sw:
        prefix = _text(bo.values[idx_sw[0]].args[0])
    return {"prefix": prefix, "filter_exact": filter_exact, "abs_first": abs_first}


def _open_call(L):
    ob = [n for n in L.walk() if isinstance(n, ast.Call) and extract.dotted(n.func) == "open_binary"]
    if len(ob) != 1:
        raise NotRecognised("open_files: open_binary(file)")
    return ob[0]


def _read_stmt(L, nm):
    hits = [n for n in L.walk() if isinstance(n, ast.Assign) and extract.dotted(n.targets[0]) == nm
            and isinstance(n.value, ast.Call) and extract.dotted(n.value.func) == "int"]
    if len(hits) != 1:
        raise NotRecognised("open_files: one `%s = int(...)` assignment expected, found %d" % (nm, len(hits)))
    return hits[0]


def info_open_facts(L):
    return {"info_gone": _guard_classes(_open_call(L), L.par, L.loop)}


def info_read_facts(L):
    pos, fl = _read_stmt(L, "pos"), _read_stmt(L, "flags")
    if not (pos.lineno < fl.lineno):
        raise NotRecognised("open_files: flags read before pos")
    g1 = _guard_classes(pos, L.par, L.loop)
    g2 = _guard_classes(fl, L.par, L.loop)
    return {"read_gone": [c for c in g1 if c in g2]}     # a class guards "the reads" only if it guards both


def pos_facts(L):
    fl = _read_stmt(L, "flags")
    pos = _read_stmt(L, "pos")
    if not (pos.lineno < fl.lineno):
        raise NotRecognised("open_files: flags read before pos")
    return _int_call(pos.value)


def flags_facts(L):
    pos = _read_stmt(L, "pos")
    fl = _read_stmt(L, "flags")
    if not (pos.lineno < fl.lineno):
        raise NotRecognised("open_files: flags read before pos")
    return _int_call(fl.value)


def final_facts(L):
    after = L.fn.body[L.fn.body.index(L.loop) + 1:] if L.loop in L.fn.body else []
    for s in after:
        if isinstance(s, ast.If) and extract.dotted(s.test) == "hit_enoent" \
                and extract.calls_in(s, "_raise_if_not_alive"):
            return True
    return False


FD_DIR = "f'{self._procfs_path}/{self.pid}/fd'"


def loop_facts(L):
    """what the loop runs over: `for fd in files` / `for fd in files[:N]`, `files = os.listdir(<pid>/fd)`,
    no early exit, every tuple appended, `retlist` returned. TOTAL: an unknown iterable gives
    loopOverListdir = false (and scanLimit = none), never a skip."""
    loop, fn = L.loop, L.fn
    it = loop.iter
    limit = None
    base = it
    known = True
    if isinstance(it, ast.Subscript) and isinstance(it.slice, ast.Slice):
        sl = it.slice
        up = extract.const(sl.upper) if sl.upper is not None else None
        if sl.lower is None and sl.step is None and isinstance(up, int) and not isinstance(up, bool) and up >= 0:
            limit, base = up, it.value
        else:
            known = False
    var = extract.dotted(base) if isinstance(base, ast.Name) else None
    target_ok = isinstance(loop.target, ast.Name) and loop.target.id == "fd"
    assigns = [s for s in ast.walk(fn) if isinstance(s, ast.Assign) and var is not None
               and any(extract.dotted(t) == var for t in s.targets)]
    from_listdir = (len(assigns) == 1 and isinstance(assigns[0].value, ast.Call)
                    and extract.dotted(assigns[0].value.func) == "os.listdir"
                    and [ast.unparse(a) for a in assigns[0].value.args] == [FD_DIR] and not assigns[0].value.keywords)
    if isinstance(base, ast.Call) and extract.dotted(base.func) == "os.listdir" \
            and [ast.unparse(a) for a in base.args] == [FD_DIR]:
        from_listdir = True
    # mutation of the list between the listdir and the loop (del files[…], files.pop(), files.sort() …)
    touched = [n for n in ast.walk(fn) if var is not None and (
        (isinstance(n, ast.Call) and isinstance(n.func, ast.Attribute) and extract.dotted(n.func.value) == var)
        or (isinstance(n, (ast.Delete, ast.AugAssign)) and any(isinstance(x, ast.Name) and x.id == var for x in ast.walk(n))))]
    early = [n for n in ast.walk(loop) if isinstance(n, (ast.Break, ast.Return))]
    appends = [n for n in ast.walk(loop) if isinstance(n, ast.Call) and extract.dotted(n.func) == "retlist.append"]
    append_ok = False
    if len(appends) == 1 and [ast.unparse(a) for a in appends[0].args] == ["ntuple"]:
        # the append is the statement right after `ntuple = popenfile(...)`, not under a further test
        holder = L.par.get(L.par.get(appends[0]))
        body = None
        for fld in ("body", "orelse", "finalbody"):
            blk = getattr(holder, fld, None)
            if isinstance(blk, list) and L.par.get(appends[0]) in blk:
                body = blk
        if body is not None:
            i = body.index(L.par[appends[0]])
            prev = body[i - 1] if i > 0 else None
            append_ok = (isinstance(prev, ast.Assign) and extract.dotted(prev.targets[0]) == "ntuple"
                         and isinstance(prev.value, ast.Call) and extract.dotted(prev.value.func) == "popenfile")
    rets = [n for n in ast.walk(fn) if isinstance(n, ast.Return)]
    ret_ok = len(rets) == 1 and rets[0] is fn.body[-1] and extract.dotted(rets[0].value) == "retlist"
    init = [s for s in fn.body if isinstance(s, ast.Assign) and extract.dotted(s.targets[0]) == "retlist"]
    init_ok = len(init) == 1 and ast.unparse(init[0].value) == "[]"
    others = [n for n in ast.walk(fn) if isinstance(n, ast.Call) and isinstance(n.func, ast.Attribute)
              and extract.dotted(n.func.value) == "retlist" and n not in appends]
    calls = [n for n in ast.walk(loop) if isinstance(n, ast.Call) and extract.dotted(n.func) == "popenfile"]
    tuple_ok = len(calls) == 1 and [ast.unparse(a) for a in calls[0].args] == ["path", "int(fd)", "int(pos)", "mode", "flags"] \
        and not calls[0].keywords
    ok = (known and target_ok and from_listdir and not touched and not early and append_ok and ret_ok and init_ok
          and not others and tuple_ok and not loop.orelse)
    return {"limit": limit, "over_listdir": ok}


def path_facts(L):
    """`file = f"…/fd/{fd}"` handed to readlink and `file = f"…/fdinfo/{fd}"` handed to open_binary"""
    want = {"f'{self._procfs_path}/{self.pid}/fd/{fd}'": "readlink", "f'{self._procfs_path}/{self.pid}/fdinfo/{fd}'": "open_binary"}
    got = {}
    for n in L.walk():
        if isinstance(n, ast.Assign) and extract.dotted(n.targets[0]) == "file":
            got[ast.unparse(n.value)] = True
    rl = _readlink_stmt(L)
    ob = _open_call(L)
    args_ok = [ast.unparse(a) for a in rl.value.args] == ["file"] and [ast.unparse(a) for a in ob.args] == ["file"]
    return set(got) == set(want) and args_ok


def num_fds_facts(tree):
    """TOTAL: `return len(os.listdir(<pid>/fd))` → (True, None); `return min(len(…), N)` → (True, N); anything else
    → (False, None)"""
    fn = extract.find_def(tree, "num_fds", cls="Process")
    body = [s for s in fn.body if not (isinstance(s, ast.Expr) and isinstance(s.value, ast.Constant))]
    if len(body) != 1 or not isinstance(body[0], ast.Return):
        return {"len_listdir": False, "cap": None}
    v = body[0].value

    def is_len(x):
        return (isinstance(x, ast.Call) and extract.dotted(x.func) == "len" and len(x.args) == 1
                and isinstance(x.args[0], ast.Call) and extract.dotted(x.args[0].func) == "os.listdir"
                and [ast.unparse(a) for a in x.args[0].args] == [FD_DIR] and not x.args[0].keywords)
    if is_len(v):
        return {"len_listdir": True, "cap": None}
    if isinstance(v, ast.Call) and extract.dotted(v.func) == "min" and len(v.args) == 2 and not v.keywords:
        a, b = v.args
        for x, y in ((a, b), (b, a)):
            c = extract.const(y) if isinstance(y, ast.Constant) else None
            if is_len(x) and isinstance(c, int) and not isinstance(c, bool) and c >= 0:
                return {"len_listdir": True, "cap": c}
    return {"len_listdir": False, "cap": None}


DENIED_ERRNOS = ("EACCES", "EPERM")
CATCH_ALL = ("OSError", "EnvironmentError", "IOError", "Exception", "BaseException")


def _link_denied_raises(node, par, stop):
    """Does an EACCES / EPERM raised by `readlink(file)` leave the loop as an exception?
    Walk the enclosing `try`s inside out; the first handler whose classes match PermissionError
    decides: it re-raises iff its last statement is a bare `raise` and no `if err.errno == errno.X`
    / `in (...)` test that `continue`s names EACCES or EPERM."""
    cur = node
    while cur is not stop and cur in par:
        p = par[cur]
        if isinstance(p, ast.Try) and any(cur is b or _contains(b, cur) for b in p.body):
            for h in p.handlers:
                classes = _handler_classes(h)
                if not any(c in CATCH_ALL + ("PermissionError",) for c in classes):
                    continue
                if _sets_hit(h):
                    return False              # swallowed as "gone" (reported by linkGoneDenied)
                last = h.body[-1]
                if not (isinstance(last, ast.Raise) and last.exc is None):
                    return False
                for st in h.body[:-1]:
                    if isinstance(st, ast.If):
                        names = {n.attr for n in ast.walk(st.test) if isinstance(n, ast.Attribute)
                                 and extract.dotted(n.value) == "errno"}
                        leaves = any(isinstance(x, (ast.Continue, ast.Break, ast.Return)) for x in ast.walk(st))
                        if leaves and (names & set(DENIED_ERRNOS) or not names):
                            return False
                    elif any(isinstance(x, (ast.Continue, ast.Break, ast.Return)) for x in ast.walk(st)):
                        return False
                return True
        cur = p
    return True                               # no handler at all: it propagates


def _stat_clause_action(h):
    """what one `except` clause of a strict stat helper does: True = answers False (`return False`), False = re-raises
    (bare `raise` as its only statement); anything else is not a shape the model has"""
    if len(h.body) == 1 and isinstance(h.body[0], ast.Raise) and h.body[0].exc is None:
        return False
    if len(h.body) == 1 and isinstance(h.body[0], ast.Return) and extract.const(h.body[0].value) is False:
        return True
    raise NotRecognised("strict stat helper: handler body %s" % ast.unparse(h).splitlines()[1:])


def strict_stat_facts(snap, name):
    """`isfile_strict` / `path_exists_strict` of _common.py (one helper per call, so that an unrecognised shape of one
    costs only its own facts): the `except` clauses of the `try` around `os.stat(path)` in source order — (classes
    named, answers False?) — and, derived from them, whether a PermissionError leaves the helper (re-raised by the
    first clause that catches it, or caught by no clause at all)."""
    tree = extract.parse_module(snap, "_common.py")
    fn = extract.find_def(tree, name)
    tries = [s for s in ast.walk(fn) if isinstance(s, ast.Try)]
    if len(tries) != 1:
        raise NotRecognised("%s: one try expected" % name)
    t = tries[0]
    stats = [n for n in ast.walk(fn) if isinstance(n, ast.Call) and extract.dotted(n.func) in ("os.stat", "os.lstat")]
    if len(stats) != 1 or extract.dotted(stats[0].func) != "os.stat" or not any(_contains(b, stats[0]) for b in t.body):
        raise NotRecognised("%s: exactly one os.stat(path), inside the try" % name)
    if t.finalbody:
        raise NotRecognised("%s: finally clause" % name)
    handlers = [(_handler_classes(h), _stat_clause_action(h)) for h in t.handlers]
    reraises = True                       # caught by no clause: it propagates
    for classes, answers_false in handlers:
        if any(c in CATCH_ALL + ("PermissionError",) for c in classes):
            reraises = not answers_false
            break
    return {"denied_raises": reraises, "handlers": handlers}


def wrap_facts(tree):
    """`wrap_exceptions` of _pslinux.py: PermissionError → AccessDenied; `_raise_if_zombie()` first in
    the ProcessLookupError and FileNotFoundError handlers."""
    fn = extract.find_def(tree, "wrap_exceptions")
    tries = [n for n in ast.walk(fn) if isinstance(n, ast.Try)]
    if len(tries) != 1:
        raise NotRecognised("wrap_exceptions: one try expected")
    t = tries[0]
    perm_ad = False
    seen_perm = False
    zombie_first = {}
    for h in t.handlers:
        classes = _handler_classes(h)
        if not seen_perm and any(c in CATCH_ALL + ("PermissionError",) for c in classes):
            seen_perm = True
            perm_ad = (len(h.body) == 1 and isinstance(h.body[0], ast.Raise) and h.body[0].exc is not None
                       and isinstance(h.body[0].exc, ast.Call) and extract.dotted(h.body[0].exc.func) == "AccessDenied"
                       and [ast.unparse(a) for a in h.body[0].exc.args][:1] == ["pid"])
        for c in ("ProcessLookupError", "FileNotFoundError"):
            if c in classes and c not in zombie_first:
                first = h.body[0]
                zombie_first[c] = (isinstance(first, ast.Expr) and isinstance(first.value, ast.Call)
                                   and extract.dotted(first.value.func) == "self._raise_if_zombie")
    if set(zombie_first) != {"ProcessLookupError", "FileNotFoundError"}:
        raise NotRecognised("wrap_exceptions: ProcessLookupError / FileNotFoundError handlers")
    return {"perm_ad": perm_ad, "zombie_first": all(zombie_first.values())}


def _find_method_anywhere(tree, cls, name):
    c = extract.find_class(tree, cls)
    for n in ast.walk(c):
        if isinstance(n, ast.FunctionDef) and n.name == name:
            return n
    raise NotRecognised("%s.%s not found" % (cls, name))


def io_facts(tree):
    fn = _find_method_anywhere(tree, "Process", "io_counters")
    tries = [n for n in ast.walk(fn) if isinstance(n, ast.Try)]
    split_try = None
    for t in tries:
        for s in t.body:
            if isinstance(s, ast.Assign) and isinstance(s.targets[0], ast.Tuple) \
                    and [extract.dotted(e) for e in s.targets[0].elts] == ["name", "value"] \
                    and isinstance(s.value, ast.Call) and extract.dotted(s.value.func) == "line.split":
                split_try = (t, s)
    if split_try is None:
        raise NotRecognised("io_counters: `name, value = line.split(sep)` inside try")
    t, s = split_try
    sep = _text(s.value.args[0])
    if len(sep) < 1:
        raise NotRecognised("io_counters: empty separator")
    if not any("ValueError" in _handler_classes(h) and any(isinstance(x, ast.Continue) for x in h.body)
               for h in t.handlers):
        raise NotRecognised("io_counters: except ValueError: continue")

    def is_store(x):
        return isinstance(x, ast.Assign) and isinstance(x.targets[0], ast.Subscript) \
            and extract.dotted(x.targets[0].value) == "fields" and extract.dotted(x.targets[0].slice) == "name" \
            and ast.unparse(x.value) == "int(value)"
    in_body = any(is_store(x) for x in t.body)
    in_else = any(is_store(x) for x in t.orelse)
    if in_body == in_else:
        raise NotRecognised("io_counters: fields[name] = int(value) placement")
    calls = extract.calls_in(fn, "pio")
    if len(calls) != 1 or calls[0].keywords:
        raise NotRecognised("io_counters: pio(...) call")
    keys = []
    for a in calls[0].args:
        if not (isinstance(a, ast.Subscript) and extract.dotted(a.value) == "fields"):
            raise NotRecognised("io_counters: pio argument %s" % ast.unparse(a))
        keys.append(_text(a.slice))
    # the strip and the emptiness test
    src = ast.unparse(fn)
    if "line = line.strip()" not in src or "if not fields:" not in src:
        raise NotRecognised("io_counters: strip / empty check")
    return {"sep": sep, "guarded": in_body, "keys": keys}


def io_iter_fact(tree):
    """TOTAL: the lines are those of `for line in f` where `f` is bound by `with open_binary(fname) as f` and
    `fname` is `f"{procfs}/{pid}/io"`; the loop body starts with `line = line.strip()` then `if line:`"""
    fn = _find_method_anywhere(tree, "Process", "io_counters")
    withs = [n for n in ast.walk(fn) if isinstance(n, ast.With)]
    if len(withs) != 1 or len(withs[0].items) != 1:
        return False
    it = withs[0].items[0]
    if not (isinstance(it.context_expr, ast.Call) and extract.dotted(it.context_expr.func) == "open_binary"
            and [ast.unparse(a) for a in it.context_expr.args] == ["fname"] and it.optional_vars is not None
            and extract.dotted(it.optional_vars) == "f"):
        return False
    fname = [s for s in ast.walk(fn) if isinstance(s, ast.Assign) and extract.dotted(s.targets[0]) == "fname"]
    if len(fname) != 1 or ast.unparse(fname[0].value) != "f'{self._procfs_path}/{self.pid}/io'":
        return False
    loops = [n for n in ast.walk(fn) if isinstance(n, ast.For)]
    if len(loops) != 1 or loops[0] not in withs[0].body:
        return False
    lp = loops[0]
    if not (isinstance(lp.iter, ast.Name) and lp.iter.id == "f" and extract.dotted(lp.target) == "line" and not lp.orelse):
        return False
    body = [s for s in lp.body if not (isinstance(s, ast.Expr) and isinstance(s.value, ast.Constant))]
    if len(body) != 2 or ast.unparse(body[0]) != "line = line.strip()":
        return False
    if not (isinstance(body[1], ast.If) and ast.unparse(body[1].test) == "line" and not body[1].orelse):
        return False
    # nothing else reads from f
    uses = [n for n in ast.walk(fn) if isinstance(n, ast.Name) and n.id == "f" and isinstance(n.ctx, ast.Load)]
    return len(uses) == 1


def pio_fields(tree):
    for st in tree.body:
        if isinstance(st, ast.Assign) and extract.dotted(st.targets[0]) == "pio" \
                and isinstance(st.value, ast.Call) and extract.dotted(st.value.func) == "namedtuple":
            fields = st.value.args[1]
            if isinstance(fields, ast.List):
                return [_text(e) for e in fields.elts]
            return [x.encode() for x in extract.const(fields).replace(",", " ").split()]
    raise NotRecognised("pio namedtuple not found")


def facts(snap, F):
    tree = extract.parse_module(snap, "_pslinux.py")
    cache = {}

    def get(name, fn):
        if name not in cache:
            try:
                cache[name] = ("ok", fn(tree))
            except Exception as e:  # re-raised at every use so that each dependent fact is skipped
                cache[name] = ("err", e)
        kind, v = cache[name]
        if kind == "err":
            raise v
        return v

    def m():
        return get("mode", mode_facts)

    def r():
        return get("readlink", readlink_facts)

    def L():
        return get("loop", _Loop)

    def o(part):
        fn = {"link": link_facts, "filter": filter_facts, "info_open": info_open_facts, "info_read": info_read_facts,
              "pos": pos_facts, "flags": flags_facts, "final": final_facts, "loopshape": loop_facts, "paths": path_facts}[part]
        return get("of:" + part, lambda _t: fn(L()))

    def n():
        return get("num_fds", num_fds_facts)

    def i():
        return get("io", io_facts)

    def has(classes, name):
        # OSError / Exception catch everything the model distinguishes
        return lean_bool(any(c in (name, "OSError", "EnvironmentError", "IOError", "Exception", "BaseException")
                             for c in classes))

    F.try_add("modesMap", "List (Nat × List Nat)",
              lambda: lean_list(m()["table"], lambda kv: "(%d, %s)" % (kv[0], lean_bytes(kv[1]))),
              "modes_map of file_flags_to_mode: access-mode bits (host values of os.O_*) to mode text")
    F.try_add("accMask", "Nat", lambda: lean_nat(m()["mask"]), "the mask `flags` is and-ed with before the lookup")
    F.try_add("appendBit", "Nat", lambda: lean_nat(m()["append_bit"]), "os.O_APPEND as tested by file_flags_to_mode")
    F.try_add("appendReplOld", "List Nat", lambda: lean_bytes(m()["append_repl"][0]), "mode.replace(OLD, new, count) when O_APPEND")
    F.try_add("appendReplNew", "List Nat", lambda: lean_bytes(m()["append_repl"][1]), "mode.replace(old, NEW, count) when O_APPEND")
    F.try_add("appendReplCount", "Option Nat", lambda: lean_opt(m()["append_repl"][2], lean_nat), "mode.replace(old, new, COUNT) when O_APPEND")
    F.try_add("finalReplOld", "List Nat", lambda: lean_bytes(m()["final_repl"][0]), "the unconditional mode.replace(OLD, new)")
    F.try_add("finalReplNew", "List Nat", lambda: lean_bytes(m()["final_repl"][1]), "the unconditional mode.replace(old, NEW)")
    F.try_add("finalReplCount", "Option Nat", lambda: lean_opt(m()["final_repl"][2], lean_nat), "its count (none = all)")
    F.try_add("posIdx", "Nat", lambda: lean_nat(o("pos")[0]), "index into f.readline().split() for the pos: line")
    F.try_add("posBase", "Nat", lambda: lean_nat(o("pos")[1]), "base of int() for the pos: line")
    F.try_add("flagsIdx", "Nat", lambda: lean_nat(o("flags")[0]), "index into f.readline().split() for the flags: line")
    F.try_add("flagsBase", "Nat", lambda: lean_nat(o("flags")[1]), "base of int() for the flags: line (the kernel prints octal)")
    F.try_add("delSuffix", "List Nat", lambda: lean_bytes(r()["suffix"]), "the ' (deleted)' literal of readlink()")
    F.try_add("delCut", "Nat", lambda: lean_nat(r()["cut"]), "N of path[:-N] in readlink()")
    F.try_add("absPrefix", "List Nat", lambda: lean_bytes(o("filter")["prefix"]), "argument of path.startswith() in open_files")
    F.try_add("filterExact", "Bool", lambda: lean_bool(o("filter")["filter_exact"]),
              "the listing filter is exactly `path.startswith(prefix) and isfile_strict(path)`: no other clause about the path")
    F.try_add("linkGoneEnoent", "Bool", lambda: has(o("link")["link_gone"], "FileNotFoundError"),
              "ENOENT from readlink sets hit_enoent and continues")
    F.try_add("linkGoneEsrch", "Bool", lambda: has(o("link")["link_gone"], "ProcessLookupError"),
              "ESRCH from readlink sets hit_enoent and continues")
    F.try_add("infoGoneEnoent", "Bool", lambda: has(o("info_open")["info_gone"], "FileNotFoundError"),
              "ENOENT from opening fdinfo sets hit_enoent")
    F.try_add("infoGoneEsrch", "Bool", lambda: has(o("info_open")["info_gone"], "ProcessLookupError"),
              "ESRCH from opening fdinfo sets hit_enoent")
    F.try_add("infoReadGoneEnoent", "Bool", lambda: has(o("info_read")["read_gone"], "FileNotFoundError"),
              "ENOENT raised by the two f.readline() of an already opened fdinfo file sets hit_enoent")
    F.try_add("infoReadGoneEsrch", "Bool", lambda: has(o("info_read")["read_gone"], "ProcessLookupError"),
              "ESRCH raised by the two f.readline() of an already opened fdinfo file sets hit_enoent")
    F.try_add("finalAliveCheck", "Bool", lambda: lean_bool(o("final")),
              "`if hit_enoent: self._raise_if_not_alive()` follows the loop")
    F.try_add("ioSep", "List Nat", lambda: lean_bytes(i()["sep"]), "separator of line.split() in io_counters")
    F.try_add("ioKeys", "List (List Nat)", lambda: lean_list(i()["keys"], lean_bytes),
              "keys of /proc/<pid>/io handed positionally to pio(...)")
    F.try_add("pioFields", "List (List Nat)", lambda: lean_list(get("pio", pio_fields), lean_bytes), "pio._fields")
    F.try_add("ioIntGuarded", "Bool", lambda: lean_bool(i()["guarded"]),
              "int(value) sits inside the try whose `except ValueError` skips the line")

    def st(name):
        return get("strict:" + name, lambda _t: strict_stat_facts(snap, name))

    def w():
        return get("wrap", wrap_facts)

    def has_exact(classes, name):
        return lean_bool(any(c in (name,) + CATCH_ALL for c in classes))

    F.try_add("isfileDeniedRaises", "Bool", lambda: lean_bool(st("isfile_strict")["denied_raises"]),
              "isfile_strict re-raises PermissionError (EACCES / EPERM from os.stat) instead of answering False")
    F.try_add("existsDeniedRaises", "Bool", lambda: lean_bool(st("path_exists_strict")["denied_raises"]),
              "path_exists_strict re-raises PermissionError instead of answering False")
    F.try_add("linkGoneDenied", "Bool", lambda: has_exact(o("link")["link_gone"], "PermissionError"),
              "the handler around readlink(file) that sets hit_enoent also catches PermissionError")
    F.try_add("linkDeniedRaises", "Bool", lambda: lean_bool(o("link")["link_denied_raises"]),
              "EACCES / EPERM from readlink(file) is re-raised by the `except OSError` handler (not one of the errnos it skips)")
    F.try_add("infoGoneDenied", "Bool", lambda: has_exact(o("info_open")["info_gone"], "PermissionError"),
              "the handler around the fdinfo block that sets hit_enoent also catches PermissionError")
    F.try_add("wrapPermAD", "Bool", lambda: lean_bool(w()["perm_ad"]),
              "wrap_exceptions turns PermissionError into AccessDenied(pid, ...)")
    F.try_add("wrapZombieFirst", "Bool", lambda: lean_bool(w()["zombie_first"]),
              "wrap_exceptions calls self._raise_if_zombie() first in the ProcessLookupError and FileNotFoundError handlers")

    # ---- round 3
    KNOWN = ("FileNotFoundError", "ProcessLookupError", "PermissionError")

    def extra(classes):
        return lean_list(sorted({c for c in classes if c not in KNOWN}), lambda c: lean_bytes(c.encode()))

    F.try_add("absFirst", "Bool", lambda: lean_bool(o("filter")["abs_first"]),
              "in the listing filter path.startswith(prefix) is evaluated BEFORE isfile_strict(path) (short-circuit: a non-absolute text is never stat'ed)")
    F.try_add("scanLimit", "Option Nat", lambda: lean_opt(o("loopshape")["limit"], lean_nat),
              "N of `for fd in files[:N]` (none: the loop runs over all of `files`)")
    F.try_add("loopOverListdir", "Bool", lambda: lean_bool(o("loopshape")["over_listdir"]),
              "`files = os.listdir(<procfs>/<pid>/fd)` is what the loop runs over; no break/return in the loop; every popenfile tuple is appended; `return retlist`")
    F.try_add("fdPathsExact", "Bool", lambda: lean_bool(o("paths")),
              "readlink is given <procfs>/<pid>/fd/<fd> and open_binary <procfs>/<pid>/fdinfo/<fd>")
    F.try_add("linkSkipErrnos", "List Nat", lambda: lean_list(o("link")["other"]["skip_errnos"], lean_nat),
              "errno numbers (host values) on which the `except OSError` handler around readlink(file) continues")
    F.try_add("linkSkipClasses", "List (List Nat)",
              lambda: lean_list(o("link")["other"]["skip_classes"], lambda c: lean_bytes(c.encode())),
              "classes of handlers around readlink(file) that swallow the exception without looking at the errno")
    F.try_add("linkGoneExtra", "List (List Nat)", lambda: extra(o("link")["link_gone"]),
              "classes besides FileNotFoundError / ProcessLookupError / PermissionError caught by the hit_enoent handler around readlink(file)")
    F.try_add("infoGoneExtra", "List (List Nat)", lambda: extra(o("info_open")["info_gone"]),
              "classes besides FileNotFoundError / ProcessLookupError / PermissionError caught by the hit_enoent handler around the fdinfo block")
    F.try_add("numFdsLenListdir", "Bool", lambda: lean_bool(n()["len_listdir"]),
              "num_fds returns len(os.listdir(<procfs>/<pid>/fd)) (possibly capped, see numFdsCap)")
    F.try_add("numFdsCap", "Option Nat", lambda: lean_opt(n()["cap"], lean_nat), "N of min(len(...), N) in num_fds (none: no cap)")
    F.try_add("ioIterFile", "Bool", lambda: lean_bool(get("ioiter", io_iter_fact)),
              "io_counters reads `for line in f` over the object of `with open_binary(<procfs>/<pid>/io) as f`, each line stripped, empty ones skipped")

    # ---- seeded round 5: os.stat failing with an errno other than ENOENT / EACCES / EPERM
    def handlers(name):
        return lean_list(st(name)["handlers"],
                         lambda h: "(%s, %s)" % (lean_list(h[0], lambda c: lean_bytes(c.encode())), lean_bool(h[1])))

    F.try_add("isfileHandlers", "List (List (List Nat) × Bool)", lambda: handlers("isfile_strict"),
              "except clauses of the try around os.stat(path) in isfile_strict, in source order: (classes named, true = the clause answers False / false = it re-raises)")
    F.try_add("existsHandlers", "List (List (List Nat) × Bool)", lambda: handlers("path_exists_strict"),
              "the same for path_exists_strict")
