"""C19 translator: facts re-derived from psutil/_pslinux.py, psutil/__init__.py, psutil/_common.py.

Every fact is consumed either by `Model/C19Gen.lean` (it becomes a field of the `Cfg` the driver runs
and the theorems are proved for; obligation `cfg_good` in Props/C19.lean) or by `namesAsModelled` /
`catAsModelled` there (obligations `cfg_names` / `cfg_cat`).

Extractors are as TOTAL as they can be made: where the source may take another shape they return a value that
describes the new shape (a list with other members, a rendered expression, False) so that the obligation fails
on the new VALUE; `NotRecognised` is left for structure without which the fact has no meaning. Each fact is
extracted on its own (`F.try_add` per fact).
"""
import ast

from harness.common import extract
from harness.common.extract import NotRecognised


def _walk_defs(tree, name):
    """All FunctionDef nodes called `name` anywhere in the module (cpu_freq is defined twice, inside an `if`)."""
    return [n for n in ast.walk(tree) if isinstance(n, ast.FunctionDef) and n.name == name]


def _is_desc(node, anc):
    return any(n is node for n in ast.walk(anc))


def _handler_names(h):
    if h.type is None:
        return ["BaseException"]
    if isinstance(h.type, ast.Tuple):
        return [extract.dotted(e) for e in h.type.elts]
    return [extract.dotted(h.type)]


def _for_loops(node, target):
    return [n for n in ast.walk(node) if isinstance(n, ast.For) and extract.dotted(n.target) == target]


def _try_direct(loop):
    """The (single) `try` statement directly in the body of a `for` loop."""
    ts = [s for s in loop.body if isinstance(s, ast.Try)]
    if len(ts) != 1:
        raise NotRecognised("expected exactly one try directly inside the loop, found %d" % len(ts))
    return ts[0]


def _caught(tr):
    """classes of the handlers that skip the entry (their body has a `continue`); a handler that does anything
    else (re-raise, return, fall through) contributes nothing: total"""
    out = []
    for h in tr.handlers:
        if any(isinstance(s, ast.Continue) for s in h.body):
            out += _handler_names(h)
    return out


def _temp_fn(pl):
    return extract.find_def(pl, "sensors_temperatures")


def _hwmon_and_zone_loops(fn):
    loops = _for_loops(fn, "base")
    if len(loops) != 2:
        raise NotRecognised("expected two `for base in basenames` loops, found %d" % len(loops))
    hw, zone = loops
    # the zone loop must sit under `if not basenames:`
    guard = None
    for n in ast.walk(fn):
        if isinstance(n, ast.If) and isinstance(n.test, ast.UnaryOp) and isinstance(n.test.op, ast.Not) \
                and extract.dotted(n.test.operand) == "basenames" and _is_desc(zone, n):
            guard = n
    if guard is None or _is_desc(hw, guard):
        raise NotRecognised("thermal-zone loop is not guarded by `if not basenames`")
    return hw, zone


def _conv_blocks(scope, var):
    """`if <var> is not None: try: <var> = float(<var>) / K except ValueError: <var> = None` blocks in scope."""
    out = []
    for n in ast.walk(scope):
        if isinstance(n, ast.If) and isinstance(n.test, ast.Compare) and extract.dotted(n.test.left) == var \
                and len(n.test.ops) == 1 and isinstance(n.test.ops[0], ast.IsNot):
            for t in n.body:
                if isinstance(t, ast.Try):
                    for a in t.body:
                        if isinstance(a, ast.Assign) and extract.dotted(a.targets[0]) == var \
                                and isinstance(a.value, ast.BinOp) and isinstance(a.value.op, ast.Div):
                            out.append((n, a.value))
    return out


def zone_conv_inside(pl):
    fn = _temp_fn(pl)
    _, zone = _hwmon_and_zone_loops(fn)
    trip = _for_loops(zone, "trip_point")
    if len(trip) != 1:
        raise NotRecognised("trip-point loop not found")
    flags = []
    for var in ("high", "critical"):
        blocks = _conv_blocks(zone, var)
        if len(blocks) != 1:
            raise NotRecognised("expected one conversion block for %s in the zone walker" % var)
        flags.append(_is_desc(blocks[0][0], trip[0]))
    # total: one conversion inside the loop is enough for the defect (the model with `true` converts both inside; the
    # obligation `conv = false` fails either way)
    return flags[0] or flags[1]


def _float_divisors(scope):
    """constants K in every `float(...) / K` under scope"""
    ks = set()
    for n in ast.walk(scope):
        if isinstance(n, ast.BinOp) and isinstance(n.op, ast.Div) and isinstance(n.left, ast.Call) \
                and extract.dotted(n.left.func) == "float":
            ks.add(extract.const(n.right))
    return ks


def _nat(x):
    if isinstance(x, bool) or not isinstance(x, (int, float)) or x != int(x) or x < 0:
        raise NotRecognised("not a natural constant: %r" % (x,))
    return int(x)


def temp_milli(pl):
    ks = _float_divisors(_temp_fn(pl))
    if len(ks) != 1:
        return 0          # total: no single divisor (none, or several different ones) → 0, the obligation `milli = 1000` fails
    return _nat(ks.pop())


def fahrenheit(init):
    fn = [f for f in _walk_defs(init, "convert")]
    front = _walk_defs(init, "sensors_temperatures")
    if len(front) != 1:
        raise NotRecognised("front-end sensors_temperatures not found once")
    conv = [f for f in fn if _is_desc(f, front[0])]
    if len(conv) != 1:
        raise NotRecognised("convert() not found")
    for n in ast.walk(conv[0]):
        if isinstance(n, ast.IfExp) and extract.dotted(n.test) == "fahrenheit":
            e = n.body
            # (float(n) * A / B) + C
            if isinstance(e, ast.BinOp) and isinstance(e.op, ast.Add) and isinstance(e.left, ast.BinOp) \
                    and isinstance(e.left.op, ast.Div) and isinstance(e.left.left, ast.BinOp) \
                    and isinstance(e.left.left.op, ast.Mult) and isinstance(e.left.left.left, ast.Call) \
                    and extract.dotted(e.left.left.left.func) == "float" and extract.dotted(n.orelse) == "n":
                return (_nat(extract.const(e.left.left.right)), _nat(extract.const(e.left.right)),
                        _nat(extract.const(e.right)))
    raise NotRecognised("Fahrenheit expression not recognised")


def backfill_truthiness(init):
    front = _walk_defs(init, "sensors_temperatures")
    if len(front) != 1:
        raise NotRecognised("front-end sensors_temperatures not found once")
    kinds = []
    for n in ast.walk(front[0]):
        if isinstance(n, ast.If) and isinstance(n.test, ast.BoolOp) and isinstance(n.test.op, ast.And) \
                and len(n.test.values) == 2:
            chain = [n]
            while len(chain[-1].orelse) == 1 and isinstance(chain[-1].orelse[0], ast.If):
                chain.append(chain[-1].orelse[0])
            if len(chain) != 2:
                continue
            for node, (a, b) in zip(chain, (("high", "critical"), ("critical", "high"))):
                t = node.test
                if not (isinstance(t, ast.BoolOp) and isinstance(t.op, ast.And) and len(t.values) == 2):
                    raise NotRecognised("back-fill test shape")
                x, y = t.values
                if extract.dotted(x) == a and isinstance(y, ast.UnaryOp) and isinstance(y.op, ast.Not) \
                        and extract.dotted(y.operand) == b:
                    kinds.append(True)
                elif isinstance(x, ast.Compare) and extract.dotted(x.left) == a and isinstance(x.ops[0], ast.IsNot) \
                        and extract.const(x.comparators[0]) is None and isinstance(y, ast.Compare) \
                        and extract.dotted(y.left) == b and isinstance(y.ops[0], ast.Is) \
                        and extract.const(y.comparators[0]) is None:
                    kinds.append(False)
                else:
                    raise NotRecognised("back-fill test is %s" % extract.unparse(t))
                if not (len(node.body) == 1 and isinstance(node.body[0], ast.Assign)
                        and extract.dotted(node.body[0].targets[0]) == b and extract.dotted(node.body[0].value) == a):
                    raise NotRecognised("back-fill assignment is %s" % extract.unparse(node.body[0]))
    if len(kinds) != 2 or kinds[0] != kinds[1]:
        raise NotRecognised("back-fill tests not found / mixed")
    return kinds[0]


def _sysfs_cpu_freq(pl):
    fns = [f for f in _walk_defs(pl, "cpu_freq") if extract.calls_in(f, "glob")]
    if len(fns) != 1:
        raise NotRecognised("sysfs variant of cpu_freq not found")
    return fns[0]


def khz(pl):
    fn = _sysfs_cpu_freq(pl)
    ks = set()
    for n in ast.walk(fn):
        if isinstance(n, ast.BinOp) and isinstance(n.op, ast.Div) and isinstance(n.left, ast.Call) \
                and extract.dotted(n.left.func) == "int":
            ks.add(extract.const(n.right))
        if isinstance(n, ast.BinOp) and isinstance(n.op, ast.Mult) and isinstance(n.left, ast.Subscript) \
                and extract.dotted(n.left.value) == "cpuinfo_freqs":
            ks.add(extract.const(n.right))
    if len(ks) != 1:
        return 0          # total: no single factor → 0, the obligation `khz = 1000` fails
    return _nat(ks.pop())


def _bat_fn(pl):
    return extract.find_def(pl, "sensors_battery")


def _assign_to(fn, var):
    out = [n for n in ast.walk(fn) if isinstance(n, ast.Assign) and len(n.targets) == 1
           and extract.dotted(n.targets[0]) == var]
    return out


def battery_consts(pl):
    fn = _bat_fn(pl)
    pct = hour = minute = None
    for a in _assign_to(fn, "percent"):
        v = a.value
        if isinstance(v, ast.BinOp) and isinstance(v.op, ast.Div) and isinstance(v.left, ast.BinOp) \
                and isinstance(v.left.op, ast.Mult) and extract.dotted(v.left.right) == "energy_now" \
                and extract.dotted(v.right) == "energy_full":
            pct = _nat(extract.const(v.left.left))
    for a in _assign_to(fn, "secsleft"):
        v = a.value
        if isinstance(v, ast.Call) and extract.dotted(v.func) == "int" and isinstance(v.args[0], ast.BinOp):
            e = v.args[0]
            if isinstance(e.op, ast.Mult) and isinstance(e.left, ast.BinOp) and isinstance(e.left.op, ast.Div) \
                    and extract.dotted(e.left.left) == "energy_now" and extract.dotted(e.left.right) == "power_now":
                hour = _nat(extract.const(e.right))
            elif isinstance(e.op, ast.Div) and isinstance(e.left, ast.BinOp) and isinstance(e.left.op, ast.Mult) \
                    and extract.dotted(e.right) == "power_now" \
                    and "energy_now" in (extract.dotted(e.left.left), extract.dotted(e.left.right)):
                # the same quotient written `energy_now * K / power_now` (or `K * energy_now / power_now`)
                k = e.left.right if extract.dotted(e.left.left) == "energy_now" else e.left.left
                hour = _nat(extract.const(k))
            elif isinstance(e.op, ast.Mult) and extract.dotted(e.left) == "time_to_empty":
                minute = _nat(extract.const(e.right))
    # total: a component whose expression has another shape is reported as 0 (the obligations 100 / 3600 / 60 fail on it)
    return pct or 0, hour or 0, minute or 0


def multi_alts(pl, var):
    fn = _bat_fn(pl)
    asg = [a for a in _assign_to(fn, var) if isinstance(a.value, ast.Call)
           and extract.dotted(a.value.func) == "multi_bcat"]
    if len(asg) != 1:
        raise NotRecognised("%s = multi_bcat(...) not found once" % var)
    out = []
    for arg in asg[0].value.args:
        if isinstance(arg, ast.BinOp) and isinstance(arg.op, ast.Add) and extract.dotted(arg.left) == "root":
            out.append(extract.const(arg.right).lstrip("/"))
        elif isinstance(arg, ast.Call) and extract.dotted(arg.func).endswith("path.join") \
                and extract.dotted(arg.args[0]) == "POWER_SUPPLY_PATH":
            out.append(extract.const(arg.args[1]))
        else:
            raise NotRecognised("multi_bcat argument %s" % extract.unparse(arg))
    return out


def bat_filter(pl):
    fn = _bat_fn(pl)
    for n in ast.walk(fn):
        if isinstance(n, ast.ListComp) and len(n.generators) == 1 and len(n.generators[0].ifs) == 1:
            t = n.generators[0].ifs[0]
            if isinstance(t, ast.BoolOp) and isinstance(t.op, ast.Or) and len(t.values) == 2:
                a, b = t.values
                if isinstance(a, ast.Call) and extract.dotted(a.func) == "x.startswith" \
                        and isinstance(b, ast.Compare) and isinstance(b.ops[0], ast.In) \
                        and extract.dotted(b.comparators[0]) == "x.lower()":
                    return extract.const(a.args[0]), extract.const(b.left)
    raise NotRecognised("battery name filter not recognised")


def fan_caught(pl):
    fn = extract.find_def(pl, "sensors_fans")
    loops = _for_loops(fn, "base")
    if len(loops) != 1:
        raise NotRecognised("fan loop")
    tr = _try_direct(loops[0])
    # the try must protect exactly the reading of `_input`
    if not (len(tr.body) == 1 and isinstance(tr.body[0], ast.Assign) and extract.dotted(tr.body[0].targets[0]) == "current"):
        raise NotRecognised("fan try body")
    return _caught(tr)


def stat_keys(pl):
    fn = extract.find_def(pl, "cpu_stats")
    keys = []
    for n in ast.walk(fn):
        if isinstance(n, ast.Call) and extract.dotted(n.func) == "line.startswith":
            keys.append(extract.const(n.args[0]).decode())
    idx = set()
    for n in ast.walk(fn):
        if isinstance(n, ast.Subscript) and extract.dotted(n.value) == "line.split()":
            idx.add(extract.const(n.slice))
    if idx != {1}:
        raise NotRecognised("cpu_stats reads index %r" % idx)
    return keys


def btime_key(pl):
    fn = extract.find_def(pl, "boot_time")
    for n in ast.walk(fn):
        if isinstance(n, ast.Call) and extract.dotted(n.func) == "line.startswith":
            key = extract.const(n.args[0]).decode()
            break
    else:
        raise NotRecognised("btime test")
    idx = {extract.const(n.slice) for n in ast.walk(fn) if isinstance(n, ast.Subscript)
           and extract.dotted(n.value).endswith("split()")}
    if idx != {1}:
        raise NotRecognised("boot_time reads index %r" % idx)
    return key


def _cores_fn(pl):
    return extract.find_def(pl, "cpu_count_cores")


def topology_globs(pl):
    """the patterns of `for path in glob.glob(A) or glob.glob(B)`, in that order"""
    fn = _cores_fn(pl)
    consts = {}
    for n in ast.walk(fn):
        if isinstance(n, ast.Assign) and len(n.targets) == 1 and isinstance(n.targets[0], ast.Name) \
                and isinstance(n.value, ast.Constant) and isinstance(n.value.value, str):
            consts[n.targets[0].id] = n.value.value
    loops = _for_loops(fn, "path")
    if len(loops) != 1:
        raise NotRecognised("expected one `for path in ...` loop in cpu_count_cores")
    it = loops[0].iter
    calls = it.values if isinstance(it, ast.BoolOp) and isinstance(it.op, ast.Or) else [it]
    out = []
    for c in calls:
        if not (isinstance(c, ast.Call) and extract.dotted(c.func) == "glob.glob" and len(c.args) == 1):
            raise NotRecognised("topology iterable %s" % extract.unparse(it))
        a = c.args[0]
        out.append(consts[a.id] if isinstance(a, ast.Name) else extract.const(a))
    # the set must be fed with the STRIPPED content, and the result must be its size
    adds = [n for n in ast.walk(loops[0]) if isinstance(n, ast.Call) and extract.dotted(n.func) == "ls.add"]
    if len(adds) != 1 or extract.unparse(adds[0].args[0]) != "f.read().strip()":
        raise NotRecognised("ls.add(f.read().strip()) not found")
    return out


def cores_mapping(pl):
    """(K, V) of `mapping[current_info[K]] = current_info[V]` and the keys of the `startswith` test"""
    fn = _cores_fn(pl)
    kv = None
    for n in ast.walk(fn):
        if isinstance(n, ast.Assign) and isinstance(n.targets[0], ast.Subscript) \
                and extract.dotted(n.targets[0].value) == "mapping":
            k = n.targets[0].slice
            v = n.value
            if isinstance(k, ast.Subscript) and isinstance(v, ast.Subscript) \
                    and extract.dotted(k.value) == "current_info" and extract.dotted(v.value) == "current_info":
                kv = (extract.const(k.slice).decode(), extract.const(v.slice).decode())
    if kv is None:
        raise NotRecognised("mapping[current_info[..]] = current_info[..] not found")
    keys = None
    for n in ast.walk(fn):
        if isinstance(n, ast.Call) and extract.dotted(n.func) == "line.startswith" and isinstance(n.args[0], ast.Tuple):
            keys = [extract.const(e).decode() for e in n.args[0].elts]
    if keys is None:
        raise NotRecognised("line.startswith((..)) not found")
    seps = [extract.const(n.args[0]) for n in ast.walk(fn)
            if isinstance(n, ast.Call) and extract.dotted(n.func) == "line.split" and n.args]
    if seps != [b"\t:"]:
        raise NotRecognised("key/value separator %r" % (seps,))
    return [kv[0], kv[1]] + keys


def power_time(common, name):
    cls = extract.find_class(common, "BatteryTime")
    for st in cls.body:
        if isinstance(st, ast.Assign) and extract.dotted(st.targets[0]) == name:
            return extract.const(st.value)
    raise NotRecognised(name)


def trip_name_rule(pl):
    """[glob suffix, separator, slice lo, slice hi, suffix of the type file, suffix of the temp file] of
    `trip_paths = glob.glob(base + G)`, `{SEP.join(os.path.basename(p).split(SEP)[LO:HI]) for p in trip_paths}`,
    `trip_point + "_type"` / `trip_point + "_temp"` inside `for trip_point in trip_points`"""
    fn = _temp_fn(pl)
    _, zone = _hwmon_and_zone_loops(fn)
    g = None
    for a in _assign_to(zone, "trip_paths"):
        v = a.value
        if isinstance(v, ast.Call) and extract.dotted(v.func) == "glob.glob" and len(v.args) == 1 \
                and isinstance(v.args[0], ast.BinOp) and isinstance(v.args[0].op, ast.Add) \
                and extract.dotted(v.args[0].left) == "base":
            g = extract.const(v.args[0].right)
    if g is None:
        raise NotRecognised("trip_paths = glob.glob(base + ...) not found")
    rule = None
    for a in _assign_to(zone, "trip_points"):
        v = a.value
        if not (isinstance(v, ast.SetComp) and len(v.generators) == 1 and not v.generators[0].ifs
                and extract.dotted(v.generators[0].iter) == "trip_paths"):
            continue
        var = extract.dotted(v.generators[0].target)
        e = v.elt
        if isinstance(e, ast.Call) and isinstance(e.func, ast.Attribute) and e.func.attr == "join" \
                and isinstance(e.func.value, ast.Constant) and len(e.args) == 1 and isinstance(e.args[0], ast.Subscript):
            sub = e.args[0]
            sp = sub.value
            if isinstance(sub.slice, ast.Slice) and sub.slice.step is None and isinstance(sp, ast.Call) \
                    and isinstance(sp.func, ast.Attribute) and sp.func.attr == "split" and len(sp.args) == 1 \
                    and extract.unparse(sp.func.value) == "os.path.basename(%s)" % var:
                sep = extract.const(e.func.value)
                if extract.const(sp.args[0]) != sep:
                    raise NotRecognised("split and join separators differ")
                lo = 0 if sub.slice.lower is None else extract.const(sub.slice.lower)
                hi = extract.const(sub.slice.upper)
                rule = (sep, _nat(lo), _nat(hi))
    if rule is None:
        raise NotRecognised("trip_points set comprehension not recognised")
    trip = _for_loops(zone, "trip_point")
    if len(trip) != 1 or extract.dotted(trip[0].iter) != "trip_points":
        raise NotRecognised("`for trip_point in trip_points` not found")
    sufs = []
    for n in ast.walk(trip[0]):
        if isinstance(n, ast.BinOp) and isinstance(n.op, ast.Add) and extract.dotted(n.left) == "trip_point":
            c = extract.const(n.right)
            if c not in sufs:
                sufs.append(c)
    # the type file is the one handed to cat(), the temp file the one handed to bcat()
    cat_args = [extract.unparse(n.args[0]) for n in ast.walk(trip[0])
                if isinstance(n, ast.Call) and extract.dotted(n.func) == "cat" and n.args]
    if cat_args != ["path"] or len(sufs) != 2:
        raise NotRecognised("trip-point file names: %r / cat(%r)" % (sufs, cat_args))
    return [g, rule[0], str(rule[1]), str(rule[2])] + sufs


def trip_kinds(pl):
    """[constant compared with trip_type, variable assigned] for the if / elif of the trip-point loop"""
    fn = _temp_fn(pl)
    _, zone = _hwmon_and_zone_loops(fn)
    trip = _for_loops(zone, "trip_point")
    if len(trip) != 1:
        raise NotRecognised("trip-point loop not found")
    out = []
    for n in ast.walk(trip[0]):
        if isinstance(n, ast.If) and isinstance(n.test, ast.Compare) and extract.dotted(n.test.left) == "trip_type":
            if not (len(n.test.ops) == 1 and isinstance(n.test.ops[0], ast.Eq)):
                raise NotRecognised("trip_type test %s" % extract.unparse(n.test))
            if not (len(n.body) == 1 and isinstance(n.body[0], ast.Assign)):
                raise NotRecognised("trip_type branch body")
            out += [extract.const(n.test.comparators[0]), extract.dotted(n.body[0].targets[0])]
    return out


def battery_no_dir_none(pl):
    """is a missing POWER_SUPPLY_PATH answered with `return None`?  Either the `os.listdir(POWER_SUPPLY_PATH)` call
    sits in a `try` with a handler for FileNotFoundError / OSError (or wider) whose body is `return None`, or the
    function tests `os.path.exists/isdir(POWER_SUPPLY_PATH)` and returns None before listing. Total: False otherwise."""
    fn = _bat_fn(pl)
    wide = {"FileNotFoundError", "OSError", "IOError", "EnvironmentError", "Exception", "BaseException"}

    def returns_none(body):
        return any(isinstance(st, ast.Return) and (st.value is None or (isinstance(st.value, ast.Constant)
                                                                         and st.value.value is None)) for st in body)

    def is_listdir(n):
        return isinstance(n, ast.Call) and extract.dotted(n.func) == "os.listdir" and n.args \
            and extract.dotted(n.args[0]) == "POWER_SUPPLY_PATH"
    for t in ast.walk(fn):
        if isinstance(t, ast.Try) and any(is_listdir(n) for st in t.body for n in ast.walk(st)):
            for h in t.handlers:
                if set(_handler_names(h)) & wide and returns_none(h.body):
                    return True
    first_list = min([n.lineno for n in ast.walk(fn) if is_listdir(n)] or [10**9])
    for t in ast.walk(fn):
        if isinstance(t, ast.If) and t.lineno < first_list and returns_none(t.body) \
                and isinstance(t.test, ast.UnaryOp) and isinstance(t.test.op, ast.Not) \
                and isinstance(t.test.operand, ast.Call) \
                and extract.dotted(t.test.operand.func) in ("os.path.exists", "os.path.isdir") \
                and t.test.operand.args and extract.dotted(t.test.operand.args[0]) == "POWER_SUPPLY_PATH":
            return True
    return False


def _cat_try(common):
    fn = extract.find_def(common, "cat")
    ts = [n for n in ast.walk(fn) if isinstance(n, ast.Try)]
    if len(ts) != 1:
        raise NotRecognised("expected one try in _common.cat, found %d" % len(ts))
    return fn, ts[0]


def cat_caught(common):
    """classes whose handler in `_common.cat` returns the fallback"""
    _, tr = _cat_try(common)
    out = []
    for h in tr.handlers:
        if any(isinstance(st, ast.Return) and extract.dotted(st.value) == "fallback" for st in h.body):
            out += _handler_names(h)
    return out


def cat_try_covers_read(common):
    """does the `try` of `_common.cat` cover BOTH the open (`_open(fname)`) and the `.read()`?"""
    _, tr = _cat_try(common)
    calls = [n for st in tr.body for n in ast.walk(st) if isinstance(n, ast.Call)]
    has_open = any(extract.dotted(c.func) == "_open" for c in calls)
    has_read = any(isinstance(c.func, ast.Attribute) and c.func.attr == "read" for c in calls)
    bcat = extract.find_def(common, "bcat")
    via_cat = any(isinstance(n, ast.Call) and extract.dotted(n.func) == "cat" for n in ast.walk(bcat))
    return has_open and has_read and via_cat


def glob_patterns(fn):
    """every argument of a `glob.glob(...)` call in source order: the string constant, else the rendered expression"""
    calls = [n for n in ast.walk(fn) if isinstance(n, ast.Call) and extract.dotted(n.func) == "glob.glob"]
    calls.sort(key=lambda n: (n.lineno, n.col_offset))
    out = []
    for c in calls:
        a = c.args[0] if c.args else None
        if isinstance(a, ast.Constant) and isinstance(a.value, str):
            out.append(a.value)
        else:
            out.append("<%s>" % (extract.unparse(a) if a is not None else ""))
    return out


def boot_time_return(pl):
    """[expression returned in the `btime` branch, expression assigned to it] of boot_time()"""
    fn = extract.find_def(pl, "boot_time")
    for n in ast.walk(fn):
        if isinstance(n, ast.If) and isinstance(n.test, ast.Call) and extract.dotted(n.test.func) == "line.startswith":
            rets = [st for st in ast.walk(n) if isinstance(st, ast.Return)]
            if len(rets) != 1:
                return ["<%d returns>" % len(rets), ""]
            name = extract.unparse(rets[0].value)
            asg = [a for a in _assign_to(n, name)]
            return [name, extract.unparse(asg[0].value) if len(asg) == 1 else "<%d assignments>" % len(asg)]
    raise NotRecognised("btime branch")


# ---- seeded round 5: everything that touches the module global BOOT_TIME, the front end, create_time()

def _body_stmts(fn):
    """the statements of a function body, docstring dropped, each rendered on its own (compound statements whole)"""
    body = list(fn.body)
    if body and isinstance(body[0], ast.Expr) and isinstance(body[0].value, ast.Constant) and isinstance(body[0].value.value, str):
        body = body[1:]
    return [extract.unparse(st) for st in body]


def boot_global_uses(mods):
    """every place that names BOOT_TIME, in source order: '<module>/<qualified function>:<load|store|del|global>'
    (a bare name in _pslinux, or an attribute `.BOOT_TIME` of anything, in the modules given)"""
    out = []

    def visit(node, qual, modname):
        for ch in ast.iter_child_nodes(node):
            q = qual
            if isinstance(ch, (ast.FunctionDef, ast.AsyncFunctionDef, ast.ClassDef)):
                q = ch.name if qual == "<module>" else qual + "." + ch.name
            kind = None
            if isinstance(ch, ast.Name) and ch.id == "BOOT_TIME":
                kind = type(ch.ctx).__name__.lower()
            elif isinstance(ch, ast.Attribute) and ch.attr == "BOOT_TIME":
                kind = type(ch.ctx).__name__.lower()
            elif isinstance(ch, (ast.Global, ast.Nonlocal)) and "BOOT_TIME" in ch.names:
                kind = "global"
            elif isinstance(ch, ast.Constant) and ch.value == "BOOT_TIME":
                kind = "string"                      # getattr/setattr/globals()['BOOT_TIME'] spellings
            if kind is not None:
                out.append((ch.lineno, ch.col_offset, "%s/%s:%s" % (modname, qual, kind)))
            visit(ch, q, modname)
    res = []
    for modname, tree in mods:
        out = []
        visit(tree, "<module>", modname)
        res += [x[2] for x in sorted(out)]
    return res


def boot_time_front(init):
    return _body_stmts(extract.find_def(init, "boot_time"))


def create_time_body(pl):
    return _body_stmts(extract.find_def(pl, "create_time", cls="Process"))


def logical_tests(pl):
    """[test that counts a /proc/cpuinfo line, regex that counts a /proc/stat row, how the row's first field is cut]"""
    fn = extract.find_def(pl, "cpu_count_logical")
    tests = [extract.unparse(n.test) for n in ast.walk(fn) if isinstance(n, ast.If) and isinstance(n.test, ast.Call)
             and "startswith" in extract.unparse(n.test)]
    regs = [extract.const(n.args[0]) for n in ast.walk(fn) if isinstance(n, ast.Call)
            and extract.dotted(n.func) == "re.compile" and n.args and isinstance(n.args[0], ast.Constant)]
    cuts = [extract.unparse(a.value) for a in _assign_to(fn, "line")]
    return tests + ["|"] + regs + ["|"] + cuts


def cpuinfo_freq_test(pl):
    fn = extract.find_def(pl, "_cpu_get_cpuinfo_freq")
    for n in ast.walk(fn):
        if isinstance(n, ast.ListComp):
            return [extract.unparse(n.elt)] + [extract.unparse(i) for g in n.generators for i in g.ifs]
    return ["<no list comprehension>"]


def online_probe(pl):
    """the path of the `online` file probed for a policy that has no frequency file: the expression assigned to
    `online_path` (else the first argument of the `cat(...) == '0\\n'` comparison), rendered"""
    fn = _sysfs_cpu_freq(pl)
    asg = _assign_to(fn, "online_path")
    if len(asg) == 1:
        return extract.unparse(asg[0].value)
    for n in ast.walk(fn):
        if isinstance(n, ast.Compare) and isinstance(n.left, ast.Call) and extract.dotted(n.left.func) == "cat" and n.left.args:
            return extract.unparse(n.left.args[0])
    return "<no online probe>"


def facts(snap, F):
    pl = extract.parse_module(snap, "_pslinux.py")
    init = extract.parse_module(snap, "__init__.py")
    common = extract.parse_module(snap, "_common.py")
    S = extract.lean_str

    def strs(l):
        return extract.lean_list(l, S)

    F.try_add("tempCaught", "List String",
              lambda: strs(_caught(_try_direct(_hwmon_and_zone_loops(_temp_fn(pl))[0]))),
              "exception classes after which the hwmon walker skips the sensor (`except (...): continue`)")
    F.try_add("zoneCaught", "List String",
              lambda: strs(_caught(_try_direct(_hwmon_and_zone_loops(_temp_fn(pl))[1]))),
              "exception classes after which the thermal-zone walker skips the zone")
    F.try_add("fanCaught", "List String", lambda: strs(fan_caught(pl)),
              "exception classes after which sensors_fans skips the fan")
    F.try_add("zoneConvInsideLoop", "Bool", lambda: extract.lean_bool(zone_conv_inside(pl)),
              "are the `float(x) / 1000.0` conversions of high/critical children of the `for trip_point` loop?")
    F.try_add("tempMilli", "Nat", lambda: extract.lean_nat(temp_milli(pl)),
              "the single divisor used by every `float(...) / K` of sensors_temperatures")
    F.try_add("backfillTruthiness", "Bool", lambda: extract.lean_bool(backfill_truthiness(init)),
              "the back-fill tests are `high and not critical` (truthiness; 0.0 counts as missing), not `is None`")
    F.try_add("fahrenheit", "Nat × Nat × Nat",
              lambda: "(%d, %d, %d)" % fahrenheit(init), "(A, B, C) of `float(n) * A / B + C`")
    F.try_add("khz", "Nat", lambda: extract.lean_nat(khz(pl)), "the kHz→MHz divisor / MHz→kHz factor of cpu_freq")
    F.try_add("batteryConsts", "Nat × Nat × Nat", lambda: "(%d, %d, %d)" % battery_consts(pl),
              "(percent factor, seconds per hour, seconds per minute) of sensors_battery")
    F.try_add("powerTimeUnknown", "Int", lambda: extract.lean_int(power_time(common, "POWER_TIME_UNKNOWN")), "")
    F.try_add("powerTimeUnlimited", "Int", lambda: extract.lean_int(power_time(common, "POWER_TIME_UNLIMITED")), "")
    F.try_add("energyNowAlts", "List String", lambda: strs(multi_alts(pl, "energy_now")), "multi_bcat alternatives")
    F.try_add("powerNowAlts", "List String", lambda: strs(multi_alts(pl, "power_now")), "multi_bcat alternatives")
    F.try_add("energyFullAlts", "List String", lambda: strs(multi_alts(pl, "energy_full")), "multi_bcat alternatives")
    F.try_add("timeToEmptyAlts", "List String", lambda: strs(multi_alts(pl, "time_to_empty")), "multi_bcat alternatives")
    F.try_add("onlineAlts", "List String", lambda: strs(multi_alts(pl, "online")), "multi_bcat alternatives")
    F.try_add("batPrefix", "List Nat", lambda: extract.lean_bytes(bat_filter(pl)[0].encode()), "x.startswith(<this>) — bytes")
    F.try_add("batInfix", "List Nat", lambda: extract.lean_bytes(bat_filter(pl)[1].encode()), "<this> in x.lower() — bytes")
    F.try_add("statKeys", "List String", lambda: strs(stat_keys(pl)),
              "the `line.startswith` keys of cpu_stats in test order (value = second token)")
    F.try_add("btimeKey", "String", lambda: S(btime_key(pl)), "the key of boot_time (value = second token)")
    F.try_add("topologyGlobs", "List String", lambda: strs(topology_globs(pl)),
              "cpu_count_cores: the glob patterns in the order of `glob(A) or glob(B)` (content stripped, set size returned)")
    F.try_add("coresMapping", "List String", lambda: strs(cores_mapping(pl)),
              "cpu_count_cores method #2: [K, V] of `mapping[current_info[K]] = current_info[V]`, then the `startswith` keys")
    F.try_add("tripNameRule", "List String", lambda: strs(trip_name_rule(pl)),
              "thermal zone: [glob suffix, separator, slice lo, hi of `SEP.join(basename(p).split(SEP)[lo:hi])`, suffix of the type file, of the temp file]")
    F.try_add("tripKinds", "List String", lambda: strs(trip_kinds(pl)),
              "trip-point loop: [constant compared with trip_type, variable assigned] per branch")
    # round 3
    F.try_add("batteryNoDirNone", "Bool", lambda: extract.lean_bool(battery_no_dir_none(pl)),
              "sensors_battery(): a missing POWER_SUPPLY_PATH is answered with `return None` (listing guarded / error caught)")
    F.try_add("catCaught", "List String", lambda: strs(cat_caught(common)),
              "_common.cat: exception classes whose handler returns the fallback")
    F.try_add("catTryCoversRead", "Bool", lambda: extract.lean_bool(cat_try_covers_read(common)),
              "_common.cat: the try covers the open AND the read(); bcat goes through cat")
    F.try_add("tempGlobs", "List String", lambda: strs(glob_patterns(_temp_fn(pl))),
              "sensors_temperatures: arguments of glob.glob in source order (constant, else <expression>)")
    F.try_add("fanGlobs", "List String", lambda: strs(glob_patterns(extract.find_def(pl, "sensors_fans"))),
              "sensors_fans: arguments of glob.glob in source order")
    F.try_add("cpufreqGlobs", "List String", lambda: strs(glob_patterns(_sysfs_cpu_freq(pl))),
              "cpu_freq (sysfs variant): arguments of glob.glob in source order")
    F.try_add("onlineProbe", "String", lambda: extract.lean_str(online_probe(pl)),
              "cpu_freq (sysfs variant): path of the `online` file probed for a policy without frequency files")
    F.try_add("bootTimeReturn", "List String", lambda: strs(boot_time_return(pl)),
              "boot_time(): [expression returned in the btime branch, what was assigned to it]")
    # seeded round 5: the history dimension around the module global BOOT_TIME
    F.try_add("bootGlobalUses", "List String",
              lambda: strs(boot_global_uses([("_pslinux", pl), ("__init__", init), ("_common", common)])),
              "every place that names BOOT_TIME in _pslinux / __init__ / _common: module/function:load|store|global, source order")
    F.try_add("bootTimeFront", "List String", lambda: strs(boot_time_front(init)),
              "psutil.boot_time(): the statements of its body (no caching in the front end)")
    F.try_add("createTimeBody", "List String", lambda: strs(create_time_body(pl)),
              "_pslinux.Process.create_time(): the statements of its body (reads the global, else boot_time())")
    F.try_add("logicalTests", "List String", lambda: strs(logical_tests(pl)),
              "cpu_count_logical: cpuinfo line test | stat row regex | how the row's first field is cut")
    F.try_add("cpuinfoFreqTest", "List String", lambda: strs(cpuinfo_freq_test(pl)),
              "_cpu_get_cpuinfo_freq: [element, condition] of the list comprehension")
