"""C07 — child process of the `fresh import` family (run by harness/props/c07.py, never imported).

Imports the snapshot's psutil FRESH, with `/proc/stat` scripted from outside (a wrapper around
builtins.open that serves the next snapshot each time `/proc/stat` is opened), so that the module-level
priming code of psutil/__init__.py (`_last_cpu_times = {tid: cpu_times()}` …) really runs, from the main
thread or from a worker thread; then issues cpu_percent / cpu_times_percent calls from the importing
thread and from other threads and prints everything observed as one JSON document.

stdin: {"snapdir": str, "import_on": "main"|"worker", "import_reads": [hex, hex, hex],
        "ops": [{"fn", "percpu", "interval": null|float, "who": int (0 = importing thread), "reads": [hex…]}]}
"""
import builtins
import json
import os
import queue
import sys
import tempfile
import threading
import time

job = json.load(sys.stdin)
tmpdir = tempfile.mkdtemp(prefix="c07imp-")
tmpfile = os.path.join(tmpdir, "stat")
feed = {"data": [bytes.fromhex(h) for h in job["import_reads"]], "i": 0}
real_open = builtins.open


def fake_open(file, *a, **kw):
    if file == "/proc/stat":
        d = feed["data"]
        data = d[min(feed["i"], len(d) - 1)] if d else b""
        feed["i"] += 1
        with real_open(tmpfile, "wb") as f:
            f.write(data)
        return real_open(tmpfile, *a, **kw)
    return real_open(file, *a, **kw)


builtins.open = fake_open


class Worker(threading.Thread):
    def __init__(self):
        super().__init__(daemon=True)
        self.q = queue.Queue()
        self.start()

    def run(self):
        while True:
            fn, box, ev = self.q.get()
            try:
                box.append(fn())
            except BaseException as e:  # noqa: BLE001
                box.append({"kind": "harness-exc", "exc": repr(e)})
            ev.set()

    def call(self, fn):
        box, ev = [], threading.Event()
        self.q.put((fn, box, ev))
        if not ev.wait(60):
            return {"kind": "harness-timeout"}
        return box[0]


workers = {}


def on(who, fn):
    """run fn on thread `who` (0 = the importing thread)"""
    if who == 0 and job["import_on"] == "main":
        return fn()
    if who not in workers:
        workers[who] = Worker()
    return workers[who].call(fn)


out = {}


def do_import():
    sys.path.insert(0, job["snapdir"])
    import psutil
    return {"ident": threading.get_ident(), "file": psutil.__file__}


imp = on(0, do_import)
import psutil  # noqa: E402  (already imported by do_import)

out["import"] = {
    "nreads": feed["i"],
    "fields": list(psutil._psplatform.scputimes._fields),
    "clock_ticks": int(psutil._psplatform.CLOCK_TICKS),
    "file": imp.get("file") if isinstance(imp, dict) else repr(imp),
    # is there an entry for the importing thread in each of the four dictionaries, and nothing else?
    "has": [imp["ident"] in d for d in (psutil._last_cpu_times, psutil._last_per_cpu_times,
                                        psutil._last_cpu_times_2, psutil._last_per_cpu_times_2)]
    if isinstance(imp, dict) and "ident" in imp else None,
    "sizes": [len(d) for d in (psutil._last_cpu_times, psutil._last_per_cpu_times,
                               psutil._last_cpu_times_2, psutil._last_per_cpu_times_2)],
    "distinct": len({id(d) for d in (psutil._last_cpu_times, psutil._last_per_cpu_times,
                                     psutil._last_cpu_times_2, psutil._last_per_cpu_times_2)}),
}


def types_ok(r):
    if isinstance(r, float):
        return True
    if isinstance(r, list):
        return all(types_ok(x) for x in r)
    if isinstance(r, tuple):
        return all(isinstance(x, float) for x in r)
    return False


def one_call(op):
    fn = psutil.cpu_percent if op["fn"] == "percent" else psutil.cpu_times_percent

    def run():
        feed["data"], feed["i"] = [bytes.fromhex(h) for h in op["reads"]], 0
        slept = []
        orig_sleep = time.sleep
        time.sleep = lambda s: slept.append(s)
        n = 0
        try:
            try:
                r = fn(interval=op["interval"], percpu=op["percpu"])
            finally:
                time.sleep = orig_sleep
                n = feed["i"]
            if op["percpu"]:
                val = {"k": "nums", "v": [float(x) for x in r]} if op["fn"] == "percent" else \
                    {"k": "tups", "v": [[float(x) for x in t] for t in r]}
            elif op["fn"] == "percent":
                val = {"k": "num", "v": float(r)}
            else:
                val = {"k": "tup", "v": [float(x) for x in r]}
            return {"kind": "ok", "nreads": n, "val": val, "slept": len(slept), "types_ok": types_ok(r)}
        except Exception as e:  # noqa: BLE001 — every exception is an observable
            return {"kind": "exc", "exc": type(e).__name__, "nreads": n, "slept": len(slept)}
    return on(op["who"], run)


out["ops"] = [one_call(op) for op in job["ops"]]
builtins.open = real_open
try:
    os.unlink(tmpfile)
    os.rmdir(tmpdir)
except OSError:
    pass
json.dump(out, sys.stdout)
