"""C13 — process memory figures are consistent with the kernel's per-mapping accounting.

Model: lean/PsutilModel/Model/C13.lean (+C13Gen), Spec: Spec/C13.lean, theorems: Props/C13.lean.
Correspondence: the real `psutil.Process(pid).memory_info / memory_full_info / memory_maps(grouped=…)
/ memory_percent(memtype)` are driven in-process over a fake procfs whose statm / smaps /
smaps_rollup files are produced by the Lean kernel-side renderers (so implementation and model read
byte-identical content); results are compared with the Lean model and with the specification the
driver prints alongside.
"""
import errno
import hashlib
import json
import os
import shutil
import tempfile
import warnings
from fractions import Fraction

from harness.common import fakeproc
from harness.common.build import InfraError
from harness.common.shrink import ddmin
from harness.props.c13_facts import facts  # noqa: F401  (translator entry point)

PROP = "C13"
DRIVER_MODULES = ["PsutilModel.Model.C13Gen", "PsutilModel.Spec.C13", "PsutilModel.Spec.C13Bind"]
NEEDS_EXT = True
TRUSTED = [
    "C13 kernel-side renderers (Spec/C13.lean renderStatm/renderSmaps/renderRollup): transcriptions of fs/proc/task_mmu.c and array.c; validated on every run by re-rendering the harness process's own /proc/self/smaps, smaps_rollup header and statm byte-for-byte",
    "C13 regex model: Python's `re` is modelled by Model/C13Re.lean — a backtracking matcher + findall for the fragment the three patterns of _parse_smaps use (literals, `\\s` `\\d` `.` under greedy `*`/`+`, one group `(\\d+)`; bytes patterns, ASCII classes), compiled in Lean from the pattern TEXT the translator extracts; trusted: that this matcher is sre's semantics on the fragment (exercised on every run by raw families on which findall over the whole text and the line-anchored reading DIFFER: a `\\s+` running over a newline, several colons, `Pss:9`); that findall equals the line-anchored reading on every rendered file is a theorem (C13_regex_line_anchored); `int()` (only plain digit strings are modelled; '+1', '1_0' are outside), bytes.split/strip and str.endswith are trusted",
    "C13 path_exists_strict is a parameter of the model (present / missing / PermissionError); the harness patches it with a table (plus a few cases on real files)",
    "C13 floats: memory_percent is compared with the exact rational 100*value/total at relative tolerance 1e-12",
    "C13 /proc/meminfo renderer (Spec/C13.lean renderMeminfo = the smaps key-line shape `show_val_kb`): validated on every run by re-rendering the live /proc/meminfo byte-for-byte; only `.total` of virtual_memory() is modelled here (the other svmem fields are C06's)",
    "C13 procfs trees (family rebind): a procfs tree is a directory psutil.PROCFS_PATH is pointed at; the trees of one history hold the same system-wide stat / meminfo (MemTotal 0: memory_percent's total is always the given psutil._TOTAL_PHYMEM) and differ in what <pid>/ holds; the files of a tree do not change during a history (so block caches are invisible and `enter` / `exit` are identities in the model)",
    "C13 call modes: the harness decides which files may be overwritten inside a warm oneshot() block (see ASSUMPTIONS); process_iter() is driven over the fake procfs (one pid directory)",
]
ASSUMPTIONS = [
    "every mapping of one smaps file prints the same key list (UniformKeys; true of every kernel, and checked against the live /proc/self/smaps on every run) — get_blocks' dict is created once and never cleared; what the code does on every other file is a theorem (C13_maps_nonuniform_exact), and C13_maps_right_iff_no_stale_key says exactly on which files it is right",
    "file names do not begin with a blank and contain no newline (the kernel escapes it); names ending in blanks or in non-ASCII Unicode spaces (U+0085, U+00A0, U+2003, U+3000, …) are inside the domain (generated; the code no longer strips the decoded name)",
    "the VmFlags line lists at least one mnemonic; a key line has a number (a bare `Key:` line raises IndexError in psutil; no kernel prints one)",
    "a roll-up rendered FROM the mappings is their field-wise kB sum (C13_rollup_agrees); the real kernel keeps sub-kB precision and prints keys of its own (Pss_Anon/Pss_File/Pss_Shmem): covered by the roll-up-record families (ANY roll-up content, C13_rollup_record / C13_full_info_from_rollup; the live /proc/self/smaps_rollup is re-rendered byte-for-byte on every run) and characterised by C13_rollup_subkb_bound",
    "/proc/meminfo prints every label once and always prints MemTotal and MemFree; /proc/zoneinfo is absent from the fake procfs (virtual_memory's MemAvailable fall-back then cannot raise)",
    "a Process object stands for the process that had its pid under the procfs tree psutil.PROCFS_PATH pointed at when the object was CREATED (psutil documents: set PROCFS_PATH, then create the objects; _pslinux.Process.__init__ captures the root); which tree memory_percent's TOTAL is read from after a re-pointing is not claimed (the rebind family always gives the total through psutil._TOTAL_PHYMEM); objects handed out by process_iter() across a re-pointing are C01/C05's subject",
    "inside a oneshot() block the answer is that of the first read of a block-cached source (front-end memory_info; _read_smaps_file): the harness overwrites statm / smaps only after such a read succeeded, and never smaps_rollup or (for memory_full_info) statm, which are re-read by design",
]
MANIFEST = {
    "level_text": "Machine-checked Lean 4 proofs over a model of _pslinux.Process.memory_info / _parse_smaps_rollup / _parse_smaps / memory_full_info / memory_maps, the front-end grouping fold, memory_percent together with the module cache _TOTAL_PHYMEM, and the /proc/meminfo loop of virtual_memory(), against kernel-side renderers of statm, smaps, smaps_rollup and meminfo: C13_statm (round trip for every statm record and page size), C13_maps_roundtrip (memory_maps(renderSmaps ms) = map specRow ms for EVERY list of well-formed mappings: any number, repeated and adversarial paths with spaces/colons/' (deleted)'/key-like names, anonymous mappings, optional lines, values of any size), C13_maps_nonuniform_exact + C13_maps_right_iff_no_stale_key (what the never-cleared dict of get_blocks does when mappings print different key lists, and exactly which files it gets right; C13_uniform_keys_never_stale: all kernel-reachable ones), C13_full_info_sums, C13_rollup_agrees, C13_rollup_record + C13_full_info_from_rollup (EVERY roll-up content as a record of its own: any key lines, keys only the roll-up prints, any values), C13_rollup_subkb_bound (kernel-side characterisation: the roll-up's Pss exceeds the per-mapping sum by less than 1 kB per mapping), C13_rollup_fallback (+ C13_rollup_wrapped_counterexample: false for a _parse_smaps_rollup carrying @wrap_exceptions; obligation cfg_good.rollupWrapped, decorator_facts pins the decorator table), C13_regex_line_anchored (_parse_smaps as written — three re.findall over the WHOLE text, modelled by a backtracking regex matcher compiled from the pattern texts — equals the line-anchored reading of its patterns on EVERY rendered file; C13_findall_is_line_anchored is the general criterion for any text, C13_regex_crosses_newline the proved witness where they differ off the kernel's format), C13_grouped_conservation (finite-map equality with field-wise sums, one row per distinct path), C13_percent, C13_meminfo_total, C13_percent_end_to_end (from the texts of statm, smaps and meminfo, every pfullmem field), C13_percent_last_read (every history of meminfo rewrites / virtual_memory() / memory_percent(): 100*field / the total psutil last read), C13_percent_cached_total, C13_percent_history, C13_percent_constant_total (MemTotal the same at every read: every answer is 100*field/(1024*MemTotal), and the last-read and current-total readings coincide), C13_bad_memtype_ValueError, C13_empty_smaps, plus proved counterexamples (file name ending in a blank for the code that strips the path; non-uniform key sets; the cache characterised beyond the property: after MemTotal changed the answer stays relative to the total last read — C13_percent_stale_total_counterexample, by design, not a defect). Histories over SEVERAL procfs trees (psutil.PROCFS_PATH re-pointed between the construction of an object and its calls; same pid present with another process, or absent, in the other trees): C13_figures_describe_the_bound_process (every answer is computed from statm, smaps and smaps_rollup of the ONE tree the object was created under, wherever PROCFS_PATH points at call time), C13_history_figures (… and equals the promised figures of that process's records), obligation bcfg_good (the root expression of every read site is self._procfs_path, captured once in __init__), C13_smaps_from_current_root_counterexample. Tied to the code by ~40 translator facts (incl. the three pattern texts compiled by the Lean regex model and the decorator table of the anchored methods) feeding the proof obligations cfg_good / pcfg_good / cfg_dict_once / decorator_facts and by a differential run of the real front-end methods over a fake procfs rendered by the Lean renderers, both roll-up variants, every method reached in 8 call modes (plain, fresh object, oneshot(), warm oneshot() with the world changed after the first read, as_dict(), process_iter()'s object, second call, call after the files held other content), plus a family of histories over 2-3 procfs trees (PROCFS_PATH assignments / constructions / oneshot() blocks / calls in 4 call modes).",
    "level_note": "Trusted: Lean kernel + {propext, Classical.choice, Quot.sound}; the translator; the correspondence harness; the kernel renderers (smaps, statm, meminfo validated against the live kernel each run, incl. the uniform-key-list hypothesis); Python's int/split/strip; Python's re modelled by a small backtracking matcher for the fragment the three patterns use (its agreement with sre is exercised by the correspondence, not proved); well-formed names are hypotheses; the property does not quantify over a MemTotal that changes between calls: with the module cache memory_percent is specified relative to the total last read (C13_percent_last_read); that this is not the current total after a change is documented as a characterisation, not a defect.",
    "technique": "Lean 4 round-trip and conservation proofs (induction over mapping lists, lines, regex backtracking and call histories) + translator-fed proof obligations + differential correspondence over rendered procfs content in several call modes",
    "design_ref": "DESIGN.md §5 C13",
}

PID = 4242
EXT_NAMES = ["addr", "perms", "path", "rss", "size", "pss", "shared_clean", "shared_dirty", "private_clean",
             "private_dirty", "referenced", "anonymous", "swap"]
PMEM_NAMES = ["rss", "vms", "shared", "text", "lib", "data", "dirty"]
PFULL_NAMES = PMEM_NAMES + ["uss", "pss", "swap"]

# kernel key lists (label, has-unit) by kernel generation
KEYS_6 = [("Size", 1), ("KernelPageSize", 1), ("MMUPageSize", 1), ("Rss", 1), ("Pss", 1), ("Pss_Dirty", 1),
          ("Shared_Clean", 1), ("Shared_Dirty", 1), ("Private_Clean", 1), ("Private_Dirty", 1), ("Referenced", 1),
          ("Anonymous", 1), ("KSM", 1), ("LazyFree", 1), ("AnonHugePages", 1), ("ShmemPmdMapped", 1),
          ("FilePmdMapped", 1), ("Shared_Hugetlb", 1), ("Private_Hugetlb", 1), ("Swap", 1), ("SwapPss", 1),
          ("Locked", 1), ("THPeligible", 0), ("ProtectionKey", 0)]
KEYS_3 = [("Size", 1), ("Rss", 1), ("Pss", 1), ("Shared_Clean", 1), ("Shared_Dirty", 1), ("Private_Clean", 1),
          ("Private_Dirty", 1), ("Referenced", 1), ("Anonymous", 1), ("AnonHugePages", 1), ("Swap", 1),
          ("KernelPageSize", 1), ("MMUPageSize", 1), ("Locked", 1)]
KEYS_26 = [("Size", 1), ("Rss", 1), ("Shared_Clean", 1), ("Shared_Dirty", 1), ("Private_Clean", 1), ("Private_Dirty", 1)]
KEYS_MIN = [("Rss", 1), ("Pss", 1), ("Private_Dirty", 1), ("Swap", 1)]
OPTIONAL = {"THPeligible", "ProtectionKey", "Private_Hugetlb", "Shared_Hugetlb", "KSM", "Pss_Dirty", "SwapPss", "LazyFree"}

ADV_PATHS = [b"/tmp/Pss: 7", b"/tmp/Pss: 7 kB", b"/a b (deleted)", b"[heap]", b"[stack]", b"[vdso]", b"/x:y", b"/x:",
             b"/tmp/Private_Dirty: 99 kB", b"/tmp/VmFlags: rd ex", b"/tmp/ x", b"/tmp/a  b", b"/Swap:", b"Rss:",
             b"Private_Clean: 5", b"/tmp/\xc3\xa9t\xc3\xa9", b"/tmp/\xff\xfe", b"/" + b"d" * 300, b"/tmp/x (deleted) y",
             b"/memfd:buf", b"anon_inode:[io_uring]", b"socket:[12345]", b"/dev/zero", b"/SYSV00000000",
             b"[anon:my name]", b"/tmp/a\tb", b"/tmp/7f00-7f10 r-xp", b"/tmp/12345678-9abcdef0", b"/tmp/x\\012y",
             b"/tmp/ (deleted)", b"/usr/lib/x86_64-linux-gnu/libc.so.6"]
TRAIL_PATHS = [b"/tmp/x ", b"/tmp/x\t", b"/tmp/a b  ", b"/tmp/x\x1f", b"/tmp/y \x0c",
               # non-ASCII Unicode spaces (NBSP, NEL, EM SPACE, IDEOGRAPHIC SPACE, LINE SEPARATOR) at the ends / inside: str.isspace()
               # is true of them, bytes.split() does not see them — the name must come back byte for byte
               b"/tmp/x\xc2\xa0", b"/tmp/x\xc2\x85", b"/tmp/x\xe2\x80\x83", b"/tmp/x\xe3\x80\x80", b"/tmp/x \xc2\xa0 ",
               b"/tmp/\xe2\x80\xa8x\xe2\x80\xa8", b"/tmp/x\xc2\xa0 (deleted)", b"/tmp/x\xa0", b"/tmp/x\x85"]
ROLLUP_NAMES = ["Rss", "Pss", "Pss_Dirty", "Pss_Anon", "Pss_File", "Pss_Shmem", "Shared_Clean", "Shared_Dirty", "Private_Clean",
                "Private_Dirty", "Referenced", "Anonymous", "KSM", "LazyFree", "AnonHugePages", "ShmemPmdMapped", "FilePmdMapped",
                "Shared_Hugetlb", "Private_Hugetlb", "Swap", "SwapPss", "Locked"]
COMMON_PATHS = [b"/usr/bin/python3.12", b"/usr/lib/libc.so.6", b"/usr/lib/libm.so.6", b"[heap]", b"[stack]"]
FLAGS = [b"rd", b"wr", b"ex", b"sh", b"mr", b"mw", b"me", b"ms", b"gd", b"pf", b"dw", b"lo", b"io", b"sr", b"rr",
         b"dc", b"de", b"ac", b"nr", b"ht", b"sf", b"ar", b"wf", b"dd", b"sd", b"mm", b"hg", b"nh", b"mg", b"um", b"uw"]
MEMTYPES_BAD = ["", "RSS", "foo", "rss ", "addr", "path", "private_dirty", "Rss",
                # near-misses of valid names, fields of OTHER named tuples (pmmap_*, svmem, pio, pcputimes), the tuple's own name
                " rss", "rss\n", "rss\x00", "uss.", "uss,pss", "r", "rs", "rsss", "USS", "Pss", "swap ", "dirty_", "_rss", "rss_",
                "size", "shared_clean", "referenced", "anonymous", "total", "available", "percent", "used", "free", "user", "system",
                "read_bytes", "pfullmem", "pmem", "memory_info", "vms\t", "\u0440ss", "r\u0455s"]
# attribute names of the namedtuple CLASS pfullmem that are not fields ('count', 'index', '_fields', '_asdict', '_make', '_replace',
# '__len__', '__class__', '__doc__', …): filled in at run time from dir(pfullmem) (Impl.__init__). A validation through
# hasattr(pfullmem, memtype) lets all of them through (seeded C13-4); the property promises ValueError for every unknown NAME.
CLASS_ATTRS = []
# arguments that are not str at all — outside the statement ("unknown field NAMES"), characterised: list membership is decided by
# `==`, so the code as it is answers ValueError (C13_nonstr_memtype_ValueError); hasattr() would raise TypeError
NONSTR = {"None": None, "3": 3, "3.5": 3.5, "True": True, "b'rss'": b"rss", "('rss',)": ("rss",), "['rss']": ["rss"], "{'rss'}": {"rss"},
          "0": 0, "bytearray(b'uss')": bytearray(b"uss"), "('rss', 'vms')": ("rss", "vms")}


def bad_memtypes():
    return MEMTYPES_BAD + CLASS_ATTRS

# call modes (goal: a method must answer the same whichever way it is reached)
MODES = ["plain", "fresh", "oneshot", "warm", "as_dict", "iter", "twice", "after_b"]
# "world B": what the files are overwritten with inside a warm oneshot() block, after the block-cached
# source has been read — a re-read would be visible in every figure
B_STATM = b"11 22 33 44 55 66 77\n"
B_SMAPS = (b"00001000-00002000 rw-p 00000000 00:00 0 \nSize:                555 kB\nRss:                 111 kB\n"
           b"Pss:                 222 kB\nPrivate_Clean:       333 kB\nPrivate_Dirty:         1 kB\nSwap:                444 kB\n")
MEMINFO_KEYS = ["MemAvailable", "Buffers", "Cached", "SwapCached", "Active", "Inactive", "Active(anon)", "Inactive(anon)",
                "Active(file)", "Inactive(file)", "SwapTotal", "SwapFree", "Dirty", "Shmem", "Slab", "SReclaimable",
                "SUnreclaim", "Hugepagesize", "DirectMap4k"]


# ------------------------------------------------------------------------------ generators

def gen_val(rng, style):
    if style == "small":
        return rng.randrange(0, 50)
    if style == "mid":
        return rng.randrange(0, 5_000_000)
    if style == "huge":
        return rng.choice([0, 1, 9_999_999, 10_000_000, 99_999_999, 2**31 - 1, 2**32, 4 * 2**30, 2**40, 2**53 + 1,
                           rng.randrange(2**44)])
    return rng.choice([0, 0, 4, 8, 12, rng.randrange(0, 3000), rng.randrange(0, 10**7)])


def gen_mapping(rng, keys, style, path, deleted, flags_on, lo):
    size = rng.randrange(1, 1 << rng.randrange(1, 30)) * 4096
    hi = lo + size
    kv = [[k.encode().hex(), gen_val(rng, style), bool(kb)] for k, kb in keys]
    for e, (k, kb) in zip(kv, keys):
        if not kb:
            e[1] = rng.randrange(0, 16)
    flags = None
    if flags_on:
        flags = [f.hex() for f in rng.sample(FLAGS, rng.randrange(1, 9))]
    big = rng.random() < 0.1
    return {"lo": lo, "hi": hi, "r": rng.random() < 0.9, "w": rng.random() < 0.4, "x": rng.random() < 0.3,
            "s": rng.random() < 0.15, "off": rng.choice([0, 4096, rng.randrange(0, 2**40) & ~4095]),
            "maj": rng.choice([0, 8, 253, 254, 259]) if not big else rng.randrange(0, 4096),
            "min": rng.choice([0, 1, 3, 17]) if not big else rng.randrange(0, 2**20),
            "ino": 0 if path is None else rng.choice([rng.randrange(1, 10**6), rng.randrange(1, 2**64)]),
            "path": None if path is None else path.hex(), "deleted": deleted, "kv": kv, "flags": flags}


def pick_keys(rng, family):
    base = rng.choice([KEYS_6, KEYS_6, KEYS_6, KEYS_3, KEYS_26, KEYS_MIN])
    if family == "optional":
        base = [k for k in KEYS_6 if k[0] not in OPTIONAL or rng.random() < 0.5]
    if family == "many":
        base = rng.choice([KEYS_MIN, KEYS_26])
    return list(base)


def gen_case(rng, family, has_rollup_default):
    """One process: mappings + statm + call parameters. Returns the driver line (op = case)."""
    keys = pick_keys(rng, family)
    style = rng.choice(["small", "mixed", "mixed", "mid", "huge"])
    flags_on = rng.random() < 0.8 if family != "optional" else rng.random() < 0.5
    n = {"empty": 0, "many": rng.randrange(20, 61), "single": 1}.get(family, rng.randrange(1, 9))
    probe = {}
    ms = []
    zero_idx = set(j for j in range(len(keys)) if rng.random() < 0.4)
    lo = rng.choice([0x400000, 0x55d0a3f7b000, 0x7f0000000000, 0x1000])
    pool = list(COMMON_PATHS)
    if family in ("adversarial", "deleted", "trailing"):
        pool = rng.sample(ADV_PATHS, min(len(ADV_PATHS), rng.randrange(2, 7)))
    if family == "repeat":
        pool = rng.sample(COMMON_PATHS + ADV_PATHS, rng.randrange(1, 4))
    for i in range(n):
        r = rng.random()
        path, deleted = None, False
        if family == "trailing" and (i == 0 or r < 0.3):
            path = rng.choice(TRAIL_PATHS)
        elif r < (0.3 if family != "repeat" else 0.2):
            path = None
        else:
            path = rng.choice(pool)
        if path is not None:
            shown = path
            if family == "deleted" or rng.random() < 0.1:
                deleted = rng.random() < 0.6
            if deleted:
                shown = path + b" (deleted)"
                st = rng.choices(["missing", "present", "denied"], [8, 1, 1])[0] if family == "deleted" else "missing"
                probe.setdefault(shown, st)
            elif path.endswith(b" (deleted)"):
                st = rng.choices(["present", "missing", "denied"], [6, 3, 1])[0] if family in ("deleted", "adversarial") else "present"
                probe.setdefault(shown, st)
        ks = keys
        if family == "nonuniform" and i > 0:
            ks = [k for k in keys if rng.random() < 0.7] or keys[:1]
        if family == "nonuniform_ok":
            # keys that are 0 in every mapping may be omitted at will (never stale); also: later mappings may ADD keys
            ks = [k for j, k in enumerate(keys) if j not in zero_idx or rng.random() < 0.5] or keys[:1]
        ms.append(gen_mapping(rng, ks, style, path, deleted, flags_on, lo))
        if family == "nonuniform_ok":
            names = [k for k, _ in keys]
            for e in ms[-1]["kv"]:
                if names.index(bytes.fromhex(e[0]).decode()) in zero_idx:
                    e[1] = 0
        lo = ms[-1]["hi"] + rng.choice([0, 0, 4096, 2**21, 2**30])
    # the stripped-name forms are what psutil asks the file system about
    for k in list(probe):
        if k.rstrip() != k:
            probe.setdefault(k.rstrip(), probe[k])
    has_rollup = has_rollup_default if rng.random() < 0.5 else (rng.random() < 0.5)
    if n == 0:
        mode = rng.choice(["esrch", "enoent", "esrch"])
    else:
        mode = rng.choices(["data", "enoent", "esrch"], [6, 2, 2])[0]
    pct = []
    for _ in range(3):
        mt = rng.choice(PFULL_NAMES) if rng.random() < 0.8 else rng.choice(bad_memtypes())
        r = rng.random()
        if r < 0.6:
            cached, vm = rng.choice([2**30, 16 * 2**30, 8_000_000_000, 2**53 + 1, 1, rng.randrange(1, 2**45)]), 0
        elif r < 0.9:
            cached, vm = rng.choice([None, 0]), rng.choice([2**30, 16 * 2**30, 1024, rng.randrange(1, 2**35) * 1024])
        elif r < 0.95:
            cached, vm = rng.choice([None, 0]), 0
        else:
            cached, vm = -rng.randrange(1, 10**6), 0
        pct.append({"memtype": mt, "cached": cached, "vmTotal": vm})
    statm = [gen_val(rng, rng.choice(["small", "mid", "huge", "mixed"])) for _ in range(7)]
    if rng.random() < 0.7:
        statm[4] = statm[6] = 0
    case = {"op": "case", "family": family, "ms": ms, "statm": statm,
            "pagesize": 0, "zombie": (rng.random() < 0.5) if n == 0 else (rng.random() < 0.05),
            "hasRollup": has_rollup, "rollup": mode,
            "probe": [[k.hex(), v] for k, v in sorted(probe.items())], "pct": pct}
    if family == "rollup_record" or (n and rng.random() < 0.1):
        case["rollupHow"], case["rollupKV"] = gen_rollup_kv(rng, ms)
        if family == "rollup_record":
            case["hasRollup"], case["rollup"] = (True, "data") if rng.random() < 0.8 else (has_rollup, mode)
    if rng.random() < 0.15:
        case["pctNonStr"] = rng.sample(sorted(NONSTR), rng.randrange(1, 4))
    case["modes"] = gen_modes(rng, case)
    if rng.random() < 0.35:
        case["hist"], case["histModes"] = gen_hist(rng)
    return case


def mode_ok(key, mode, memtype=None):
    """as_dict(attrs=[name]) calls the method without arguments: memory_maps() is grouped, memory_percent() is rss"""
    if mode != "as_dict":
        return True
    return key in ("info", "full", "grouped") or (key == "pct" and memtype == "rss")


def eff_mode(key, mode, memtype=None):
    mode = mode or "plain"
    return mode if mode_ok(key, mode, memtype) else "plain"


def pick_mode(rng, key, memtype=None):
    m = rng.choice(MODES)
    return m if mode_ok(key, m, memtype) else rng.choice(["plain", "oneshot", "warm"])


def gen_rollup_kv(rng, ms):
    """/proc/pid/smaps_rollup as a record of its own (C13_rollup_record): the kernel's own key list (Pss_Anon / Pss_File /
    Pss_Shmem are printed only there), `Pss` with the sub-kB excess the kernel accumulates (< 1 kB per mapping,
    C13_rollup_subkb_bound), values unrelated to the mappings, sparse key lists, unknown `Private_*` keys"""
    sums = {}
    for m in ms:
        for k, v, kb in m["kv"]:
            if kb:
                name = bytes.fromhex(k).decode()
                sums[name] = sums.get(name, 0) + v
    how = rng.choice(["subkb", "subkb", "independent", "sparse"])
    kv = []
    if how == "subkb":
        for name in ROLLUP_NAMES:
            v = sums.get(name, 0)
            if name == "Pss":
                v += rng.randrange(0, max(1, len(ms)))
            kv.append([name, v])
        pss = dict(kv)["Pss"]
        a = rng.randrange(0, pss + 1)
        f = rng.randrange(0, pss - a + 1)
        split = {"Pss_Anon": a, "Pss_File": f, "Pss_Shmem": pss - a - f}
        kv = [[n, split.get(n, v)] for n, v in kv]
    elif how == "independent":
        kv = [[name, gen_val(rng, rng.choice(["small", "mixed", "mid", "huge"]))] for name in ROLLUP_NAMES]
    else:
        names = [n for n in ROLLUP_NAMES if rng.random() < 0.5] + (["Private_Foo"] if rng.random() < 0.4 else [])
        rng.shuffle(names)
        kv = [[name, gen_val(rng, "mixed")] for name in names]
    return how, [[n.encode().hex(), v, True] for n, v in kv]


def gen_modes(rng, case):
    return {"info": pick_mode(rng, "info"), "full": pick_mode(rng, "full"), "maps": pick_mode(rng, "maps"),
            "grouped": pick_mode(rng, "grouped"), "pct": [pick_mode(rng, "pct", q["memtype"]) for q in case["pct"]],
            "warmups": rng.sample(["name", "ppid", "cpu_times", "status", "memory_info", "create_time"], rng.randrange(0, 4))}


def gen_meminfo(rng, total_kb=None):
    """records of one /proc/meminfo (MemTotal and MemFree first, as the kernel prints them)"""
    if total_kb is None:
        total_kb = rng.choice([0, 1, 4, 1024, 2**20, 16 * 2**20, 8_000_000, 2**43 + 1, rng.randrange(1, 2**36)])
    kv = [["MemTotal", total_kb, True], ["MemFree", rng.randrange(0, total_kb + 1), True]]
    for k in MEMINFO_KEYS:
        if rng.random() < 0.7:
            kv.append([k, rng.choice([0, rng.randrange(0, total_kb + 1), rng.randrange(0, 10**7)]), True])
    if rng.random() < 0.5:
        kv += [["HugePages_Total", rng.randrange(0, 99999), False], ["HugePages_Free", 0, False]]
    if rng.random() < 0.15:
        head, tail = kv[:2], kv[2:]
        rng.shuffle(tail)
        kv = tail[:len(tail) // 2] + head + tail[len(tail) // 2:]
    return [[k.encode().hex(), v, kb] for k, v, kb in kv]


def gen_hist(rng):
    """a history over psutil._TOTAL_PHYMEM: meminfo rewrites (the machine's total changes or not),
    virtual_memory() calls, memory_percent(t) calls in random call modes"""
    steps, modes = [{"op": "meminfo", "kv": gen_meminfo(rng)}], []
    changing = rng.random() < 0.5
    for _ in range(rng.randrange(2, 8)):
        r = rng.random()
        if r < 0.25:
            if changing:
                steps.append({"op": "meminfo", "kv": gen_meminfo(rng)})
            else:      # other lines change, the total does not
                steps.append({"op": "meminfo", "kv": gen_meminfo(rng, total_kb=steps[0]["kv"][0][1])})
        elif r < 0.32:
            bad = rng.choice([b"MemTotal:       16 kB\n\nMemFree: 1 kB\n", b"MemTotal: x kB\nMemFree: 1 kB\n", b"MemTotal:\nMemFree: 1 kB\n",
                              b"MemTotal: 5 kB\n", b"MemFree: 5 kB\n", b"", b"MemTotal: 7 kB\nMemFree: 1 kB\nMemTotal: 9 kB\n",
                              b"MemTotal: 7 kB\nMemFree: 1 kB"])
            steps.append({"op": "meminfoRaw", "data": bad.hex()})
        elif r < 0.5:
            steps.append({"op": "vm"})
        else:
            mt = rng.choice(PFULL_NAMES) if rng.random() < 0.85 else rng.choice(bad_memtypes())
            steps.append({"op": "pct", "memtype": mt})
    for st in steps:
        modes.append(pick_mode(rng, "pct", st.get("memtype")) if st["op"] == "pct" else None)
    return steps, modes


def mutate_raw(rng, smaps, statm, rollup):
    """Safe malformations of rendered content (only shapes the model claims to transcribe)."""
    what = rng.choice(["blank_line", "bare_key", "bare_flags", "nan_value", "short_header", "dup_line", "drop_line",
                       "statm_short", "statm_nan", "rollup_nan", "rollup_bare", "crlf_free_tail", "lead_ws",
                       "key_line_first", "rollup_extra_pss", "statm_long", "no_trailing_nl", "only_header",
                       "bare_key_before_header", "bare_key_before_header", "near_flags", "ws_kinds"])
    if what == "bare_key_before_header":
        # a key line WITHOUT a number right before a header (whose address starts with a decimal digit): the `\s+` of
        # the three regexes runs over the newline and captures the address digits (C13_regex_crosses_newline)
        smaps = b"\n".join(l for l in smaps.split(b"\n") if not l.startswith(b"VmFlags:"))
    lines = smaps.split(b"\n")
    body = [i for i, l in enumerate(lines) if l and l.split(None, 1)[0].endswith(b":")]
    heads = [i for i, l in enumerate(lines) if l and not l.split(None, 1)[0].endswith(b":")]
    if what == "blank_line" and len(lines) > 2:
        lines.insert(rng.randrange(1, len(lines) - 1), b"")
    elif what == "bare_key" and body:
        i = rng.choice(body)
        lines[i] = lines[i].split(b":")[0] + b":"
    elif what == "bare_flags" and body:
        lines.insert(rng.choice(body), b"VmFlags: ")
    elif what == "nan_value" and body:
        i = rng.choice(body)
        lines[i] = lines[i].split(b":")[0] + b":   " + rng.choice([b"x", b"kB", b"12a", b"0x10"]) + b" kB"
    elif what == "short_header" and heads:
        i = rng.choice(heads)
        lines[i] = b" ".join(lines[i].split()[:rng.randrange(1, 5)])
    elif what == "dup_line" and body:
        i = rng.choice(body)
        lines.insert(i, lines[i])
    elif what == "drop_line" and len(lines) > 2:
        del lines[rng.randrange(0, len(lines) - 1)]
    elif what == "statm_short":
        statm = b" ".join(statm.split()[:rng.randrange(0, 7)]) + b"\n"
    elif what == "statm_nan":
        t = statm.split()
        if t:
            t[rng.randrange(len(t))] = rng.choice([b"x", b"1.5", b"0x1"])
        statm = b" ".join(t) + b"\n"
    elif what == "statm_long":
        statm = statm.rstrip(b"\n") + b" 5 6 x\n77 88\n"
    elif what == "rollup_nan":
        rollup = rollup.replace(b" kB", b" x", 1).replace(b":  ", b": kB ", 1)
    elif what == "rollup_bare":
        rollup = rollup + rng.choice([b"Private_\n", b"Pss:\n", b"Swap:\n", b"Private_Foo: 7 kB\n", b"Pss:7\n"])
    elif what == "rollup_extra_pss":
        rollup = rollup + b"Pss:                   3 kB\nSwap:     9 kB\nPrivate_X:  11 kB\n"
    elif what == "crlf_free_tail":
        lines.append(b"   ")
    elif what == "lead_ws":
        lines.insert(0, b"  ")
    elif what == "key_line_first" and body:
        lines.insert(0, lines[rng.choice(body)])
    elif what == "only_header" and heads:
        lines = [lines[heads[0]]]
    elif what == "bare_key_before_header":
        cand = [i for i in body if i + 1 in heads and lines[i + 1][:1].isdigit()]
        if not cand and heads:       # a single mapping: append a second header
            lines = [l for l in lines if l] + [lines[heads[0]]]
            cand = [len(lines) - 2] if len(lines) >= 3 else []
        for i in (cand if rng.random() < 0.3 else cand[:1] or []):
            lines[i] = rng.choice([b"Pss:", b"Swap:", b"Private_Dirty:", b"Private_Clean:   ", b"Swap: \t", b"Pss:\r", b"Private_Hugetlb:\x0b\x0c"])
    elif what == "near_flags" and body:
        # tokens that merely contain / end with / start with `VmFlags:` (only a token that STARTS with it is skipped)
        lines.insert(rng.choice(body), rng.choice([b"XVmFlags: rd ex", b"VmFlags:x: rd", b"VmFlags: rd", b"xVmFlags: 12 kB", b"VmFlagsX: rd",
                                                   b"VmFlags:7: rd", b"_VmFlags: mr mw"]))
    elif what == "ws_kinds" and body:
        i = rng.choice(body)
        k, _, v = lines[i].partition(b":")
        lines[i] = k + b":" + rng.choice([b"\t", b"\x0b", b"\x0c\t ", b"\r", b" \r \t"]) + v.strip()
    out = b"\n".join(lines)
    if what == "no_trailing_nl":
        out = out.rstrip(b"\n")
    return what, out, statm, rollup



# ------------------------------------------------------------------------------ several procfs trees (family "rebind")
# psutil.PROCFS_PATH is re-pointed between the construction of a Process object and its calls: the world is a list of
# procfs trees ("roots": the host's /proc, a container's, another PID namespace …), each holding — or not — a process with
# the SAME pid; an object must keep describing the process of the tree it was created under (C13_figures_describe_the_bound_process)
BIND_FAMILIES = ["basic", "repeat", "single", "adversarial", "optional", "rollup_record", "deleted", "trailing", "empty", "basic"]
BIND_MODES = ["plain", "oneshot", "twice", "as_dict"]
BIND_METHODS = ["info", "full", "maps", "grouped", "pct"]
BIND_TOTALS = [2**30, 16 * 2**30, 1, 2**53 + 1, 8_000_000_000, -5, None, 0]


def _bind_root(c, has_rollup):
    """a generated single-process case reduced to what one procfs tree holds"""
    r = {k: c[k] for k in ("op", "ms", "statm", "pagesize", "zombie", "rollup", "probe") if k in c}
    r["hasRollup"] = has_rollup
    r["pct"] = []
    for k in ("rollupKV", "rollupHow"):
        if k in c:
            r[k] = c[k]
    return r


def bind_call(rng, k, method=None, mode=None):
    m = method or rng.choice(BIND_METHODS)
    st = {"op": "call", "k": k, "m": m}
    if m == "pct":
        st["memtype"] = rng.choice(PFULL_NAMES) if rng.random() < 0.85 else rng.choice(bad_memtypes())
        st["total"] = rng.choice(BIND_TOTALS)
    mode = mode or rng.choice(BIND_MODES)
    st["mode"] = mode if mode_ok(m, mode, st.get("memtype")) else rng.choice(["plain", "oneshot", "twice"])
    return st


def gen_bind_steps(rng, roots):
    present = [i for i, c in enumerate(roots) if c is not None]
    steps, objs, opened = [], [], set()
    cur = 0

    def point(r):
        nonlocal cur
        steps.append({"op": "point", "r": r})
        cur = r

    def new():
        steps.append({"op": "new"})
        if roots[cur] is not None:
            objs.append(cur)

    point(rng.choice(present))
    new()
    for _ in range(rng.randrange(3, 12)):
        r = rng.random()
        if r < 0.3:
            point(rng.randrange(len(roots)))
        elif r < 0.42:
            new()
        elif r < 0.52 and objs:
            k = rng.randrange(len(objs))
            if k in opened:
                opened.discard(k)
                steps.append({"op": "exit", "k": k})
            else:
                opened.add(k)
                steps.append({"op": "enter", "k": k})
        elif objs:
            steps.append(bind_call(rng, rng.randrange(len(objs))))
    # always: a call on an object while PROCFS_PATH points somewhere else than where the object was created
    k = rng.randrange(len(objs))
    others = [i for i in range(len(roots)) if i != objs[k]]
    point(rng.choice(others))
    for m in rng.sample(BIND_METHODS, rng.randrange(1, 4)):
        steps.append(bind_call(rng, k, m))
    for k in sorted(opened):
        steps.append({"op": "exit", "k": k})
    return steps


def gen_bind(rng, has_rollup_default):
    n = rng.choice([2, 2, 3])
    has = has_rollup_default if rng.random() < 0.5 else (rng.random() < 0.5)
    roots, probe = [], {}
    for i in range(n):
        if i > 0 and rng.random() < 0.2:
            roots.append(None)
            continue
        c = gen_case(rng, rng.choice(BIND_FAMILIES), has)
        for k, v in c["probe"]:
            probe.setdefault(k, v)
        roots.append(_bind_root(c, has))
    merged = [[k, v] for k, v in sorted(probe.items())]
    for c in roots:
        if c is not None:
            c["probe"] = merged
    return {"op": "bind", "family": "rebind", "roots": roots, "steps": gen_bind_steps(rng, roots), "hasRollup": has,
            "probe": merged, "pagesize": 0}


def bind_corpus(impl):
    """clause-directed histories: the object is created under tree 0 and asked while PROCFS_PATH points at tree 1, which holds
    ANOTHER process with the same pid (all five methods, every call mode), or no such pid at all; the per-mapping listing as
    the fall-back source (roll-up ENOENT / ESRCH / no roll-up support); a oneshot() block entered before the re-pointing"""
    cs = corpus(impl)
    a = _bind_root(cs[1], True)                       # three mappings, a repeated adversarial path
    b = _bind_root(cs[9], True)                       # one mapping, huge values
    b["statm"] = [5000, 1000, 250, 1024, 0, 99, 0]
    out = []
    for other in ("process", "absent"):
        for has in (True, False):
            for roll_a in ("data", "enoent", "esrch"):
                for block in (False, True):
                    ra, rb = json.loads(json.dumps(a)), json.loads(json.dumps(b))
                    ra["hasRollup"] = rb["hasRollup"] = has
                    ra["rollup"] = roll_a
                    roots = [ra, rb if other == "process" else None]
                    steps = [{"op": "point", "r": 0}, {"op": "new"}]
                    if block:
                        steps.append({"op": "enter", "k": 0})
                    steps.append({"op": "point", "r": 1})
                    for m in BIND_METHODS:
                        for mode in BIND_MODES:
                            for mt in (("rss", "pss") if m == "pct" else (None,)):
                                if not mode_ok(m, mode, mt):
                                    continue
                                st = {"op": "call", "k": 0, "m": m, "mode": mode}
                                if m == "pct":
                                    st.update({"memtype": mt, "total": 2**34})
                                steps.append(st)
                    steps += [{"op": "new"}, {"op": "call", "k": 1, "m": "maps", "mode": "plain"},
                              {"op": "point", "r": 0}, {"op": "call", "k": 1, "m": "full", "mode": "plain"},
                              {"op": "call", "k": 0, "m": "maps", "mode": "plain"}]
                    if block:
                        steps.append({"op": "exit", "k": 0})
                    out.append({"op": "bind", "family": "exhaustive-rebind", "roots": roots, "steps": steps, "hasRollup": has,
                                "probe": [], "pagesize": 0})
    return out


# ------------------------------------------------------------------------------ implementation side

def _stat_line(pid, state):
    rest = "1 {0} {0} 0 -1 4194304 0 0 0 0 0 0 0 0 20 0 1 0 100 0 0 18446744073709551615 " \
           "0 0 0 0 0 0 0 0 0 0 0 0 17 0 0 0 0 0 0 0 0 0 0 0 0 0 0".format(pid)
    return "%d (psv c13) %s %s\n" % (pid, state, rest)


MEMINFO = ("MemTotal: %d kB\nMemFree: 100 kB\nMemAvailable: 200 kB\nBuffers: 1 kB\nCached: 2 kB\nSwapCached: 0 kB\n"
           "Active: 3 kB\nInactive: 4 kB\nActive(anon): 1 kB\nInactive(anon): 1 kB\nActive(file): 1 kB\n"
           "Inactive(file): 1 kB\nSwapTotal: 0 kB\nSwapFree: 0 kB\nDirty: 0 kB\nShmem: 0 kB\nSlab: 5 kB\n"
           "SReclaimable: 1 kB\nSUnreclaim: 1 kB\n")


class Impl:
    def __init__(self, ctx):
        self.ps = ctx.psutil
        self.lx = self.ps._pslinux
        self.fp = fakeproc.FakeProc(self.ps, prefix="psv-c13-")
        self.flag0 = self.lx.HAS_PROC_SMAPS_ROLLUP
        self.has_smaps = self.lx.HAS_PROC_SMAPS
        self.pagesize = self.lx.PAGESIZE
        self.orig_exists = self.lx.path_exists_strict
        self.orig_open = self.lx.open_binary
        self.used_modes = []
        self.world_changes = 0
        CLASS_ATTRS[:] = sorted(a for a in dir(self.lx.pfullmem) if a not in self.lx.pfullmem._fields)
        self.fp.write("stat", "cpu  1 2 3 4 5 6 7 8 9 10\ncpu0 1 2 3 4 5 6 7 8 9 10\nbtime 1700000000\n")

    def close(self):
        self.lx.HAS_PROC_SMAPS_ROLLUP = self.flag0
        self.lx.path_exists_strict = self.orig_exists
        self.lx.open_binary = self.orig_open
        self.ps._TOTAL_PHYMEM = None
        self.fp.close()

    def run(self, case, files, real_fs=False, hist_files=None):
        """case: the driver line; files: dict of bytes; hist_files: per hist step the meminfo bytes (or None).
        Returns the canonical observables."""
        ps, lx, fp = self.ps, self.lx, self.fp
        fakeproc.reset_psutil_state(ps)
        pid = PID
        fp.write("%d/stat" % pid, _stat_line(pid, "Z" if case["zombie"] else "S"))
        fp.write("%d/statm" % pid, files["statm"])
        fp.write("%d/smaps" % pid, files["smaps"])
        if case["rollup"] == "enoent":
            fp.remove("%d/smaps_rollup" % pid)
        else:
            fp.write("%d/smaps_rollup" % pid, files["rollup"])
        table = {bytes.fromhex(k): v for k, v in case["probe"]}

        def exists(path):
            st = table.get(os.fsencode(path), "missing")
            if st == "denied":
                raise PermissionError(errno.EACCES, "Permission denied", path)
            return st == "present"

        def open_binary(fname, _o=self.orig_open):
            if case["rollup"] == "esrch" and fname.endswith("/smaps_rollup"):
                raise ProcessLookupError(errno.ESRCH, "No such process", fname)
            return _o(fname)

        lx.path_exists_strict = self.orig_exists if real_fs else exists
        lx.open_binary = open_binary
        lx.HAS_PROC_SMAPS_ROLLUP = bool(case["hasRollup"])
        out = {}
        modes = case.get("modes") or {}
        self.used_modes = []
        SENT = object()
        world_a = {"statm": files["statm"], "smaps": files["smaps"]}

        def from_iter():
            o = fakeproc.outcome(lambda: [q for q in ps.process_iter() if q.pid == pid])
            if o["kind"] != "ok":
                return None, o
            if len(o["value"]) != 1:
                return None, {"kind": "exc", "exc": "NotYieldedByProcessIter(%d)" % len(o["value"])}
            return o["value"][0], None

        def call(p, key, name, args, kwargs, mode, memtype=None):
            """one observable in one call mode; returns fakeproc.outcome-shaped dict"""
            if not mode_ok(key, mode, memtype):
                mode = "plain"
            self.used_modes.append(mode)
            if mode == "plain":
                return fakeproc.outcome(getattr(p, name), *args, **kwargs)
            if mode == "fresh":
                o = fakeproc.outcome(ps.Process, pid)
                if o["kind"] != "ok":
                    return o
                return fakeproc.outcome(getattr(o["value"], name), *args, **kwargs)
            if mode == "iter":
                q, err = from_iter()
                if q is None:
                    return err
                return fakeproc.outcome(getattr(q, name), *args, **kwargs)
            if mode == "twice":
                r1 = fakeproc.outcome(getattr(p, name), *args, **kwargs)
                r2 = fakeproc.outcome(getattr(p, name), *args, **kwargs)
                if _plain(r1) != _plain(r2):
                    return {"kind": "exc", "exc": "SecondCallDiffers", "first": repr(_plain(r1))[:300], "second": repr(_plain(r2))[:300]}
                return r2
            if mode == "after_b":
                # the same object answered once while the files held other content ("world B"); now the files are
                # back: outside oneshot() nothing may be remembered. Object: the shared one or process_iter()'s.
                use_iter = len(self.used_modes) % 2 == 0
                q = p
                if use_iter:
                    q, err = from_iter()
                    if q is None:
                        return err
                try:
                    fp.write("%d/statm" % pid, B_STATM)
                    fp.write("%d/smaps" % pid, B_SMAPS)
                    fakeproc.outcome(getattr(q, name), *args, **kwargs)
                finally:
                    fp.write("%d/statm" % pid, world_a["statm"])
                    fp.write("%d/smaps" % pid, world_a["smaps"])
                self.world_changes += 1
                if use_iter:
                    q2, err = from_iter()              # the object process_iter() kept in its cache
                    if q2 is None:
                        return err
                    if q2 is not q:
                        return {"kind": "exc", "exc": "ProcessIterDidNotReuseObject"}
                return fakeproc.outcome(getattr(q, name), *args, **kwargs)
            if mode == "as_dict":
                r = fakeproc.outcome(p.as_dict, attrs=[name], ad_value=SENT)
                if r["kind"] != "ok":
                    return r
                d = r["value"]
                if list(d) != [name]:
                    return {"kind": "exc", "exc": "AsDictKeys%r" % (sorted(d),)}
                if d[name] is SENT:
                    return {"kind": "exc", "exc": "ad_value"}
                return {"kind": "ok", "value": d[name]}
            if mode == "oneshot":
                def f():
                    with p.oneshot():
                        return getattr(p, name)(*args, **kwargs)
                return fakeproc.outcome(f)
            # warm: other methods first (stat / statm / smaps get block-cached), then the world changes for the
            # block-cached source of this method: the answer must still be that of the first read (C16)
            changed = []

            def f():
                with p.oneshot():
                    for w in modes.get("warmups", []):
                        fakeproc.outcome(getattr(p, w))
                    if key == "info" or (key == "pct" and memtype in PMEM_NAMES):
                        if fakeproc.outcome(p.memory_info)["kind"] == "ok":       # front-end memoised for the block
                            fp.write("%d/statm" % pid, B_STATM)
                            changed.append("statm")
                    elif key in ("maps", "grouped", "full", "pct"):
                        # _read_smaps_file is memoised for the block; statm / smaps_rollup are NOT (left alone)
                        if fakeproc.outcome(p.memory_maps, grouped=bool(len(modes.get("warmups", [])) % 2))["kind"] == "ok":
                            fp.write("%d/smaps" % pid, B_SMAPS)
                            changed.append("smaps")
                    return getattr(p, name)(*args, **kwargs)
            try:
                return fakeproc.outcome(f)
            finally:
                for k in changed:
                    fp.write("%d/%s" % (pid, k), world_a[k])
                if changed:
                    self.world_changes += 1

        try:
            o = fakeproc.outcome(ps.Process, pid)
            if o["kind"] != "ok":
                return {"ctor": _exc(o)}
            p = o["value"]
            out["info"] = _nums(call(p, "info", "memory_info", (), {}, modes.get("info", "plain")), PMEM_NAMES)
            out["full"] = _nums(call(p, "full", "memory_full_info", (), {}, modes.get("full", "plain")), PFULL_NAMES)
            out["maps"] = _rows(call(p, "maps", "memory_maps", (), {"grouped": False}, modes.get("maps", "plain")), EXT_NAMES, 3)
            gm = modes.get("grouped", "plain")
            out["grouped"] = _rows(call(p, "grouped", "memory_maps", (), {} if gm == "as_dict" else {"grouped": True}, gm),
                                   EXT_NAMES[2:], 1)
            pct = []
            pm = modes.get("pct") or []
            for i, q in enumerate(case["pct"]):
                ps._TOTAL_PHYMEM = q["cached"]
                fp.write("meminfo", MEMINFO % (q["vmTotal"] // 1024))
                m = pm[i] if i < len(pm) else "plain"
                m = m if mode_ok("pct", m, q["memtype"]) else "plain"
                r = call(p, "pct", "memory_percent", () if m == "as_dict" else (q["memtype"],), {}, m, q["memtype"])
                pct.append({"ok": r["value"]} if r["kind"] == "ok" else _exc(r))
            out["pct"] = pct
            if case.get("pctNonStr"):
                ps._TOTAL_PHYMEM = 2**30
                ns = []
                for tag in case["pctNonStr"]:
                    r = fakeproc.outcome(p.memory_percent, NONSTR[tag])
                    ns.append({"ok": repr(r["value"])[:80]} if r["kind"] == "ok" else _exc(r))
                out["pctNonStr"] = ns
            if case.get("hist"):
                out["hist"] = self.run_hist(case, hist_files or [], p, call)
        finally:
            ps._TOTAL_PHYMEM = None
            lx.path_exists_strict = self.orig_exists
            lx.open_binary = self.orig_open
            lx.HAS_PROC_SMAPS_ROLLUP = self.flag0
        return out

    def run_bind(self, case, drv_out):
        """several procfs trees, psutil.PROCFS_PATH re-pointed during the history. Returns one observable per step."""
        ps, lx = self.ps, self.lx
        fakeproc.reset_psutil_state(ps)
        pid = PID
        base = tempfile.mkdtemp(prefix="psv-c13-bind-")
        saved = ps.PROCFS_PATH
        roots, esrch = [], []
        for i, (c, ro) in enumerate(zip(case["roots"], drv_out["roots"])):
            d = os.path.join(base, "r%d" % i)
            os.makedirs(d)
            with open(os.path.join(d, "stat"), "w") as f:
                f.write("cpu  1 2 3 4 5 6 7 8 9 10\ncpu0 1 2 3 4 5 6 7 8 9 10\nbtime 1700000000\n")
            with open(os.path.join(d, "meminfo"), "w") as f:
                f.write(MEMINFO % 0)
            if c is not None:
                files = {k: bytes.fromhex(v) for k, v in ro["files"].items()}
                pd = os.path.join(d, str(pid))
                os.makedirs(pd)
                with open(os.path.join(pd, "stat"), "w") as f:
                    f.write(_stat_line(pid, "Z" if c["zombie"] else "S"))
                for name, key in (("statm", "statm"), ("smaps", "smaps")) + ((("smaps_rollup", "rollup"),) if c["rollup"] != "enoent" else ()):
                    with open(os.path.join(pd, name), "wb") as f:
                        f.write(files[key])
                if c["rollup"] == "esrch":
                    esrch.append(pd + "/")
            roots.append(d)
        esrch = tuple(esrch)
        table = {bytes.fromhex(k): v for k, v in case["probe"]}

        def exists(path):
            st = table.get(os.fsencode(path), "missing")
            if st == "denied":
                raise PermissionError(errno.EACCES, "Permission denied", path)
            return st == "present"

        def open_binary(fname, _o=self.orig_open):
            if esrch and fname.endswith("/smaps_rollup") and fname.startswith(esrch):
                raise ProcessLookupError(errno.ESRCH, "No such process", fname)
            return _o(fname)

        SENT = object()

        def call(p, st):
            m, mode = st["m"], st.get("mode") or "plain"
            name, args, kwargs = {"info": ("memory_info", (), {}), "full": ("memory_full_info", (), {}),
                                  "maps": ("memory_maps", (), {"grouped": False}), "grouped": ("memory_maps", (), {"grouped": True}),
                                  "pct": ("memory_percent", (st.get("memtype"),), {})}[m]
            if not mode_ok(m, mode, st.get("memtype")):
                mode = "plain"
            if m == "pct":
                ps._TOTAL_PHYMEM = st.get("total")
            self.used_modes.append("bind:" + mode)
            if mode == "oneshot":
                def f():
                    with p.oneshot():
                        return getattr(p, name)(*args, **kwargs)
                r = fakeproc.outcome(f)
            elif mode == "twice":
                r1 = fakeproc.outcome(getattr(p, name), *args, **kwargs)
                r = fakeproc.outcome(getattr(p, name), *args, **kwargs)
                if _plain(r1) != _plain(r):
                    r = {"kind": "exc", "exc": "SecondCallDiffers"}
            elif mode == "as_dict":
                r = fakeproc.outcome(p.as_dict, attrs=[name], ad_value=SENT)
                if r["kind"] == "ok":
                    d = r["value"]
                    if list(d) != [name]:
                        r = {"kind": "exc", "exc": "AsDictKeys%r" % (sorted(d),)}
                    elif d[name] is SENT:
                        r = {"kind": "exc", "exc": "ad_value"}
                    else:
                        r = {"kind": "ok", "value": d[name]}
            else:
                r = fakeproc.outcome(getattr(p, name), *args, **kwargs)
            if m in ("info", "full"):
                return _nums(r, PMEM_NAMES if m == "info" else PFULL_NAMES)
            if m == "maps":
                return _rows(r, EXT_NAMES, 3)
            if m == "grouped":
                return _rows(r, EXT_NAMES[2:], 1)
            return {"ok": r["value"]} if r["kind"] == "ok" else _exc(r)

        lx.path_exists_strict = exists
        lx.open_binary = open_binary
        lx.HAS_PROC_SMAPS_ROLLUP = bool(case["hasRollup"])
        self.used_modes = []
        objs, blocks, outs = [], {}, []
        try:
            ps.PROCFS_PATH = roots[0] if roots else saved
            for st in case["steps"]:
                op = st["op"]
                if op == "point":
                    ps.PROCFS_PATH = roots[st["r"]] if st["r"] < len(roots) else os.path.join(base, "no-such-root")
                    outs.append(None)
                elif op == "new":
                    r = fakeproc.outcome(ps.Process, pid)
                    if r["kind"] == "ok":
                        objs.append(r["value"])
                        outs.append({"ok": None})
                    else:
                        outs.append(_exc(r))
                elif op == "enter":
                    k = st["k"]
                    if k < len(objs) and k not in blocks:
                        cm = objs[k].oneshot()
                        if fakeproc.outcome(cm.__enter__)["kind"] == "ok":
                            blocks[k] = cm
                    outs.append(None)
                elif op == "exit":
                    cm = blocks.pop(st["k"], None)
                    if cm is not None:
                        fakeproc.outcome(cm.__exit__, None, None, None)
                    outs.append(None)
                else:
                    k = st["k"]
                    outs.append({"noObject": True} if k >= len(objs) else call(objs[k], st))
        finally:
            for cm in blocks.values():
                fakeproc.outcome(cm.__exit__, None, None, None)
            ps.PROCFS_PATH = saved
            ps._TOTAL_PHYMEM = None
            lx.path_exists_strict = self.orig_exists
            lx.open_binary = self.orig_open
            lx.HAS_PROC_SMAPS_ROLLUP = self.flag0
            shutil.rmtree(base, ignore_errors=True)
        return outs

    def run_hist(self, case, hist_files, p, call):
        """the module global psutil._TOTAL_PHYMEM over a history (starts empty)"""
        ps, fp = self.ps, self.fp
        ps._TOTAL_PHYMEM = None
        outs = []
        hm = case.get("histModes") or []
        for i, st in enumerate(case["hist"]):
            if st["op"] in ("meminfo", "meminfoRaw"):
                fp.write("meminfo", hist_files[i])
                outs.append(None)
            elif st["op"] == "vm":
                with warnings.catch_warnings():
                    warnings.simplefilter("ignore")
                    r = fakeproc.outcome(ps.virtual_memory)
                outs.append({"ok": int(r["value"].total)} if r["kind"] == "ok" else _exc(r))
            else:
                m = (hm[i] if i < len(hm) else None) or "plain"
                m = m if mode_ok("pct", m, st["memtype"]) else "plain"
                with warnings.catch_warnings():
                    warnings.simplefilter("ignore")
                    r = call(p, "pct", "memory_percent", () if m == "as_dict" else (st["memtype"],), {}, m, st["memtype"])
                outs.append({"ok": r["value"]} if r["kind"] == "ok" else _exc(r))
        return outs


def _plain(o):
    if o["kind"] != "ok":
        return ("exc", o["exc"])
    v = o["value"]
    if isinstance(v, list):
        return ("ok", [tuple(x) for x in v])
    return ("ok", tuple(v) if isinstance(v, tuple) else v)


def _exc(o):
    return {"exc": o["exc"]}


def _nums(o, names):
    if o["kind"] != "ok":
        return _exc(o)
    v = o["value"]
    if list(getattr(type(v), "_fields", ())) != names:
        return {"wrong-fields": list(getattr(type(v), "_fields", ()))}
    if not all(isinstance(x, int) and not isinstance(x, bool) for x in v):
        return {"wrong-types": [type(x).__name__ for x in v]}
    return {"ok": [int(x) for x in v]}


def _rows(o, names, nstr):
    if o["kind"] != "ok":
        return _exc(o)
    rows = []
    for t in o["value"]:
        if list(getattr(type(t), "_fields", ())) != names:
            return {"wrong-fields": list(getattr(type(t), "_fields", ()))}
        # never crash on a wrongly typed field (a number where the path should be, …): it is an observable
        if not all(isinstance(x, str) for x in t[:nstr]) or not all(isinstance(x, int) and not isinstance(x, bool) for x in t[nstr:]):
            return {"wrong-types": [type(x).__name__ for x in t]}
        rows.append([os.fsencode(x).hex() for x in t[:nstr]] + [[int(x) for x in t[nstr:]]])
    return {"ok": rows}


# ------------------------------------------------------------------------------ comparison

TOL = Fraction(1, 10**12)


def pct_equal(impl, ref):
    if ref is None:
        return True
    if "exc" in ref or "exc" in impl:
        return impl == ref
    if "ok" not in impl or "ok" not in ref:
        return False
    exact = Fraction(ref["ok"][0], ref["ok"][1])
    try:
        got = Fraction(impl["ok"])
    except (TypeError, ValueError, OverflowError):
        return False
    return abs(got - exact) <= TOL * max(1, abs(exact))


def canon_grouped(v):
    if v is None or "ok" not in v:
        return v
    return {"ok": sorted(v["ok"])}


AD_EXCS = ("AccessDenied", "ZombieProcess")


def _adnorm(im, ref, mode=None):
    """as_dict() must turn AccessDenied / ZombieProcess into ad_value (and nothing else): an implementation answer
    `ad_value` equals a reference that raises one of the two; under as_dict the exception itself does NOT."""
    if isinstance(ref, dict) and ref.get("exc") in AD_EXCS and isinstance(im, dict):
        if im.get("exc") == "ad_value":
            return ref
        if mode == "as_dict" and im.get("exc") in AD_EXCS:
            return {"exc": im["exc"] + " (propagated out of as_dict instead of ad_value)"}
    return im


def compare_case(res, inp, impl, drv_out, findings=()):
    """Record the first disagreement of a case; return its kind or None. Disagreements inside the region of a
    known finding are recorded with its id and do not count."""
    if "ctor" in impl:
        res.disagree("model", inp, impl, None, None, note="psutil.Process(pid) raised on the fake procfs")
        return "model"
    model = drv_out["model"]
    spec = drv_out.get("spec")
    modes = inp.get("modes") or {}
    for key in ("info", "full", "maps", "grouped"):
        mo = model[key]
        sp = spec.get(key) if spec else None
        mode = eff_mode(key, modes.get(key))
        md = " [mode %s]" % mode
        im = _adnorm(impl[key], sp if sp is not None else mo, mode)
        if key == "grouped":
            if sp is not None and canon_grouped(im) != canon_grouped(sp):
                res.disagree("spec", inp, {key: im}, {key: mo}, {key: sp}, note=key + ": implementation differs from the specification" + md)
                return "spec"
        elif sp is not None and im != sp:
            res.disagree("spec", inp, {key: im}, {key: mo}, {key: sp}, note=key + ": implementation differs from the specification" + md)
            return "spec"
        if im != mo:
            res.disagree("model", inp, {key: im}, {key: mo}, {key: sp}, note=key + ": implementation differs from the Lean model" + md)
            return "model"
    pm = modes.get("pct") or []
    for i, (im, mo) in enumerate(zip(impl["pct"], model["pct"])):
        sp = spec["pct"][i] if spec else None
        mode = eff_mode("pct", pm[i] if i < len(pm) else None, inp["pct"][i]["memtype"])
        md = " [mode %s]" % mode
        im = _adnorm(im, sp if sp is not None else mo, mode)
        if not pct_equal(im, sp):
            res.disagree("spec", inp, {"pct": im, "i": i}, {"pct": mo}, {"pct": sp},
                         note="memory_percent(%r): implementation differs from 100*field/total%s" % (inp["pct"][i]["memtype"], md))
            return "spec"
        if not pct_equal(im, mo):
            res.disagree("model", inp, {"pct": im, "i": i}, {"pct": mo}, {"pct": sp}, note="memory_percent: implementation differs from the Lean model" + md)
            return "model"
    # not-a-str arguments (characterisation, C13_nonstr_memtype_ValueError): ValueError, nothing else
    for tag, im in zip(inp.get("pctNonStr") or [], impl.get("pctNonStr") or []):
        if im != {"exc": "ValueError"}:
            res.disagree("model", inp, {"pctNonStr": im, "arg": tag}, {"pctNonStr": {"exc": "ValueError"}}, None,
                         note="memory_percent(%s): a non-str argument is not rejected with ValueError (characterised behaviour of "
                              "`memtype not in list(pfullmem._fields)`)" % tag)
            return "model"
    return compare_hist(res, inp, impl, drv_out, findings)


def _hist_equal(st, im, ref, mode=None):
    if ref is None:
        return True
    if st["op"] == "pct":
        return pct_equal(_adnorm(im, ref, mode), ref)
    return im == ref


def compare_hist(res, inp, impl, drv_out, findings=()):
    """history over _TOTAL_PHYMEM: spec = 100*field / the total psutil LAST READ (latest virtual_memory(), or the
    first memory_percent() when none was made), computed by the driver from the records (C13_percent_last_read)"""
    if not inp.get("hist"):
        return None
    hm = inp.get("histModes") or []
    for i, (st, im, d) in enumerate(zip(inp["hist"], impl.get("hist") or [], drv_out.get("hist") or [])):
        if st["op"] in ("meminfo", "meminfoRaw"):
            continue
        mo, sp = d["model"], d["spec"]
        mode = eff_mode("pct", hm[i] if i < len(hm) else None, st.get("memtype"))
        md = " [mode %s]" % mode
        what = "virtual_memory().total" if st["op"] == "vm" else "memory_percent(%r)" % st["memtype"]
        if not _hist_equal(st, im, sp, mode):
            res.disagree("spec", inp, {"hist": im, "i": i}, {"hist": mo}, {"hist": sp},
                         note="history step %d, %s: implementation differs from 100*field/(the total physical memory last read)%s" % (i, what, md))
            return "spec"
        if not _hist_equal(st, im, mo, mode):
            res.disagree("model", inp, {"hist": im, "i": i}, {"hist": mo}, {"hist": sp},
                         note="history step %d, %s: implementation differs from the Lean model%s" % (i, what, md))
            return "model"
    return None


def compare_bind(res, inp, impl_outs, drv_out):
    """family rebind: every answer of an object must be the promised answer for the process of the tree the object was
    CREATED under (spec), and what the Lean model of the read sites says (model)"""
    for i, (st, im, d) in enumerate(zip(inp["steps"], impl_outs, drv_out["steps"])):
        if st["op"] not in ("call", "new"):
            continue
        mo, sp = d["model"], d["spec"]
        what = "Process(pid)" if st["op"] == "new" else "%s%s on object %d [mode %s]" % (
            st["m"], "(%r)" % st.get("memtype") if st["m"] == "pct" else "", st["k"], st.get("mode") or "plain")
        mode = st.get("mode")
        for kind, ref in (("spec", sp), ("model", mo)):
            if ref is None:
                continue
            got = _adnorm(im, ref, mode) if st["op"] == "call" else im
            if isinstance(ref, dict) and "noObject" in ref or isinstance(got, dict) and "noObject" in got:
                same = got == ref
            elif st["op"] == "call" and st["m"] == "pct":
                same = pct_equal(got, ref)
            elif st["op"] == "call" and st["m"] == "grouped" and kind == "spec":
                same = canon_grouped(got) == canon_grouped(ref)
            else:
                same = got == ref
            if not same:
                res.disagree(kind, inp, {"step": i, "answer": got}, {"step": i, "answer": mo}, {"step": i, "answer": sp},
                             note="history step %d, %s: implementation differs from %s" % (
                                 i, what, "the figures promised for the process of the procfs tree the object was created under"
                                 if kind == "spec" else "the Lean model of the read sites"))
                return kind
    return None


def bind_stats(c):
    """(calls made while PROCFS_PATH is not the root the object was created under, … of those towards a tree without the pid,
    blocks that span a re-pointing)"""
    cur, objs, away, absent, span, opened = 0, [], 0, 0, 0, {}
    for st in c["steps"]:
        if st["op"] == "point":
            if st["r"] != cur and opened:
                span += len(opened)
                opened = {k: True for k in opened}
            cur = st["r"]
        elif st["op"] == "new":
            if cur < len(c["roots"]) and c["roots"][cur] is not None:
                objs.append(cur)
        elif st["op"] == "enter":
            opened[st["k"]] = False
        elif st["op"] == "exit":
            opened.pop(st["k"], None)
        elif st["op"] == "call" and st["k"] < len(objs) and objs[st["k"]] != cur:
            away += 1
            if cur >= len(c["roots"]) or c["roots"][cur] is None:
                absent += 1
    return away, absent, span


def run_bind_cases(ctx, impl, cases, res, tag_stats=True):
    if not cases:
        return 0
    for c in cases:
        c["pagesize"] = impl.pagesize
        for r in c["roots"]:
            if r is not None:
                r["pagesize"] = impl.pagesize
    outs = ctx.driver().batch([strip_case(c) for c in cases])
    for c, o in zip(cases, outs):
        if "bad" in o:
            raise InfraError("driver rejected a bind case: %s" % o)
        im = impl.run_bind(c, o)
        kind = compare_bind(res, c, im, o)
        if tag_stats:
            res.count("family:" + c.get("family", "rebind"))
            res.count("bind:roots:%d" % len(c["roots"]))
            if any(r is None for r in c["roots"]):
                res.count("bind:a-tree-without-the-pid")
            away, absent, span = bind_stats(c)
            res.count("bind:calls-while-PROCFS_PATH-points-elsewhere", away)
            res.count("bind:calls-while-PROCFS_PATH-points-at-a-tree-without-the-pid", absent)
            res.count("bind:oneshot-blocks-spanning-a-re-pointing", span)
            for st, v in zip(c["steps"], im):
                if st["op"] == "call":
                    res.count("bind:method:" + st["m"])
                    if isinstance(v, dict) and "exc" in v:
                        res.count("bind:exc:%s:%s" % (st["m"], v["exc"]))
                elif st["op"] == "new":
                    res.count("bind:new:" + ("ok" if v == {"ok": None} else v.get("exc", "?")))
            for m in impl.used_modes:
                res.count("mode:" + m)
            res.case(_key(c), nontrivial=away > 0, sample=None)
    return len(cases)


def strip_case(c):
    return {k: v for k, v in c.items() if k not in ("family", "rollupHow", "pctNonStr")}


def run_cases(ctx, impl, cases, res, tag_stats=True):
    """cases: driver lines (op case / raw). Returns number of driver lines."""
    if not cases:
        return 0
    for c in cases:
        c["pagesize"] = impl.pagesize
    outs = ctx.driver().batch([strip_case(c) for c in cases])
    for c, o in zip(cases, outs):
        if "bad" in o:
            raise InfraError("driver rejected a case: %s" % o)
        if c["op"] == "case":
            files = {k: bytes.fromhex(v) for k, v in o["files"].items()}
        else:
            files = {"smaps": bytes.fromhex(c["smaps"]), "statm": bytes.fromhex(c["statm"]),
                     "rollup": bytes.fromhex(c["rollupData"])}
        im = impl.run(c, files, real_fs=c.get("realfs", False), hist_files=_hist_files(o))
        kind = compare_case(res, c, im, o, ctx.findings)
        if tag_stats:
            record(res, c, o, im, kind)
            for m in impl.used_modes:
                res.count("mode:" + m)
    return len(cases)


def _hist_files(o):
    return [bytes.fromhex(d["file"]) if d.get("op") == "meminfo" else None for d in (o.get("hist") or [])]


def record(res, c, o, im, kind):
    fam = c.get("family", c["op"])
    res.count("family:" + fam)
    res.count("rollup:%s/%s" % ("on" if c["hasRollup"] else "off", c["rollup"]))
    if c["op"] == "case":
        n = len(c["ms"])
        res.count("mappings:" + ("0" if n == 0 else "1" if n == 1 else "2-8" if n <= 8 else "9+"))
        res.count("wf:%s" % o.get("wf"))
        paths = [m["path"] for m in c["ms"]]
        if len(set(paths)) < len(paths):
            res.count("feature:repeated_path")
        if any(p is None for p in paths):
            res.count("feature:anonymous")
        if any(m["deleted"] for m in c["ms"]):
            res.count("feature:deleted")
        if any(m["flags"] is None for m in c["ms"]):
            res.count("feature:no_vmflags")
        if any(e[1] >= 10**7 for m in c["ms"] for e in m["kv"]):
            res.count("feature:value>=1e7kB")
        if n:
            res.count("keys:" + ("uniform" if o.get("uniform") else "nonuniform-never-stale" if o.get("nostale") else "nonuniform-stale"))
    rd = o.get("readings")
    if rd:
        res.count("regex:findall-%s-line-anchored-reading" % ("equals" if rd["regex"] == {"ok": rd["lines"]} else "DIFFERS-from"))
    if c.get("rollupKV") is not None:
        res.count("rollup-record:%s%s" % (c.get("rollupHow", "given"), "" if o.get("rollupRec") else " (not the source)"))
    for st, d, v in zip(c.get("hist") or [], o.get("hist") or [], im.get("hist") or []):
        res.count("hist:" + st["op"])
        if st["op"] == "pct":
            res.count("hist:pct:" + ("exc:" + v["exc"] if v and "exc" in v else "ok"))
            if d.get("stale"):
                res.count("hist:pct:last-read-total-is-not-the-current-one")
        if st["op"] in ("pct", "vm") and d.get("spec") is None:
            res.count("hist:outside-spec-domain")
    for k in ("info", "full", "maps", "grouped"):
        v = im.get(k, {})
        if "exc" in v:
            res.count("exc:%s:%s" % (k, v["exc"]))
    for v in im.get("pct", []):
        res.count("pct:" + ("exc:" + v["exc"] if "exc" in v else "ok"))
    for q in c.get("pct", []):
        if q["memtype"] in CLASS_ATTRS:
            res.count("memtype:attribute-of-the-namedtuple-class-not-a-field")
    for v in im.get("pctNonStr", []):
        res.count("memtype:non-str:" + ("exc:" + v["exc"] if "exc" in v else "ok"))
    trivial = c["op"] == "case" and len(c["ms"]) == 0 and all("exc" not in im.get(k, {}) for k in ("maps",))
    res.case(_key(c), nontrivial=not trivial,
             sample={"family": fam, "mappings": len(c.get("ms", [])), "impl_full": im.get("full"),
                     "impl_maps_head": (im.get("maps", {}).get("ok") or [None])[0]} if res.evaluations in (0, 3, 11, 40) else None)


def _key(c):
    return hashlib.sha1(json.dumps(strip_case(c), sort_keys=True).encode()).hexdigest()


FAMILIES = ["basic", "rollup_record", "repeat", "adversarial", "optional", "deleted", "single", "empty", "nonuniform",
            "trailing", "adversarial", "repeat", "nonuniform_ok", "basic", "rollup_record", "trailing"]


def corpus(impl):
    """clause-directed seeds: the leads and the corner cases named in the property."""
    def m(path, deleted=False, kv=None, flags=("rd", "mr"), lo=0x400000):
        kv = kv or [("Size", 8), ("Rss", 8), ("Pss", 4), ("Shared_Clean", 0), ("Shared_Dirty", 0), ("Private_Clean", 3),
                    ("Private_Dirty", 5), ("Referenced", 8), ("Anonymous", 5), ("Private_Hugetlb", 2), ("Swap", 7)]
        return {"lo": lo, "hi": lo + 4096, "r": True, "w": False, "x": True, "s": False, "off": 0, "maj": 254, "min": 0,
                "ino": 1 if path else 0, "path": path.hex() if path is not None else None, "deleted": deleted,
                "kv": [[k.encode().hex(), v, True] for k, v in kv],
                "flags": None if flags is None else [f.encode().hex() for f in flags]}

    def case(ms, probe=(), zombie=False, mode="data", has=True, fam="corpus"):
        return {"op": "case", "family": fam, "ms": ms, "statm": [660, 351, 325, 5, 0, 123, 0], "pagesize": 0,
                "zombie": zombie, "hasRollup": has, "rollup": mode, "probe": [[k.hex(), v] for k, v in probe],
                "pct": [{"memtype": "rss", "cached": 2**30, "vmTotal": 0}, {"memtype": "uss", "cached": None, "vmTotal": 2**30},
                        {"memtype": "bogus", "cached": 2**30, "vmTotal": 0}]}
    out = [
        case([m(b"/tmp/x "), m(None, lo=0x500000)]),                                  # name ending in a blank
        case([m(b"/tmp/Pss: 7"), m(b"/tmp/Pss: 7", lo=0x500000), m(None, lo=0x600000)]),
        case([m(b"/a b", deleted=True)], probe=[(b"/a b (deleted)", "missing")]),
        case([m(b"/a b (deleted)")], probe=[(b"/a b (deleted)", "present")]),
        case([m(b"/a b (deleted)")], probe=[(b"/a b (deleted)", "denied")]),
        case([], zombie=False, mode="esrch"), case([], zombie=True, mode="esrch"), case([], zombie=True, mode="enoent", has=False),
        case([m(b"/x", kv=[("Rss", 5), ("Pss", 1)]), m(b"/y", kv=[("Pss", 2)], lo=0x500000)], fam="nonuniform"),
        case([m(b"/x", kv=[("Rss", 1), ("Private_Hugetlb", 99_999_999), ("Pss", 2**40)])]),
        case([m(b"/x", flags=None), m(b"/x", flags=None, lo=0x500000)], mode="enoent"),
        case([m(b"/x")], mode="esrch"), case([m(b"/x")], has=False),
        # a key that is 0 may be omitted by later mappings (never stale); later mappings may add keys
        case([m(b"/x", kv=[("Rss", 0), ("Pss", 1)]), m(b"/y", kv=[("Pss", 2), ("Swap", 3)], lo=0x500000),
              m(b"/z", kv=[("Rss", 9), ("Swap", 0)], lo=0x600000), m(None, kv=[("Rss", 0)], lo=0x700000)], fam="nonuniform_ok"),
    ]
    # one-key files: every `data.get(key, 0)` default of the row is exercised (each key absent from the whole file)
    out.append(case([m(b"/only-swap", kv=[("Swap", 3)]), m(None, kv=[("Swap", 0)], lo=0x500000)]))
    out.append(case([m(b"/only-rss", kv=[("Rss", 5)], flags=None)], mode="enoent"))
    def rk(*kv):
        return [[k.encode().hex(), v, True] for k, v in kv]
    # the roll-up as a record of its own: Pss above the per-mapping sum (sub-kB excess), keys only the roll-up has, an unknown
    # Private_* key, no Pss / Swap line at all, the record present but not the source (ENOENT / no roll-up support)
    two = [m(b"/x"), m(None, lo=0x500000)]
    for extra in ({"rollupKV": rk(("Rss", 16), ("Pss", 9), ("Pss_Anon", 5), ("Pss_File", 4), ("Pss_Shmem", 0), ("Private_Clean", 6),
                                  ("Private_Dirty", 10), ("Private_Hugetlb", 4), ("Swap", 14), ("SwapPss", 14))},
                  {"rollupKV": rk(("Private_Foo", 7), ("Pss_Anon", 3), ("SwapPss", 1))},
                  {"rollupKV": rk(("Swap", 2**40), ("Pss", 0), ("Private_Dirty", 99_999_999))},
                  {"rollupKV": rk(("Pss", 123)), "rollup": "enoent"}, {"rollupKV": rk(("Pss", 123)), "hasRollup": False},
                  {"rollupKV": []}):
        c = case(json.loads(json.dumps(two)), fam="rollup_record")
        c.update(extra)
        c["rollupHow"] = "corpus"
        out.append(c)
    out.append(stale_witness())
    h = stale_witness()
    h["hist"] = h["hist"][:2] + [{"op": "meminfo", "kv": mi(4)}, {"op": "pct", "memtype": "uss"}, {"op": "vm"},
                                 {"op": "meminfoRaw", "data": b"MemFree: 1 kB\n".hex()}, {"op": "pct", "memtype": "pss"},
                                 {"op": "vm"}, {"op": "meminfo", "kv": mi(0)}, {"op": "vm"}, {"op": "pct", "memtype": "rss"},
                                 {"op": "pct", "memtype": "nope"}]
    h["histModes"] = [None] * len(h["hist"])
    out.append(h)
    return out


def mi(total_kb, free_kb=1):
    return [[b"MemTotal".hex(), total_kb, True], [b"MemFree".hex(), free_kb, True], [b"MemAvailable".hex(), free_kb, True]]


def stale_witness():
    """memory_percent(); the machine's total doubles; memory_percent() again: the second answer is still relative to the
    total read by the first call (the cache, C13_percent_last_read) — a model-correspondence case"""
    one = {"lo": 0x400000, "hi": 0x401000, "r": True, "w": False, "x": True, "s": False, "off": 0, "maj": 254, "min": 0, "ino": 1,
           "path": b"/x".hex(), "deleted": False, "kv": [[k.encode().hex(), v, True] for k, v in (("Rss", 8), ("Pss", 4), ("Private_Dirty", 5), ("Swap", 7))],
           "flags": None}
    return {"op": "case", "family": "hist", "ms": [one], "statm": [660, 351, 325, 5, 0, 123, 0], "pagesize": 0, "zombie": False,
            "hasRollup": True, "rollup": "data", "probe": [], "pct": [],
            "hist": [{"op": "meminfo", "kv": mi(4 * 2**20)}, {"op": "pct", "memtype": "rss"}, {"op": "meminfo", "kv": mi(8 * 2**20)},
                     {"op": "pct", "memtype": "rss"}],
            "histModes": [None, "plain", None, "plain"]}


def exhaustive_cases(impl):
    """finite sub-domains, enumerated completely: every memtype (10 valid + 8 invalid) x 6 total-memory
    configurations; all 16 permission strings; hasRollup x roll-up mode x zombie on a one-mapping and an empty process."""
    base = corpus(impl)[1]
    out = []
    totals = [(2**30, 0), (None, 2**30), (0, 2**30), (None, 0), (-5, 0), (2**53 + 1, 0)]
    # EVERY attribute name of the namedtuple class that is not a field, every near-miss / foreign field name, every non-str
    # argument: two total-memory configurations (cached / read from meminfo)
    for cached, vm in ((2**30, 0), (None, 2**30)):
        c = json.loads(json.dumps(base))
        c["family"] = "exhaustive-bad-memtypes"
        c["pct"] = [{"memtype": n, "cached": cached, "vmTotal": vm} for n in bad_memtypes()]
        c["pctNonStr"] = sorted(NONSTR)
        out.append(c)
    names = PFULL_NAMES + MEMTYPES_BAD[:8]
    for i in range(0, len(names), 3):
        for cached, vm in totals:
            c = json.loads(json.dumps(base))
            c["family"] = "exhaustive"
            c["pct"] = [{"memtype": n, "cached": cached, "vmTotal": vm} for n in names[i:i + 3]]
            out.append(c)
    for bits in range(16):
        c = json.loads(json.dumps(base))
        c["family"] = "exhaustive"
        c["ms"] = c["ms"][:1]
        c["ms"][0].update({"r": bool(bits & 1), "w": bool(bits & 2), "x": bool(bits & 4), "s": bool(bits & 8)})
        out.append(c)
    for has in (True, False):
        for mode in ("data", "enoent", "esrch"):
            for z in (False, True):
                for empty in (False, True):
                    c = json.loads(json.dumps(base))
                    c["family"] = "exhaustive"
                    c.update({"hasRollup": has, "rollup": mode, "zombie": z})
                    if empty:
                        c["ms"] = []
                    out.append(c)
    # every call mode x every observable (all ten memtypes + an unknown one), on three processes; and every
    # mode on a memory_percent() call that follows a change of the total
    for mode in MODES:
        for variant in ("data", "enoent-fallback", "empty-zombie"):
            c = json.loads(json.dumps(base))
            c["family"] = "exhaustive-modes"
            if variant == "enoent-fallback":
                c["rollup"] = "enoent"
            if variant == "empty-zombie":
                c.update({"ms": [], "zombie": True, "rollup": "esrch"})
            names = PFULL_NAMES + ["bogus"]
            c["pct"] = [{"memtype": n, "cached": None, "vmTotal": 2**30} for n in names]
            c["modes"] = {"info": mode, "full": mode, "maps": mode, "grouped": mode, "pct": [mode] * len(names),
                          "warmups": ["name", "memory_info", "cpu_times"]}
            c["hist"] = [{"op": "meminfo", "kv": mi(2**20)}, {"op": "pct", "memtype": "rss"}, {"op": "pct", "memtype": "uss"},
                         {"op": "meminfo", "kv": mi(2**21)}, {"op": "pct", "memtype": "rss"}, {"op": "vm"}, {"op": "pct", "memtype": "swap"}]
            c["histModes"] = [None, mode, mode, None, mode, None, mode]
            out.append(c)
    return out


BARE_SWAP = (b"1-2 r 0 0:0 0 \nSwap:\n00400000-00401000 r 0 0:0 0 \nPss: 1 kB\n")     # Props/C13.lean `bareSwap`


def raw_corpus(impl):
    """fixed malformed files: the witness of C13_regex_crosses_newline and its relatives"""
    out = []
    for name, smaps in (("bare_swap_witness", BARE_SWAP),
                        ("bare_private", b"1-2 r 0 0:0 0 \nPrivate_Dirty:\n  \n77 kB\nPrivate_Clean: 1 kB\n"),
                        ("bare_pss_last", b"1-2 r 0 0:0 0 \nPss:\n"),
                        ("pss_then_digits_line", b"1-2 r 0 0:0 0 \nPss: \n\nPss: 7 kB\nPss:9\n"),
                        ("private_two_colons", b"1-2 r 0 0:0 0 \nPrivate_x: 1: 2: a\nPrivate:\n 33\nPrivate_y:  4 kB\n"),
                        ("xvmflags", b"1-2 r 0 0:0 0 \nRss: 4 kB\nXVmFlags: rd ex\n"),
                        ("vmflags_suffix", b"1-2 r 0 0:0 0 \nRss: 4 kB\nVmFlags:x: rd ex\nPss: 3 kB\n")):
        out.append({"op": "raw", "family": "raw:corpus:" + name, "smaps": smaps.hex(), "statm": b"3 2 1 0 0 0 0\n".hex(),
                    "rollupData": b"".hex(), "pagesize": impl.pagesize, "zombie": False, "hasRollup": name != "bare_pss_last",
                    "rollup": "enoent", "probe": [], "pct": [{"memtype": "swap", "cached": None, "vmTotal": 2**30}],
                    "modes": {"info": "plain", "full": "plain", "maps": "plain", "grouped": "plain", "pct": ["plain"], "warmups": []}})
    return out


def raw_cases(ctx, impl, n):
    """malformed content: render well-formed processes first, then mutate the bytes."""
    rng = ctx.rng
    seeds = [gen_case(rng, rng.choice(["basic", "single", "optional"]), impl.flag0) for _ in range(n)]
    for c in seeds:
        c["pagesize"] = impl.pagesize
    outs = ctx.driver().batch([strip_case(c) for c in seeds])
    raws = []
    for c, o in zip(seeds, outs):
        f = {k: bytes.fromhex(v) for k, v in o["files"].items()}
        what, smaps, statm, rollup = mutate_raw(rng, f["smaps"], f["statm"], f["rollup"])
        raws.append({"op": "raw", "family": "raw:" + what, "smaps": smaps.hex(), "statm": statm.hex(), "rollupData": rollup.hex(),
                     "pagesize": impl.pagesize, "zombie": c["zombie"], "hasRollup": c["hasRollup"],
                     "rollup": c["rollup"] if c["rollup"] != "data" or rollup else "data", "probe": c["probe"], "pct": c["pct"][:1],
                     "modes": dict(c["modes"], pct=c["modes"]["pct"][:1])})
    return raws, len(seeds)


def realfs_cases(ctx, impl, n):
    """a few cases that use the real path_exists_strict on real files"""
    rng = ctx.rng
    root = tempfile.mkdtemp(prefix="psv-c13-fs-")
    cases = []
    for i in range(n):
        c = gen_case(rng, "single", impl.flag0)
        c["family"] = "realfs"
        c["realfs"] = True
        c["probe"] = []
        for j, m in enumerate(c["ms"]):
            name = os.path.join(root, "f%d_%d" % (i, j)).encode()
            kind = rng.choice(["deleted", "literal-present", "literal-missing", "plain"])
            if kind == "deleted":
                m["path"], m["deleted"] = name.hex(), True
                c["probe"].append([(name + b" (deleted)").hex(), "missing"])
            elif kind == "literal-present":
                nm = name + b" (deleted)"
                open(nm, "wb").close()
                m["path"], m["deleted"] = nm.hex(), False
                c["probe"].append([nm.hex(), "present"])
            elif kind == "literal-missing":
                nm = name + b" (deleted)"
                m["path"], m["deleted"] = nm.hex(), False
                c["probe"].append([nm.hex(), "missing"])
            else:
                m["path"], m["deleted"] = name.hex(), False
            m["ino"] = 5
        cases.append(c)
    return cases, root


# ------------------------------------------------------------------------------ renderer validation (supporting)

def validate_renderers(ctx, res):
    """Re-render this process's own smaps / statm with the Lean renderers and require byte equality."""
    try:
        with open("/proc/self/smaps", "rb") as f:
            real = f.read()
        with open("/proc/self/statm", "rb") as f:
            statm = f.read()
    except OSError as e:
        res.notes.append("renderer validation skipped: %s" % e)
        return
    ms = []
    cur = None
    for line in real.split(b"\n"):
        if not line:
            continue
        first = line.split(None, 1)[0]
        if not first.endswith(b":"):
            t = line.split(None, 5)
            lo, hi = (int(x, 16) for x in t[0].split(b"-"))
            maj, mi = (int(x, 16) for x in t[3].split(b":"))
            path = t[5] if len(t) == 6 else None
            deleted = False
            if path is not None and path.endswith(b" (deleted)"):
                path, deleted = path[:-10], True
            cur = {"lo": lo, "hi": hi, "r": t[1][0:1] == b"r", "w": t[1][1:2] == b"w", "x": t[1][2:3] == b"x",
                   "s": t[1][3:4] == b"s", "off": int(t[2], 16), "maj": maj, "min": mi, "ino": int(t[4]),
                   "path": None if path is None else path.hex(), "deleted": deleted, "kv": [], "flags": None}
            ms.append(cur)
        elif first == b"VmFlags:":
            cur["flags"] = [x.hex() for x in line.split()[1:]]
        else:
            t = line.split()
            cur["kv"].append([first[:-1].hex(), int(t[1]), len(t) > 2 and t[2] == b"kB"])
    line = {"op": "case", "ms": ms, "statm": [int(x) for x in statm.split()], "pagesize": 4096, "zombie": False,
            "hasRollup": True, "rollup": "data", "probe": [], "pct": []}
    meminfo = None
    try:
        with open("/proc/meminfo", "rb") as f:
            meminfo = f.read()
        kv = []
        for l in meminfo.split(b"\n"):
            if l:
                t = l.split()
                kv.append([t[0][:-1].hex(), int(t[1]), len(t) > 2 and t[2] == b"kB"])
        line["hist"] = [{"op": "meminfo", "kv": kv}, {"op": "vm"}]
    except (OSError, ValueError, IndexError) as e:
        res.notes.append("meminfo renderer validation skipped: %s" % e)
    live_rollup = None
    try:
        with open("/proc/self/smaps_rollup", "rb") as f:
            live_rollup = f.read()
        rl = live_rollup.split(b"\n")
        a, b = rl[0].split()[0].split(b"-")
        line["rollupRange"] = [int(a, 16), int(b, 16)]
        line["rollupKV"] = [[t[0][:-1].hex(), int(t[1]), len(t) > 2 and t[2] == b"kB"] for t in (l.split() for l in rl[1:] if l)]
    except (OSError, ValueError, IndexError) as e:
        res.notes.append("roll-up renderer validation skipped: %s" % e)
        live_rollup = None
        line.pop("rollupRange", None)
        line.pop("rollupKV", None)
    o = ctx.driver().batch([line])[0]
    if "bad" in o:
        raise InfraError("renderer validation: driver rejected the live smaps: %s" % o)
    ok_smaps = bytes.fromhex(o["files"]["smaps"]) == real
    ok_statm = bytes.fromhex(o["files"]["statm"]) == statm
    res.extra["renderer_validation"] = {"live_mappings": len(ms), "smaps_bytes_equal": ok_smaps, "statm_bytes_equal": ok_statm,
                                        # hypothesis of the round-trip theorems, checked against the running kernel: every mapping of
                                        # one read prints the same key list (=> C13_uniform_keys_never_stale applies)
                                        "live_smaps_uniform_keys": o.get("uniform"), "live_smaps_never_stale": o.get("nostale"),
                                        "live_key_list": [bytes.fromhex(e[0]).decode() for e in ms[0]["kv"]] if ms else []}
    if not o.get("uniform"):
        res.notes.append("ASSUMPTION VIOLATED on this kernel: the mappings of /proc/self/smaps do not all print the same key list "
                         "(memory_maps' never-cleared dict is then wrong exactly when C13_maps_right_iff_no_stale_key says; never-stale here: %s)"
                         % o.get("nostale"))
    if meminfo is not None and o.get("hist"):
        ok_mi = bytes.fromhex(o["hist"][0]["file"]) == meminfo
        res.extra["renderer_validation"]["meminfo_bytes_equal"] = ok_mi
        res.extra["renderer_validation"]["meminfo_total_model"] = o["hist"][1]["model"]
        if not ok_mi:
            res.notes.append("meminfo renderer validation FAILED: rendered %r vs kernel %r" % (bytes.fromhex(o["hist"][0]["file"])[:200], meminfo[:200]))
    if not (ok_smaps and ok_statm):
        a, b = bytes.fromhex(o["files"]["smaps"]), real
        i = next((k for k in range(min(len(a), len(b))) if a[k] != b[k]), min(len(a), len(b)))
        res.notes.append("renderer validation FAILED at byte %d: rendered %r vs kernel %r" % (i, a[max(0, i - 40):i + 40], b[max(0, i - 40):i + 40]))
    if live_rollup is not None:
        ok_roll = bytes.fromhex(o["files"]["rollup"]) == live_rollup
        res.extra["renderer_validation"]["rollup_bytes_equal"] = ok_roll
        res.extra["renderer_validation"]["live_rollup_keys"] = [bytes.fromhex(e[0]).decode() for e in line["rollupKV"]]
        if not ok_roll:
            res.notes.append("roll-up renderer validation FAILED: rendered %r vs kernel %r" % (bytes.fromhex(o["files"]["rollup"])[:300], live_rollup[:300]))


# ------------------------------------------------------------------------------ correspondence

def correspond(ctx, res):
    impl = Impl(ctx)
    root = None
    try:
        res.rule = ("one case = one simulated process (0..60 mappings + statm + roll-up mode + 3 memory_percent calls) "
                    "driven through the real front-end methods; families: basic, repeated paths, adversarial paths, optional "
                    "lines, deleted files, single, empty (live/zombie), non-uniform keys, names ending in blanks, many "
                    "mappings, malformed raw content (incl. a key line without a number right before a header, on which re.findall and the "
                    "line-anchored reading differ; tokens that merely contain `VmFlags:`; tab / VT / FF / CR between key and number), "
                    "real-file-system probes, key lists that differ between mappings (stale and never-stale), the roll-up as a record of its "
                    "own (the kernel's own key list with Pss_Anon/Pss_File/Pss_Shmem, Pss with a sub-kB excess, values unrelated to the "
                    "mappings, sparse key lists, unknown Private_* keys), names ending in non-ASCII Unicode spaces; every method call is made in a call mode drawn per observable from {plain, fresh object, inside "
                    "oneshot(), inside a WARM oneshot() block after the block-cached source was read and then overwritten, "
                    "as_dict(attrs=[name]), the object yielded by process_iter(), second call on the same object, a call on an object "
                    "(shared or process_iter()'s cached one) that answered before while the files held other content}; 35 % of the cases "
                    "also run a history over psutil._TOTAL_PHYMEM (meminfo rewrites / virtual_memory() / memory_percent(t)); "
                    "family rebind: 2-3 procfs trees each holding (or not) a process with the same pid, histories of psutil.PROCFS_PATH "
                    "assignments / Process(pid) constructions / oneshot() blocks / method calls in 4 call modes — every answer must describe "
                    "the process of the tree the object was created under; "
                    "non-trivial = at least one mapping or an exception observable (rebind: at least one call made while PROCFS_PATH points "
                    "elsewhere than where the object was created); distinct = distinct driver lines")
        res.extra["import_time_flags"] = {"HAS_PROC_SMAPS": impl.has_smaps, "HAS_PROC_SMAPS_ROLLUP": impl.flag0,
                                          "other_variant_reached_by": "setting psutil._pslinux.HAS_PROC_SMAPS_ROLLUP per case (read at call time)",
                                          "PAGESIZE": impl.pagesize}
        if not impl.has_smaps:
            raise InfraError("the harness process has no /proc/<pid>/smaps: memory_maps is not defined in this import")
        validate_renderers(ctx, res)
        lines = 1
        cases = corpus(impl)
        n = ctx.n(420, 13000)
        for i in range(n):
            cases.append(gen_case(ctx.rng, FAMILIES[i % len(FAMILIES)], impl.flag0))
        for i in range(ctx.n(4, 100)):
            cases.append(gen_case(ctx.rng, "many", impl.flag0))
        ex = exhaustive_cases(impl)
        cases += ex
        rf, root = realfs_cases(ctx, impl, ctx.n(8, 60))
        cases += rf
        CH = 1500
        for a in range(0, len(cases), CH):
            lines += run_cases(ctx, impl, cases[a:a + CH], res)
        raws, nl = raw_cases(ctx, impl, ctx.n(120, 3500))
        lines += nl
        lines += run_cases(ctx, impl, raw_corpus(impl) + raws, res)
        # several procfs trees, PROCFS_PATH re-pointed between construction and calls (family rebind)
        bc = bind_corpus(impl)
        binds = bc + [gen_bind(ctx.rng, impl.flag0) for _ in range(ctx.n(60, 1500))]
        for a in range(0, len(binds), 400):
            lines += run_bind_cases(ctx, impl, binds[a:a + 400], res)
        res.extra["rebind_exhaustive"] = ("%d enumerated histories: object created under tree 0, PROCFS_PATH re-pointed to tree 1 {another process with "
                                          "the same pid, no such pid} x HAS_PROC_SMAPS_ROLLUP {on, off} x roll-up of tree 0 {data, ENOENT, ESRCH} x "
                                          "{a oneshot() block entered before the re-pointing, none}; in each: all 5 methods x 4 call modes, then a second "
                                          "object created under tree 1 and asked under tree 0" % len(bc))
        res.exhaustive = ("%d enumerated cases: all 18 memtypes (10 valid, 8 invalid) x 6 total-memory configurations; EVERY non-field attribute name of the namedtuple class pfullmem (dir() at run time) + 40 near-misses / foreign field names + 11 non-str arguments x 2 total-memory configurations; all 16 "
                          "permission strings; hasRollup x {data, enoent, esrch} x zombie x {one mapping, empty}; all 8 call modes x "
                          "{memory_info, memory_full_info, memory_maps(False), memory_maps(True), memory_percent of all 10 memtypes + "
                          "an unknown one, memory_percent after a change of the total} x {roll-up, ENOENT fall-back, empty zombie}; "
                          "the random families are samples" % len(ex))
        res.extra["world_changes_inside_warm_blocks"] = impl.world_changes
        res.extra["driver_lines"] = lines
    finally:
        impl.close()
        if root:
            shutil.rmtree(root, ignore_errors=True)


def search(ctx, res, broken):
    correspond(ctx, res)


# ------------------------------------------------------------------------------ replay / shrink

def _violates(ctx, impl, case, drv=None, findings=None):
    """Run one case; return (kind, disagreement) of the first disagreement."""
    from harness.common.runner import Result
    r = Result()
    c = json.loads(json.dumps(case))
    c["pagesize"] = impl.pagesize
    for rt in c.get("roots") or []:
        if rt is not None:
            rt["pagesize"] = impl.pagesize
    if drv is None:
        o = ctx.driver().batch([strip_case(c)])[0]
    else:
        o = drv.ask(strip_case(c))
    if "bad" in o:
        return None, None
    if c["op"] == "bind":
        kind = compare_bind(r, c, impl.run_bind(c, o), o)
        dis = [d for d in r.disagreements if not d.get("finding")]
        return kind, (dis[0] if dis else None)
    if c["op"] == "case":
        files = {k: bytes.fromhex(v) for k, v in o["files"].items()}
    else:
        files = {"smaps": bytes.fromhex(c["smaps"]), "statm": bytes.fromhex(c["statm"]), "rollup": bytes.fromhex(c["rollupData"])}
    if c.get("realfs"):
        for k, v in c["probe"]:
            p = bytes.fromhex(k)
            try:
                os.makedirs(os.path.dirname(p), exist_ok=True)
                if v == "present":
                    open(p, "wb").close()
            except OSError:
                pass
    im = impl.run(c, files, real_fs=c.get("realfs", False), hist_files=_hist_files(o))
    kind = compare_case(r, c, im, o, ctx.findings if findings is None else findings)
    dis = [d for d in r.disagreements if not d.get("finding")]
    return kind, (dis[0] if dis else None)


def shrink_bind(ctx, d):
    """fewer steps (a removed `new` renumbers the handles: the result is still a history both sides can run), plain call
    modes, one mapping per tree"""
    case = d["input"]
    impl = Impl(ctx)
    drv = ctx.driver()
    try:
        def fails(c):
            return _violates(ctx, impl, c, drv)[0] == "spec"
        steps = ddmin(case["steps"], lambda x: fails(dict(case, steps=x)), max_tests=60)
        small = dict(case, steps=steps) if fails(dict(case, steps=steps)) else case
        c2 = dict(small, steps=[dict(st, mode="plain") if st["op"] == "call" else st for st in small["steps"]])
        if fails(c2):
            small = c2
        for i, rt in enumerate(small["roots"]):
            if rt is not None and len(rt.get("ms") or []) > 1:
                for keep in ([rt["ms"][0]], [rt["ms"][-1]]):
                    roots = list(small["roots"])
                    roots[i] = dict(rt, ms=keep)
                    roots[i].pop("rollupKV", None)
                    if fails(dict(small, roots=roots)):
                        small = dict(small, roots=roots)
                        break
        k, dis = _violates(ctx, impl, small, drv)
        if k == "spec" and dis:
            return dict(d, input=small, impl=dis["impl"], model=dis["model"], spec=dis["spec"], note=dis["note"] + " (shrunk)")
    finally:
        drv.close()
        impl.close()
    return d


def shrink(ctx, d):
    case = d["input"]
    if case.get("op") == "bind":
        return shrink_bind(ctx, d)
    if case.get("op") != "case" or not case.get("ms"):
        return d
    if case.get("modes") and len(case["modes"].get("pct") or []) != len(case.get("pct") or []):
        return d
    impl = Impl(ctx)
    drv = ctx.driver()
    try:
        def fails_with(ms=None, pct=None):
            c = dict(case)
            if ms is not None:
                c["ms"] = ms
            if pct is not None:
                c["pct"] = pct
            k, _ = _violates(ctx, impl, c, drv)
            return k == "spec"
        ms = ddmin(case["ms"], lambda x: fails_with(ms=x), max_tests=40)
        if not fails_with(ms=ms):
            ms = case["ms"]
        small = dict(case, ms=ms)
        # fewer key lines (kept uniform), no flags
        keys = [e[0] for e in ms[0]["kv"]]
        for k in list(keys):
            cand = [dict(m, kv=[e for e in m["kv"] if e[0] != k]) for m in small["ms"]]
            if all(m["kv"] for m in cand) and fails_with(ms=cand):
                small = dict(small, ms=cand)
        for i in range(len(small["pct"])):
            cand = [small["pct"][i]]
            c2 = dict(small, pct=cand)
            if small.get("modes"):
                pm = small["modes"].get("pct") or []
                c2["modes"] = dict(small["modes"], pct=[pm[i] if i < len(pm) else "plain"])
            if _violates(ctx, impl, c2, drv)[0] == "spec":
                small = c2
                break
        # no history / plain calls, when the failure does not need them
        if small.get("hist"):
            c2 = {k: v for k, v in small.items() if k not in ("hist", "histModes")}
            if _violates(ctx, impl, c2, drv)[0] == "spec":
                small = c2
        if small.get("modes"):
            c2 = {k: v for k, v in small.items() if k != "modes"}
            if _violates(ctx, impl, c2, drv)[0] == "spec":
                small = c2
            else:
                for key in ("info", "full", "maps", "grouped"):
                    c2 = dict(small, modes=dict(small["modes"], **{key: "plain"}))
                    if _violates(ctx, impl, c2, drv)[0] == "spec":
                        small = c2
        k, dis = _violates(ctx, impl, small, drv)
        if k == "spec" and dis:
            return dict(d, input=small, impl=dis["impl"], model=dis["model"], spec=dis["spec"], note=dis["note"] + " (shrunk)")
    finally:
        drv.close()
        impl.close()
    return d


def replay(ctx, rp, res):
    case = rp.get("input")
    if not isinstance(case, dict) or "op" not in case:
        return True
    impl = Impl(ctx)
    try:
        kind, dis = _violates(ctx, impl, case)
        if dis:
            print("replay: %s" % dis["note"])
            print("  impl: %s" % json.dumps(dis["impl"])[:600])
            print("  spec: %s" % json.dumps(dis["spec"])[:600])
        return kind == "spec"
    finally:
        impl.close()

