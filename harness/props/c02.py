"""C02 — Process ==, hash() and is_running() follow the process, not the PID.

Shares the identity-machine model (lean/PsutilModel/Model/C01.lean), the simulated kernel, the
fake procfs, the generators and the comparison code with C01 (harness/props/c01.py); has its own
translator output (Generated/C02.lean → Model/C02Gen.lean → Driver/C02.lean) and its own theorems
(Props/C02.lean).  Oracle here: `==` / `is_running()` differing from the ghost-based answer the
driver prints (same PID and same process start / the incarnation is still listed), equal objects
hashing differently, is_running() turning True again.
"""
import os

from harness.props import c01

PROP = "C02"
DRIVER = os.path.join("Driver", "C02.lean")
DRIVER_MODULES = ["PsutilModel.Model.C02Gen", "PsutilModel.Spec.C01", "PsutilModel.Model.C01Driver"]
NEEDS_EXT = True
TRUSTED = c01.TRUSTED[:4]
ASSUMPTIONS = c01.ASSUMPTIONS
MANIFEST = {
    "level_text": "Machine-checked Lean 4 proof over the identity-machine model shared with C01 (Process._init/_get_ident/create_time/__eq__/__hash__/is_running + _pslinux boot_time/BOOT_TIME/create_time) and a simulated kernel whose published boot time may change: for ALL histories of spawn/exit/reap/PID-reuse/tick/clock-step events and interleaved psutil calls (boot_time(), process_iter(), create_time(), is_running(), signals, setters, object creation at any point) with btime != 0, `a == b` holds iff the two objects have the same PID and were built for the same process start (C02_eq_iff_same_incarnation), equal objects hash alike and the hash never changes (C02_hash_congr, C02_answers_stable), is_running() is True iff the object's own incarnation is still in the process table, zombie included (C02_isRunning_iff_listed), and once False it stays False (C02_isRunning_sticky); the ghost field the specification uses is the owner of the PID at construction (C02_ghost_meaning). The Process objects built and yielded by process_iter() are objects of the same histories (the model's process_iter keeps the pid->object cache and `_pids_reused`, builds a Process for every listed PID that is not cached exactly as Process(pid) does, appends it to the object list and returns the (pid, index) handles it yields), so all of the above quantifies over them and over pairs mixing both kinds; in addition a sweep never alters an existing object (C02_iter_keeps_objects), a yielded handle is a cache entry as it was or a fresh object built for the current owner of the PID (C02_iter_ghost_meaning) and always names an object of that PID (C02_iter_handles_valid); oneshot() entry/exit are explicit calls of the histories and change nothing (C02_oneshot_identity). The histories also contain permission changes (the kernel refusing a PID with EPERM/EACCES): a refused signal or setter raises AccessDenied and sets no sticky flag, so every answer above is unaffected. Outside the property's quantifier (characterisation, not a finding): when /proc/pid/stat cannot be opened (hidepid mounts, LSMs) Process._init keeps `_ident = (pid, None)`; the model transcribes this and is compared with the real code on such histories; proved for any state: two objects with unknown start are equal iff they have the same PID and never equal an object with a known start (C02_eq_unknown_start), is_running() of an object with unknown start is True iff the PID is listed and its current holder is unreadable too (C02_isRunning_unknown_start), Process(pid) then yields exactly that object without touching BOOT_TIME (C02_unknown_start_meaning); consequently the statements of C02_eq_iff_same_incarnation / C02_isRunning_iff_listed do not extend to histories with unreadable stat files (C02_unknown_start_counterexample, witnesses replayed on the real code). As an extra model-correspondence observable (outside the property's statement, no spec-level judgement) the status word of str(p)/repr(p) is transcribed as it is and compared with the implementation; about the transcription it is proved that 'terminated' shown implies the object's process is gone and that a listed incarnation's own state is shown (C02_status_terminated_sound, C02_status_listed), and characterised that the converse does not hold because __str__ deliberately has no side effects (C02_status_stale_counterexample). Tie: ast-extracted facts + differential run of real psutil.Process objects over a fake procfs.",
    "level_note": "Trusted: Lean kernel + {propext, Classical.choice, Quot.sound}; the translator; the correspondence harness; the simulated kernel/fake procfs; atomic calls; create times as exact integers (doubles in the implementation); hypotheses btime != 0 and /proc/pid/stat always readable (what happens otherwise is characterised, not claimed); OpenBSD/NetBSD zombie branch of __eq__ not modelled (Linux layer).",
    "technique": "Lean 4 invariant proof by induction over event histories (ghost incarnation ids, one frozen boot time) + translator-fed proof obligation + differential correspondence on generated and exhaustively enumerated short histories",
    "design_ref": "DESIGN.md §5 C02",
}


def facts(snap, F):
    c01.all_facts(snap, F, skip=("windowCalls", "nativePidArgs"))     # C01-only obligations


def correspond(ctx, res):
    c01.correspond_for(ctx, res, "C02", DRIVER, 700, 30000)


def search(ctx, res, broken):
    correspond(ctx, res)


def shrink(ctx, d):
    return c01.shrink_for(ctx, d, "C02", DRIVER)


def replay(ctx, rp, res):
    return c01.replay_for(ctx, rp, "C02", DRIVER)

