"""C02 — Process ==, hash() and is_running() follow the process, not the PID.

Shares the identity-machine model (lean/PsutilModel/Model/C01.lean), the simulated kernel, the
fake procfs, the generators and the comparison code with C01 (harness/props/c01.py); has its own
translator output (Generated/C02.lean → Model/C02Gen.lean → Driver/C02.lean) and its own theorems
(Props/C02.lean).  Oracle here: `==` / `is_running()` differing from the ghost-based answer the
driver prints (same PID and same process start / the incarnation is still listed), equal objects
hashing differently, is_running() turning True again.
"""
import os

from harness.props import c01, c02_extra, c02_fault

PROP = "C02"
DRIVER = os.path.join("Driver", "C02.lean")
DRIVER_MODULES = ["PsutilModel.Model.C02Fault", "PsutilModel.Model.C02Gen", "PsutilModel.Spec.C01", "PsutilModel.Model.C01Driver"]
NEEDS_EXT = True
TRUSTED = c01.TRUSTED[:4] + [
    "C02 object universe: objects built by Process(pid) and by process_iter() are modelled; objects of a Process subclass and psutil.Popen objects over a listed PID go through the same `_init` and are exercised by the correspondence only (families x:classes / x:hashes: mixed-class pairs in ==, != and is_running()); a psutil.Popen whose child was already reaped gets `_ident = (pid, None)` and `_gone = True` through `_ignore_nsp` — such objects, and objects returned by parent()/children()/parents()/wait_procs(), are outside the model and outside the correspondence",
    "C02 hash: the model's hash IS the identity (pid, create time); CPython's hash() of that tuple and the `_hash` memo are tied by the facts hashShape / identityStores (cfg_identity_shape) and by the stability oracle (hash right after construction = hash at the end of the history)",
]
# no assumption on the boot time: since /repo 29257b1 create_time() tests `BOOT_TIME is not None` (obligation cfg_none_test) and
# the theorems hold from any published boot time, 0 included, with any clock steps (C02_any_boot_full)
ASSUMPTIONS = list(c01.ASSUMPTIONS)
MANIFEST = {
    "level_text": "Machine-checked Lean 4 proof over the identity-machine model shared with C01 (Process._init/_get_ident/create_time/__eq__/__hash__/is_running + _pslinux boot_time/BOOT_TIME/create_time) and a simulated kernel whose published boot time may change: for ALL histories of spawn/exit/reap/PID-reuse/tick/clock-step events and interleaved psutil calls (boot_time(), process_iter(), create_time(), is_running(), signals, setters, object creation at any point), `a == b` holds iff the two objects have the same PID and were built for the same process start (C02_eq_iff_same_incarnation), equal objects hash alike and neither == nor the hash of existing objects ever changes (C02_hash_congr, C02_answers_stable), is_running() is True iff the object's own incarnation is still in the process table, zombie included (C02_isRunning_iff_listed), and once False it stays False (C02_isRunning_sticky, C02_isRunning_false_forever); the ghost field the specification uses is the owner of the PID at construction and never changes afterwards (C02_ghost_meaning, C02_object_constant, end to end: C02_built_for_owner_at_construction). About hash() the property is read one-directionally: equal => same hash, and stability; the converse (same hash => same process) is NOT claimed — no hash function can promise it; in the model the hash is the identity itself, tied to the code by the obligation cfg_identity_shape (hash(self._ident), memoised) and by a stability oracle (hash right after construction = hash at the end of the history); hash classes are compared with the model both ways at model level only. BOOT TIME: no hypothesis — the initial published boot time is any number, 0 included, and clock steps go to any value (C02_any_boot_full: the three clauses for the extracted configuration over all such histories; the theorems above are stated that way). This rests on the obligation cfg_none_test: create_time() takes the cached BOOT_TIME whenever it `is not None` (/repo 29257b1, the repair of the former finding C02-boottime-zero; C02_btime0_as_extracted states that the checked source is the repaired configuration). What-if theorem for the unrepaired truthiness test `BOOT_TIME or boot_time()`: a machine that boots at the epoch caches BOOT_TIME = 0.0, which is falsy, so after a clock step a new Process(pid) of the same live process differs from the old one and is_running() of the old one is False (C02_btime0_counterexample); histories from btime 0 (family x:btime0, the witness in the corpus) are judged by the specification like all others, nothing is tolerated — a revert of the test breaks cfg_none_test and is reported with that concrete history. The Process objects built and yielded by process_iter() are objects of the same histories (the model's process_iter keeps the pid->object cache and `_pids_reused`, builds a Process for every listed PID that is not cached exactly as Process(pid) does, appends it to the object list and returns the (pid, index) handles it yields), so all of the above quantifies over them and over pairs mixing both kinds; in addition a sweep never alters an existing object (C02_iter_keeps_objects), a yielded handle is a cache entry as it was or a fresh object built for the current owner of the PID (C02_iter_ghost_meaning) and always names an object of that PID (C02_iter_handles_valid). 'Any other psutil call in between': oneshot() entry/exit and the other public calls of the histories (wait(0), as_dict, name, status, cpu_times, str, username, children, pids(), pid_exists(), cpu_percent(), memory_info(), cmdline(), !=, set()/dict membership, == with foreign types) are the identity IN THE MODEL by definition (C02_oneshot_identity is `rfl`); that they leave the answers alone is observed by the correspondence on the real code, and cfg_identity_shape pins that no other function stores to _ident/_hash/_gone/_pid_reused. Objects of Process subclasses and psutil.Popen objects over a listed PID are exercised by the correspondence (same _init; mixed-class pairs) but are not separate objects of the model; Popen over an already reaped child ((pid, None) identity via _ignore_nsp) and objects returned by parent()/children()/parents()/wait_procs() are outside model and correspondence. The histories also contain permission changes (the kernel refusing a PID with EPERM/EACCES): a refused signal or setter raises AccessDenied and sets no sticky flag, so every answer above is unaffected. Outside the property's quantifier (characterisation, not a finding): when /proc/pid/stat cannot be opened (hidepid mounts, LSMs) Process._init keeps `_ident = (pid, None)`; the model transcribes this and is compared with the real code on such histories; proved for any state: two objects with unknown start are equal iff they have the same PID and never equal an object with a known start (C02_eq_unknown_start), is_running() of an object with unknown start is True iff the PID is listed and its current holder is unreadable too (C02_isRunning_unknown_start), Process(pid) then yields exactly that object without touching BOOT_TIME (C02_unknown_start_meaning); consequently the statements of C02_eq_iff_same_incarnation / C02_isRunning_iff_listed do not extend to histories with unreadable stat files (C02_unknown_start_counterexample, witnesses replayed on the real code). As an extra model-correspondence observable (outside the property's statement, no spec-level judgement) the status word of str(p)/repr(p) is transcribed as it is and compared with the implementation (C02_status_terminated_sound, C02_status_listed, C02_status_stale_counterexample). TRANSIENT READ FAILURES (seeded round 5): reads of /proc/<pid>/stat failing with an OSError that is neither ENOENT/ESRCH nor EACCES/EPERM (EMFILE/ENFILE: the caller is out of descriptors, ENOMEM, EIO, ...; at open() or at read(); any PID, any time, several at once) are an input of the histories (Model/C02Fault.lean: fault set, `stepF`, sweeps cut short by the failing read keep what they had built in the cache): is_running() then leaves with the OS error exactly when it has to read a failing stat file and otherwise tells the truth (C02_fault_isRunning_exact; spec form RightOrWithheld: C02_fault_isRunning_right_or_withheld — never False for a listed process, never True for one that left), nothing sticks once the reads work again (C02_fault_no_trace), False ever after even with failing reads (C02_fault_never_true_after_gone), == / hash() are untouched (C02_fault_eq_hash, C02_fault_object_constant), a call that left with the OS error stored nothing (C02_fault_oserror_stores_nothing) and a cut-short sweep alters no existing object (C02_fault_sweep_keeps_objects); these rest on the obligation cfg_stat_fault_propagates (facts statReadShape, catShape, wrapHandlers, isRunningHandlers, initHandlers: no stage between the read and the caller of is_running() swallows more than it did); the what-if configuration in which the failure is swallowed into NoSuchProcess refutes both full statements (C02_fault_swallowed_counterexample). The correspondence injects the errors into `open` as psutil._common sees it (families x:fault, exhaustive:fault). Tie: ast-extracted facts (BOOT_TIME written once and nowhere else in the package, the cached value flows into create_time()'s result, shapes of __eq__/__ne__/__hash__, every store to the identity attributes; all extractors total) + differential run of real psutil.Process objects over a fake procfs.",
    "level_note": "Trusted: Lean kernel + {propext, Classical.choice, Quot.sound}; the translator; the correspondence harness; the simulated kernel/fake procfs; atomic calls; create times as exact integers (doubles in the implementation); hypotheses: /proc/pid/stat always readable and no PID recycled within one clock tick (what happens otherwise is characterised, not claimed), no hypothesis on the boot time (any value, 0 included, any clock step: obligation cfg_none_test, /repo 29257b1); transient read failures: only of /proc/<pid>/stat (the one file the identity machinery reads), injected at open()/read() of psutil._common.open; hash(): equal => same hash and stability only; Process subclass / Popen objects by correspondence only; OpenBSD/NetBSD zombie branch of __eq__ not modelled (Linux layer).",
    "technique": "Lean 4 invariant proof by induction over event histories (ghost incarnation ids, one frozen boot time) + translator-fed proof obligation + differential correspondence on generated and exhaustively enumerated short histories",
    "design_ref": "DESIGN.md §5 C02",
}


def facts(snap, F):
    c01.all_facts(snap, F, skip=("windowCalls", "nativePidArgs"))     # C01-only obligations
    c02_extra.facts(snap, F)                                          # __eq__ / __ne__ / __hash__ / identity stores
    c02_fault.facts(snap, F)                                          # path of a transient OSError of the stat read


def correspond(ctx, res):
    c01.correspond_for(ctx, res, "C02", DRIVER, 700, 30000)
    lines = res.extra.get("driver_lines", 0)
    res.extra["driver_lines"] = 0
    c02_extra.correspond_extra(ctx, res, DRIVER, 480, 16000)
    c02_fault.correspond_fault(ctx, res, DRIVER, 400, 12000)
    res.extra["driver_lines"] += lines
    res.exhaustive = "%s; %s" % (res.exhaustive, res.extra.pop("exhaustive_fault"))
    res.rule += ("; C02's own families on top (x:classes: objects of a Process subclass and psutil.Popen objects mixed with "
                 "Process objects; x:globals: pids()/pid_exists()/cpu_percent()/!=/set()/dict keys/== with foreign "
                 "types between the calls; x:hashes: hash() right after construction and at the end; x:btime0: published boot "
                 "time 0 and later clock steps, judged by the specification like every other family — the histories of the "
                 "former finding C02-boottime-zero, fixed in /repo 29257b1; x:fault + exhaustive:fault: reads of /proc/<pid>/stat failing "
                 "transiently — EMFILE/ENFILE/ENOMEM/EIO/EAGAIN/ETIMEDOUT at open() or at read(), on any PID, at any time — around "
                 "is_running(), Process(pid), signals, setters, ppid, create_time, str, process_iter() sweeps cut short, PID reuse "
                 "during the failing phase: is_running() may leave with the OS error while reads of the object's PID fail, an "
                 "answer that is given must be the right one, and nothing may stick)")


def search(ctx, res, broken):
    correspond(ctx, res)


def shrink(ctx, d):
    return c02_extra.shrink(ctx, d, DRIVER)


def replay(ctx, rp, res):
    return c02_extra.replay(ctx, rp, DRIVER)


def check_finding(ctx, fnd):
    return c02_extra.check_finding(ctx, fnd, DRIVER)

