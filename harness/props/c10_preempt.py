"""C10 — model-independent bounded-pre-emption exploration of concurrent nowrap=True callers, from a COLD process.

Why (seeded change C10-5): every other concurrent family of c10.py runs inside the harness process, after thousands of
sequential calls, and switches threads only where the Lean lock model has an action (platform call, `_wn.lock`). Neither
the state a process has before its FIRST call (module-level objects the front ends create lazily: a lock, a table of
locks …) nor a thread switch INSIDE the front end before its lock is held (while the expression after `with` is being
evaluated) was ever exercised. This module spans both dimensions without assuming anything about the shape of the code:

  * a worker process (this file run as a script) imports the snapshot's psutil freshly, records the import-time state of
    the package (bindings of every module global, contents of every container, `__dict__` of functions and of instances
    of the package's own classes) and puts it back before EVERY schedule: each schedule starts as the first calls of a
    new process;
  * every lock that psutil code creates — at import time or at call time — is a cooperative lock (`threading.Lock` /
    `RLock` are replaced for callers whose code lives in the snapshot): creating, acquiring and releasing one are
    scheduling points, a thread that has to wait is *blocked* (never really waits), a timed / non-blocking acquire of a
    held lock fails when the scheduler says so (virtual time);
  * 2-3 real threads run small programs of public calls (`net_io_counters` / `disk_io_counters`, both forms,
    `cache_clear`) and a controller hands a baton between them at every LINE (granularity "line": every line of every
    code object of the snapshot; "front": lines of the functions of psutil/__init__.py + entry of every other code object of the snapshot;
    "opcode": in addition every bytecode of psutil/__init__.py);
  * the platform functions are scripted by a virtual kernel: the k-th sample of a function returns the k-th listing of
    the kernel script — what a call reads depends only on WHEN it reads.

Explored: for every program all schedules with at most two pre-emptions

    X runs x points · Y runs y points · X to the end · Y to the end            for all (x, y), X != Y

(quick tier: granularity "front" for all programs, all (x, y); search / thorough: granularity "line", and "opcode" for
the cold programs), plus seeded random plans with 3-5 pre-emptions.

Oracle — from the property statement only, no model of the locking: order the `nowrap=True` calls by the moment they
read the kernel (the platform call). Every call must return what the history-defined specification (`Spec.expected`,
asked from the Lean driver as a sequential history in that order) promises: raw value + the values the raw counter had
just before each time it went backwards IN THAT ORDER. `cache_clear()` calls may take effect anywhere between their
invocation and their return (every placement consistent with real-time order is tried; one must explain all results).
No call may raise or hang (all threads blocked = deadlock). After the threads are done one quiet call per function
shows whether a spurious offset was left behind.
"""
import json
import os
import sys
import threading

# ====================================================================================================================
# worker process
# ====================================================================================================================

REAL_LOCK = threading.Lock          # `_thread.allocate_lock`
REAL_RLOCK = threading.RLock
CTRL_TIMEOUT = 20.0                 # safety net only: a worker that neither reaches a point nor ends (real blocking)


class BinSem:
    """binary semaphore on a raw lock (threading.Semaphore is Python-level and ten times slower); releases and
    acquires alternate strictly in the baton protocol"""

    def __init__(self):
        self.l = REAL_LOCK()
        self.l.acquire()

    def release(self):
        try:
            self.l.release()
        except RuntimeError:        # already released (only while a schedule is being abandoned)
            pass

    def acquire(self, timeout=-1):
        return self.l.acquire(True, timeout)


class Abort(BaseException):
    """raised inside a worker thread to unwind it when a schedule is abandoned (deadlock)"""


class W:
    """one managed worker thread"""

    def __init__(self, tid, prog):
        self.tid = tid
        self.prog = prog
        self.go = BinSem()
        self.state = "new"          # new | ready (at a point) | blocked | done
        self.blocked_on = None
        self.timed = False          # blocked in a timed acquire: may be resumed to let the timeout expire
        self.expire = False
        self.points = 0
        self.skip = 0               # scheduling points it may still pass before handing the baton back (None: all)
        self.results = []
        self.thread = None
        self.abort = False


class Explorer:
    def __init__(self, pkg):
        self.pkg = os.path.abspath(pkg) + os.sep
        self.init_file = os.path.join(os.path.abspath(pkg), "__init__.py")
        self.active = False
        self.workers = {}           # thread ident -> W
        self.ctrl = BinSem()
        self.gran = "line"
        self.events = []            # global, totally ordered (one thread runs at a time)
        self.locks = []
        self.kernel = {}
        self.nsample = {}
        self.trace_labels = None

    # ---- locks -------------------------------------------------------------------------------------------------
    def in_pkg(self, frame):
        return frame is not None and frame.f_code.co_filename.startswith(self.pkg)

    def me(self):
        if not self.active:
            return None
        return self.workers.get(threading.get_ident())

    # ---- scheduling points -------------------------------------------------------------------------------------
    def point(self, label):
        w = self.me()
        if w is None:
            return
        if w.abort:
            raise Abort()
        w.points += 1
        if self.trace_labels is not None:
            self.trace_labels.append((w.tid, label))
        if w.skip is None:
            return                  # runs to its end (or until it has to wait for a lock)
        if w.skip > 0:
            w.skip -= 1
            return
        w.state = "ready"
        self.ctrl.release()
        w.go.acquire()
        if w.abort:
            raise Abort()

    def block(self, lock, timed):
        """the calling worker cannot get `lock`: hand the baton back; returns True if it was resumed because the lock
        was released, False if the scheduler lets its timeout expire"""
        w = self.me()
        w.state = "blocked"
        w.blocked_on = lock
        w.timed = timed
        w.expire = False
        self.ctrl.release()
        w.go.acquire()
        if w.abort:
            raise Abort()
        w.blocked_on = None
        return not w.expire

    def tracer(self, frame, event, arg):
        if event != "call":
            return None
        fn = frame.f_code.co_filename
        if not fn.startswith(self.pkg):
            return None
        front = fn == self.init_file
        self.point(("call", frame.f_code.co_name))
        if self.gran == "front" and (not front or frame.f_code.co_name.startswith("<")):
            return None             # (comprehension / generator-expression bodies: their entry only)
        if self.gran == "opcode" and front:
            frame.f_trace_opcodes = True
        return self.local

    def local(self, frame, event, arg):
        if event == "line":
            self.point(("line", frame.f_code.co_name, frame.f_lineno))
        elif event == "opcode":
            self.point(("op", frame.f_code.co_name, frame.f_lasti))
        return self.local


EXP = None


class CoopLock:
    """a lock created by psutil code: mutual exclusion is real (it wraps a real lock), waiting is cooperative"""

    def __init__(self, reentrant=False):
        self._real = REAL_LOCK()
        self._re = reentrant
        self._owner = None
        self._count = 0
        self.id = len(EXP.locks)
        EXP.locks.append(self)
        w = EXP.me()
        if w is not None:
            EXP.events.append(("lock-created", w.tid, self.id))
            EXP.point(("lock-created", self.id))

    def acquire(self, blocking=True, timeout=-1):
        w = EXP.me()
        me = threading.get_ident()
        if self._re and self._owner == me:
            self._count += 1
            return True
        if w is None:
            ok = self._real.acquire(blocking, timeout) if blocking else self._real.acquire(False)
            if ok:
                self._owner, self._count = me, 1
            return ok
        EXP.point(("acquire", self.id))
        while True:
            if self._real.acquire(False):
                self._owner, self._count = me, 1
                EXP.events.append(("acquired", w.tid, self.id))
                return True
            if not blocking:
                EXP.events.append(("try-failed", w.tid, self.id))
                return False
            timed = timeout is not None and timeout >= 0
            if timed:
                EXP.events.append(("timed-wait", w.tid, self.id))
            if not EXP.block(self, timed):
                EXP.events.append(("timed-out", w.tid, self.id))
                return False

    def release(self):
        if self._re and self._count > 1:
            self._count -= 1
            return
        self._owner, self._count = None, 0
        self._real.release()
        w = EXP.me()
        if w is not None:
            EXP.events.append(("released", w.tid, self.id))
            EXP.point(("released", self.id))

    def locked(self):
        return self._real.locked()

    def __enter__(self):
        self.acquire()
        return self

    def __exit__(self, *a):
        self.release()
        return False

    def _at_fork_reinit(self):
        self._real = REAL_LOCK()
        self._owner, self._count = None, 0


def _lock_factory(*a, **k):
    if EXP is not None and EXP.in_pkg(sys._getframe(1)):
        return CoopLock(False)
    return REAL_LOCK(*a, **k)


def _rlock_factory(*a, **k):
    if EXP is not None and EXP.in_pkg(sys._getframe(1)):
        return CoopLock(True)
    return REAL_RLOCK(*a, **k)


# ---- import-time state of the package ----------------------------------------------------------------------------

CONTAINERS = (dict, list, set, bytearray)


def _copy_container(v):
    import collections
    if isinstance(v, collections.deque):
        return list(v)
    return type(v)(v) if not isinstance(v, collections.defaultdict) else dict(v)


def _is_container(v):
    import collections
    return isinstance(v, CONTAINERS + (collections.deque,))


def _restore_container(v, saved):
    import collections
    if isinstance(v, (dict, set)):
        v.clear()
        v.update(saved)
    elif isinstance(v, collections.deque):
        v.clear()
        v.extend(saved)
    else:
        v[:] = saved


class Pristine:
    """bindings of every global of every psutil module, contents of every container reachable in one step, `__dict__`
    of the package's functions and of instances of the package's classes — as they are right after import"""

    def __init__(self, mods):
        import types
        self.mods = mods
        self.globals = {m.__name__: dict(m.__dict__) for m in mods}
        self.objs = []              # (object, saved __dict__, {attr: saved container})
        self.conts = []             # (container, saved copy)
        seen = set()
        for m in mods:
            for name, v in list(m.__dict__.items()):
                if name.startswith("__") or id(v) in seen:
                    continue
                seen.add(id(v))
                if _is_container(v):
                    self.conts.append((v, _copy_container(v)))
                elif isinstance(v, types.FunctionType):
                    if getattr(v, "__module__", "") and str(v.__module__).startswith("psutil"):
                        self.objs.append((v, dict(v.__dict__), {}))
                elif str(getattr(type(v), "__module__", "")).startswith("psutil") and hasattr(v, "__dict__") \
                        and not isinstance(v, (type, types.ModuleType)):
                    inner = {a: _copy_container(x) for a, x in v.__dict__.items() if _is_container(x)}
                    self.objs.append((v, dict(v.__dict__), inner))

    def restore(self):
        for m in self.mods:
            saved = self.globals[m.__name__]
            for name in list(m.__dict__):
                if name not in saved:
                    del m.__dict__[name]
            for name, v in saved.items():
                if m.__dict__.get(name, None) is not v:
                    m.__dict__[name] = v
        for v, saved in self.conts:
            _restore_container(v, saved)
        for o, d, inner in self.objs:
            for a in list(o.__dict__):
                if a not in d:
                    del o.__dict__[a]
            for a, x in d.items():
                if o.__dict__.get(a, None) is not x:
                    o.__dict__[a] = x
            for a, saved in inner.items():
                _restore_container(o.__dict__[a], saved)


# ---- one schedule -------------------------------------------------------------------------------------------------


def _canon(r, fn, perdev, dev0):
    if r is None:
        return {"kind": "nil"}
    if isinstance(r, dict):
        if not r:
            return {"kind": "none"}
        return {"kind": "dict", "raw": [[k, [int(x) for x in v]] for k, v in r.items()]}
    return {"kind": "total", "fields": [int(x) for x in r]}


class Job:
    def __init__(self, ps, pristine, job):
        self.ps = ps
        self.pristine = pristine
        self.job = job

    def do_op(self, who, op, results):
        ps = self.ps
        ev = EXP.events
        try:
            if op[0] == "clear":
                ev.append(("clear-invoked", who, len(results)))
                (ps.net_io_counters if op[1] == "net" else ps.disk_io_counters).cache_clear()
                ev.append(("clear-returned", who, len(results)))
                results.append({"kind": "unit"})
            else:
                _, fn, perdev = op[:3]
                kw = {("pernic" if fn == "net" else "perdisk"): perdev}
                if len(op) < 4 or op[3] != "default":
                    kw["nowrap"] = True
                ev.append(("call-invoked", who, len(results), fn, perdev))
                r = (ps.net_io_counters if fn == "net" else ps.disk_io_counters)(**kw)
                ev.append(("call-returned", who, len(results)))
                results.append(_canon(r, fn, perdev, None))
        except Abort:
            raise
        except Exception as e:  # noqa: BLE001 - every exception is an observable
            ev.append(("raised", who, len(results)))
            results.append({"kind": "exc", "exc": type(e).__name__, "msg": str(e)[:120]})

    def run(self):
        job = self.job
        EXP.active = False
        self.pristine.restore()
        del EXP.locks[EXP.n_import_locks:]      # lock objects created at call time by earlier schedules
        for lk in EXP.locks:
            if lk.locked():          # left held by an abandoned schedule
                lk._at_fork_reinit()
        EXP.events = []
        EXP.kernel = job["kernel"]
        EXP.nsample = {"net": 0, "disk": 0}
        EXP.gran = job.get("gran", "line")
        EXP.trace_labels = [] if job.get("labels") else None
        EXP.workers = {}
        out = {"status": "ok"}
        main_results = []
        EXP.current = "main"
        for op in job.get("prefix", []):
            self.do_op("main", op, main_results)
        ws = [W(int(t), prog) for t, prog in sorted(job["programs"].items())]
        started = threading.Semaphore(0)

        def body(w):
            EXP.workers[threading.get_ident()] = w
            started.release()
            w.go.acquire()
            try:
                if w.abort:
                    return
                sys.settrace(EXP.tracer)
                try:
                    for op in w.prog:
                        self.do_op(w.tid, op, w.results)
                finally:
                    sys.settrace(None)
            except Abort:
                pass
            finally:
                w.state = "done"
                EXP.ctrl.release()
        for w in ws:
            w.thread = threading.Thread(target=body, args=(w,), daemon=True)
            w.thread.start()
        for w in ws:
            started.acquire()
        for w in ws:
            w.state = "ready"
        EXP.active = True
        by_tid = {w.tid: w for w in ws}

        def runnable(w):
            if w.state == "ready":
                return True
            if w.state == "blocked":
                return not w.blocked_on.locked()
            return False

        def step(w, n=1, expire=False):
            """let w run until it stands at the n-th scheduling point from here (None: to its end), has to wait for
            a lock, or ends"""
            w.expire = expire
            w.skip = None if n is None else n - 1
            EXP.current = w.tid
            w.go.release()
            if not EXP.ctrl.acquire(timeout=CTRL_TIMEOUT):
                raise TimeoutError("worker %d neither reached a scheduling point nor ended" % w.tid)

        try:
            for seg in job["plan"]:
                w = by_tid.get(seg[0])
                if w is None:
                    continue
                remaining = seg[1]
                expire = len(seg) > 2 and seg[2] == "expire"
                while w.state != "done" and remaining != 0:
                    before = w.points
                    if runnable(w):
                        step(w, remaining)
                    elif w.state == "blocked" and w.timed and expire:
                        step(w, remaining, expire=True)     # virtual time: the timeout of its acquire expires now
                    else:
                        break       # it has to wait for a lock: the segment ends early
                    if w.state == "ready":
                        break       # stands at the last point of its segment
                    if remaining is not None:
                        remaining = max(0, remaining - (w.points - before))
            # the plan is exhausted: lowest runnable thread first, to the end; a thread blocked in a TIMED acquire
            # while nothing else can run has its timeout expire
            while any(w.state != "done" for w in ws):
                cand = [w for w in ws if runnable(w)]
                if cand:
                    step(cand[0], None)
                    continue
                timed = [w for w in ws if w.state == "blocked" and w.timed]
                if timed:
                    step(timed[0], None, expire=True)
                    continue
                out["status"] = "deadlock"
                out["blocked"] = {str(w.tid): w.blocked_on.id for w in ws if w.state == "blocked"}
                for w in ws:
                    if w.state != "done":
                        w.abort = True
                        w.go.release()
                for w in ws:
                    w.thread.join(2)
                break
        except TimeoutError as e:
            out["status"] = "infra-timeout"
            out["why"] = str(e)
        EXP.active = False
        if out["status"] == "ok":
            for w in ws:
                w.thread.join(5)
            for op in job.get("epilogue", []):
                self.do_op("main", op, main_results)
        out["results"] = {str(w.tid): w.results for w in ws}
        out["results"]["main"] = main_results
        out["events"] = [list(e) for e in EXP.events]
        out["points"] = {str(w.tid): w.points for w in ws}
        if EXP.trace_labels is not None:
            out["labels"] = [[t, list(l)] for t, l in EXP.trace_labels]
        return out


def _warm_opcode_tracing():
    """CPython 3.12 installs per-instruction events only when `sys.settrace` is called AFTER some frame has asked for
    `f_trace_opcodes`: do that once, so that the very first scheduled frame already gets its opcode events"""
    def warm_target():
        return None

    def tr(frame, event, arg):
        if event == "call" and frame.f_code is warm_target.__code__:
            frame.f_trace_opcodes = True
            return tr
        return None
    sys.settrace(tr)
    try:
        warm_target()
    finally:
        sys.settrace(None)


def worker_main(snapdir):
    global EXP
    pkg = os.path.join(snapdir, "psutil")
    EXP = Explorer(pkg)
    threading.Lock = _lock_factory
    threading.RLock = _rlock_factory
    sys.path.insert(0, snapdir)
    import psutil
    assert os.path.abspath(psutil.__file__).startswith(os.path.abspath(snapdir)), psutil.__file__
    plat = psutil._psplatform
    width = {"disk": len(getattr(plat, "sdiskio", psutil._common.sdiskio)._fields),
             "net": len(psutil._common.snetio._fields)}

    def sample(fn):
        k = EXP.nsample[fn]
        EXP.nsample[fn] = k + 1
        script = EXP.kernel[fn]
        listing = script[k] if k < len(script) else script[-1]
        w = EXP.me()
        who = w.tid if w is not None else "main"
        EXP.events.append(("sample", who, fn, k))
        return listing

    def fake_disk(perdisk=False):
        return {k: tuple([v] * width["disk"]) if isinstance(v, int) else tuple(v)
                for k, st, v in sample("disk") if perdisk or st}

    def fake_net():
        return {k: tuple([v] * width["net"]) if isinstance(v, int) else tuple(v) for k, st, v in sample("net")}
    plat.disk_io_counters = fake_disk
    plat.net_io_counters = fake_net
    mods = [m for n, m in sorted(sys.modules.items()) if (n == "psutil" or n.startswith("psutil.")) and m is not None
            and getattr(m, "__file__", "") and m.__file__.endswith(".py")]
    pristine = Pristine(mods)
    EXP.n_import_locks = len(EXP.locks)
    _warm_opcode_tracing()
    out = sys.stdout
    out.write(json.dumps({"ready": True, "width": width, "import_time_locks": len(EXP.locks)}) + "\n")
    out.flush()
    for line in sys.stdin:
        line = line.strip()
        if not line:
            continue
        job = json.loads(line)
        try:
            r = Job(psutil, pristine, job).run()
        except Exception as e:  # noqa: BLE001
            import traceback
            r = {"status": "infra-error", "why": "%s: %s" % (type(e).__name__, e), "tb": traceback.format_exc()[-800:]}
        out.write(json.dumps(r) + "\n")
        out.flush()
        if r["status"] in ("infra-timeout", "infra-error", "deadlock"):
            # threads of the abandoned schedule may linger: start afresh
            out.write(json.dumps({"bye": True}) + "\n")
            out.flush()
            os._exit(0)


if __name__ == "__main__":
    worker_main(sys.argv[1])
    sys.exit(0)


# ====================================================================================================================
# harness side
# ====================================================================================================================

import itertools  # noqa: E402
import subprocess  # noqa: E402

DEV = {"net": "eth0", "disk": "sda"}


class Pool:
    """the worker process (restarted after an abandoned schedule)"""

    def __init__(self, snapdir):
        self.snapdir = snapdir
        self.p = None
        self.width = None
        self.import_time_locks = None

    def start(self):
        self.p = subprocess.Popen([sys.executable, os.path.abspath(__file__), self.snapdir], stdin=subprocess.PIPE,
                                  stdout=subprocess.PIPE, text=True, bufsize=1,
                                  env=dict(os.environ, PYTHONDONTWRITEBYTECODE="1"))
        hello = json.loads(self.p.stdout.readline())
        self.width = hello["width"]
        self.import_time_locks = hello["import_time_locks"]

    def run(self, job):
        if self.p is None or self.p.poll() is not None:
            self.start()
        self.p.stdin.write(json.dumps(job) + "\n")
        self.p.stdin.flush()
        line = self.p.stdout.readline()
        if not line:
            self.close()
            return {"status": "infra-error", "why": "worker process died"}
        r = json.loads(line)
        if r["status"] in ("infra-timeout", "infra-error", "deadlock"):
            self.close()
        return r

    def close(self):
        if self.p is not None:
            try:
                self.p.stdin.close()
                self.p.wait(timeout=5)
            except Exception:  # noqa: BLE001
                self.p.kill()
            self.p = None


def listing(fn, v, extra=None):
    out = [[DEV[fn], True, v]]
    if extra:
        out += extra
    return out


def programs():
    """(name, cold?, job skeleton). Kernel scripts are per function; the k-th sample of a function reads entry k."""
    mono = lambda fn: [listing(fn, v) for v in (100, 105, 110, 115, 120, 125)]
    P = []
    for fn, perdev in (("net", True), ("net", False), ("disk", True), ("disk", False)):
        tag = "%s/%s" % (fn, "per-device" if perdev else "system-wide")
        # the first calls of the process, two threads at once; the kernel's counter only ever grows
        P.append(("cold2:" + tag, True, {
            "programs": {"0": [["call", fn, perdev]], "1": [["call", fn, perdev]]},
            "kernel": {"net": mono("net"), "disk": mono("disk")}, "epilogue": [["call", fn, perdev]]}))
    # default arguments (nowrap left out), cold
    P.append(("cold2:net/default-args", True, {
        "programs": {"0": [["call", "net", True, "default"]], "1": [["call", "net", True, "default"]]},
        "kernel": {"net": mono("net"), "disk": mono("disk")}, "epilogue": [["call", "net", True]]}))
    # both forms of disk_io_counters at once, cold (two histories; a partition is listed)
    P.append(("cold2:disk/both-forms", True, {
        "programs": {"0": [["call", "disk", True]], "1": [["call", "disk", False]]},
        "kernel": {"net": mono("net"),
                   "disk": [listing("disk", v, [["sda1", False, v]]) for v in (100, 105, 110, 115, 120)]},
        "epilogue": [["call", "disk", True], ["call", "disk", False]]}))
    # the two functions at once, cold
    P.append(("cold2:net+disk", True, {
        "programs": {"0": [["call", "net", True]], "1": [["call", "disk", True]]},
        "kernel": {"net": mono("net"), "disk": mono("disk")},
        "epilogue": [["call", "net", True], ["call", "disk", True]]}))
    # warm history, a genuine backwards step in the kernel between the two concurrent samples
    for fn in ("net", "disk"):
        P.append(("warm2:%s/wrap" % fn, False, {
            "prefix": [["call", fn, True]],
            "programs": {"0": [["call", fn, True]], "1": [["call", fn, True]]},
            "kernel": {fn: [listing(fn, v) for v in (100, 10, 20, 30)],
                       ("disk" if fn == "net" else "net"): mono("disk" if fn == "net" else "net")},
            "epilogue": [["call", fn, True]]}))
    # a cache_clear racing with a call on a history that has wrapped
    P.append(("warm2:net/clear", False, {
        "prefix": [["call", "net", True], ["call", "net", True]],
        "programs": {"0": [["call", "net", True]], "1": [["clear", "net"]]},
        "kernel": {"net": [listing("net", v) for v in (100, 10, 20, 30, 40)], "disk": mono("disk")},
        "epilogue": [["call", "net", True]]}))
    # cold, clear first thing in one thread
    P.append(("cold2:disk/clear", True, {
        "programs": {"0": [["call", "disk", True], ["call", "disk", True]], "1": [["clear", "disk"], ["call", "disk", True]]},
        "kernel": {"net": mono("net"), "disk": [listing("disk", v) for v in (100, 10, 20, 30, 40)]},
        "epilogue": [["call", "disk", True]]}))
    # three threads, cold
    P.append(("cold3:net", True, {
        "programs": {"0": [["call", "net", True]], "1": [["call", "net", True]], "2": [["call", "net", False]]},
        "kernel": {"net": mono("net"), "disk": mono("disk")}, "epilogue": [["call", "net", True]]}))
    return P


def two_preemption_plans(points, order):
    """X x points · Y y points · X to the end · Y to the end (· everybody else), for all (x, y)"""
    x_t, y_t = order
    for x in range(0, points[x_t] + 1):
        for y in range(0, points[y_t] + 1):
            yield [[x_t, x], [y_t, y], [x_t, None], [y_t, None]]


def judge(ctx, job, r, cache):
    """None if every result is what the property promises for the observed order of kernel reads, else (note, spec).
    Model-independent: only `Spec.expected` over a sequential history (asked from the driver) is used."""
    if r["status"] == "deadlock":
        return "all threads wait for a lock for ever (threads -> lock: %s): the public call never returns" % r.get("blocked"), None
    ev = r["events"]
    # ops in the order of their kernel read; clears with their real-time window
    calls = []        # (sample position, who, op index, fn, perdev, listing)
    open_call = {}
    ops = []          # per op: dict(kind, who, idx, inv, ret, ...)
    for i, e in enumerate(ev):
        if e[0] == "call-invoked":
            d = {"kind": "call", "who": e[1], "idx": e[2], "fn": e[3], "perdev": e[4], "inv": i, "ret": None, "sample": None}
            open_call[e[1]] = d
            ops.append(d)
        elif e[0] == "sample":
            d = open_call.get(e[1])
            if d is not None and d["sample"] is None:
                d["sample"] = i
                script = job["kernel"][e[2]]
                d["listing"] = script[e[3]] if e[3] < len(script) else script[-1]
            else:
                return "a call read the kernel more than once (or outside a public call)", None
        elif e[0] in ("call-returned", "raised"):
            d = open_call.pop(e[1], None)
            if d is not None:
                d["ret"] = i
            else:
                for o in ops:
                    if o["kind"] == "clear" and o["who"] == e[1] and o["ret"] is None:
                        o["ret"] = i
        elif e[0] == "clear-invoked":
            ops.append({"kind": "clear", "who": e[1], "idx": e[2], "fn": job_op(job, e[1], e[2])[1], "inv": i, "ret": None})
        elif e[0] == "clear-returned":
            for o in ops:
                if o["kind"] == "clear" and o["who"] == e[1] and o["idx"] == e[2]:
                    o["ret"] = i
    results = r["results"]
    for o in ops:
        res = results[str(o["who"])]
        o["result"] = res[o["idx"]] if o["idx"] < len(res) else {"kind": "missing"}
        if o["result"].get("kind") == "exc":
            return "%s raised %s: %s" % ("cache_clear()" if o["kind"] == "clear" else "%s_io_counters()" % o["fn"],
                                         o["result"]["exc"], o["result"].get("msg")), None
    calls = sorted((o for o in ops if o["kind"] == "call" and o["sample"] is not None), key=lambda o: o["sample"])
    clears = [o for o in ops if o["kind"] == "clear"]
    # candidate positions of every clear in the sequence of calls (by kernel-read order): "after the first p calls" is
    # allowed iff every call that had returned before the clear was invoked is among them and no call that was invoked
    # after the clear had returned is
    cands = []
    for c in clears:
        ok = [p for p in range(len(calls) + 1)
              if all(i < p for i, o in enumerate(calls) if o["ret"] is not None and o["ret"] < c["inv"])
              and all(i >= p for i, o in enumerate(calls) if c["ret"] is not None and o["inv"] > c["ret"])]
        cands.append(ok)
    last_spec = None
    for choice in itertools.product(*cands) if clears else [()]:
        seq = []
        for p in range(len(calls) + 1):
            for c, pos in sorted(zip(clears, choice), key=lambda cp: cp[0]["inv"]):
                if pos == p:
                    seq.append(("clear", c))
            if p < len(calls):
                seq.append(("call", calls[p]))
        key = json.dumps([[k, o["fn"], o.get("perdev"), o.get("listing")] for k, o in seq])
        if key not in cache:
            lines = [{"op": "reset"}]
            for k, o in seq:
                if k == "clear":
                    lines.append({"op": "fclear", "fn": o["fn"]})
                else:
                    lines.append({"op": "fcall", "fn": o["fn"], "nowrap": True, "perdev": o["perdev"],
                                  "listing": [[d, st, [v] * WIDTH[o["fn"]] if isinstance(v, int) else v]
                                              for d, st, v in o["listing"]]})
            drv = cache.get("__driver")
            if drv is None:
                drv = cache["__driver"] = ctx.driver()      # one persistent interpreter for the whole exploration
            outs = [drv.ask(l) for l in lines][1:]
            for m in outs:
                if "bad" in m:
                    raise RuntimeError("driver rejected a line of %r: %s" % (lines, m))
            cache[key] = [m["spec"] for m in outs]
        spec = cache[key]
        last_spec = [[o["who"], o["idx"], s] for (k, o), s in zip(seq, spec) if k == "call"]
        if all(o["result"] == s for (k, o), s in zip(seq, spec) if k == "call"):
            return None
    got = [[o["who"], o["idx"], [x[2] for x in o["listing"]], o["result"]] for o in calls]
    return ("in the order in which the calls read the kernel (who, op, raw value(s) read, returned): %s — not the raw value "
            "plus the values the counter had just before each time it went backwards in that order" % got), last_spec


def job_op(job, who, idx):
    if who == "main":
        seq = job.get("prefix", []) + job.get("epilogue", [])
        return seq[idx]
    return job["programs"][str(who)][idx]


WIDTH = {}
# programs whose two-pre-emption plans are ALL run at every tier (the first calls of a process, per function)
FULL = ("cold2:net/per-device", "cold2:disk/per-device")


def explore(ctx, res, search=False, only=None):
    """run the families; returns the number of schedules. Disagreements are recorded in `res`."""
    pool = Pool(ctx.snap.dir)
    cache = {}
    n = 0
    found = set()
    try:
        pool.start()
        WIDTH.update(pool.width)
        res.extra["preempt:locks created while importing psutil"] = pool.import_time_locks
        if search:
            caps, nrandom = {"front": None, "line": 3000, "opcode": 2000}, 200
        elif ctx.tier == "thorough":
            caps, nrandom = {"front": None, "line": 500, "opcode": 300}, 50
        else:
            caps, nrandom = {"front": 60}, 15
        for gran in ("front", "line", "opcode"):
            if gran not in caps:
                continue
            for name, cold, skel in programs():
                if only and name not in only:
                    continue
                if gran == "opcode" and not name.startswith("cold2"):
                    continue
                if search and found:
                    return n        # the search is for ONE concrete failing schedule
                probe = pool.run(dict(skel, gran=gran, plan=[]))
                if probe["status"] != "ok":
                    report(ctx, res, name, dict(skel, gran=gran, plan=[]), probe, cache, found)
                    continue
                pts = {int(t): p for t, p in probe["points"].items()}
                tids = sorted(pts)
                plans = []
                for x_t, y_t in itertools.permutations(tids, 2):
                    plans += list(two_preemption_plans(pts, (x_t, y_t)))
                # quick tier: complete for the programs in FULL, stratified for the others; granularity "front" is
                # complete for every program at thorough tier and in the failing-input search
                cap = None if (gran == "front" and name in FULL) else caps[gran]
                if cap is not None and len(plans) > cap:
                    # stratified: every k-th plan, the remainder filled from the seeded PRNG
                    k = len(plans) // cap + 1
                    keep = plans[::k]
                    rest = [p for i, p in enumerate(plans) if i % k]
                    ctx.rng.shuffle(rest)
                    plans = keep + rest[:cap - len(keep)]
                    res.count("preempt:program x granularity with a SAMPLE of the two-pre-emption plans")
                else:
                    res.count("preempt:program x granularity with ALL two-pre-emption plans")
                # random plans with 3-5 pre-emptions
                for _ in range(nrandom):
                    segs = []
                    for _ in range(ctx.rng.randrange(3, 6)):
                        t = ctx.rng.choice(tids)
                        segs.append([t, ctx.rng.randrange(0, pts[t] + 1)])
                    plans.append(segs)
                plans.reverse()
                while plans:
                    plan = plans.pop()
                    job = dict(skel, gran=gran, plan=plan)
                    r = pool.run(job)
                    n += 1
                    if any(e[0] == "timed-wait" for e in r.get("events", [])) and not any(len(sg) > 2 for sg in plan):
                        # a thread waited in a TIMED acquire: also the schedule in which its timeout expires at once
                        plans.append([list(sg[:2]) + ["expire"] for sg in plan])
                        res.count("preempt:plans re-run with the timeouts of timed acquires expiring")
                    res.count("family:preempt")
                    res.count("family:preempt:" + name.split(":")[0])
                    res.count("preempt:granularity:" + gran)
                    if r["status"] in ("infra-timeout", "infra-error"):
                        res.count("preempt:inconclusive (%s)" % r["status"])
                        res.extra.setdefault("preempt:inconclusive", []).append({"program": name, "plan": plan, "why": r.get("why")})
                        continue
                    res.count("preempt:handovers", sum(1 for a, b in zip(r["events"], r["events"][1:]) if a[1] != b[1]))
                    if any(e[0] == "lock-created" for e in r["events"]):
                        res.count("preempt:schedules in which a lock was created at call time")
                    res.case(("preempt", name, gran, plan), nontrivial=len(plan) > 0)
                    if report(ctx, res, name, job, r, cache, found) and search:
                        return n
    finally:
        pool.close()
        if cache.get("__driver") is not None:
            cache["__driver"].close()
    return n


def report(ctx, res, name, job, r, cache, found):
    why = judge(ctx, job, r, cache)
    if why is None:
        return False
    note, spec = why
    if name in found:                   # one failing schedule per program is enough (the first = the smallest x, y)
        res.count("preempt:further failing schedules")
        return True
    found.add(name)
    inp = {"scenario": "preempt", "program": name, "job": job,
           "how": "fresh process state (import-time state of the psutil package restored); threads run the programs "
                  "job.programs; job.plan = [[thread, number of scheduling points it runs before the baton is handed on "
                  "(null = to its end)], …]; the k-th platform call of a function reads entry k of job.kernel[fn]; "
                  "granularity %s" % job.get("gran"),
           "observed_events": [e for e in r.get("events", []) if e[0] in (
               "sample", "lock-created", "acquired", "released", "try-failed", "timed-out", "call-invoked",
               "call-returned", "clear-invoked", "clear-returned", "raised")]}
    res.disagree("spec", inp, r.get("results"), None, spec, note="pre-emption schedule of program %s: %s" % (name, note))
    return True


def replay(ctx, rp):
    """re-run the schedule of a replay file in a fresh worker process; True iff it still violates the specification"""
    pool = Pool(ctx.snap.dir)
    cache = {}
    try:
        pool.start()
        WIDTH.update(pool.width)
        r = pool.run(rp["input"]["job"])
        if r["status"] in ("infra-timeout", "infra-error"):
            return True
        return judge(ctx, rp["input"]["job"], r, cache) is not None
    finally:
        pool.close()
        if cache.get("__driver") is not None:
            cache["__driver"].close()
